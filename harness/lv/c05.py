"""C05 - Metropolis-Hastings acceptance rule (mh_step), incl. zero / undefined ratios.

The real mh_step is run (jitted+vmapped, and eagerly) on a DictInterface whose log-prob returns
prescribed values (finite dyadics, +-inf, NaN).  For every case Coq re-runs the model mh_decide on
the same inputs and the shard lemma certifies agreement of error code, acceptance probability,
accept decision, moved flag and state selection.
"""
from __future__ import annotations

import math
import random
from fractions import Fraction

import sys

from . import common
from . import c05_kernel as kl
from . import c05_tie
from .common import lst, blit, natlit, qlit

HEADER = """From Coq Require Import List QArith Bool.
Import ListNotations.
From LV Require Import Base.Xnum Goose.MH Goose.CorrC05.
Open Scope Q_scope.
"""

SPECIALS = ["nan", "-inf", "inf"]
ZERO_KEY_SEEDS = [14620119]           # corpus: PRNGKey(seed) whose float32 uniform is exactly 0.0
MAX_KEY_SEEDS = [10082300, 14121421]  # corpus: draws >= 1 - 2^-23


def xlit(v):
    if isinstance(v, str):
        return {"nan": "XNaN", "-inf": "XNegInf", "inf": "XPosInf"}[v]
    return f"(XFin {qlit(v)})"


def to_float(v):
    if isinstance(v, str):
        return {"nan": math.nan, "-inf": -math.inf, "inf": math.inf}[v]
    return float(v)


def from_float(x):
    x = float(x)
    if math.isnan(x):
        return "nan"
    if math.isinf(x):
        return "inf" if x > 0 else "-inf"
    return Fraction(x)


def find_keys(nblocks):
    import jax, jax.numpy as jnp, numpy as np

    @jax.jit
    def f(seeds):
        keys = jax.vmap(jax.random.PRNGKey)(seeds)
        return jax.vmap(jax.random.uniform)(keys)

    z, m = [], []
    for blk in range(nblocks):
        seeds = jnp.arange(blk * 2 ** 22, (blk + 1) * 2 ** 22, dtype=jnp.uint32)
        us = np.asarray(f(seeds))
        sd = np.asarray(seeds)
        z += [int(s) for s in sd[us == 0.0]]
        m += [int(s) for s in sd[us >= np.float32(1 - 2 ** -23)]]
    return z, m


def run(ctx):
    """the standard skeleton, plus the source tie (c05_tie.py) just before the verdict is written: the source of mh_step
    and of the three _standard_transition bodies is translated to Gallina now and proved equal to the model.  A broken
    source tie alone is no alarm (a refactoring may leave the translated subset); it is named beside a behavioural
    disagreement only."""
    finish = ctx.finish

    def finish_with_tie(*a, **kw):
        built = "coq build (make) failed" not in ctx.broken
        if built:
            try:
                tie = c05_tie.run(ctx, common.REPO)
            except Exception as ex:      # optional evidence: never turns into an alarm by itself
                tie = {"translated": [], "lemmas_ok": False, "lemmas": [], "not_tied": {"all": f"{type(ex).__name__}: {ex}"},
                       "detail": "SOURCE TIE BROKEN: the tie step aborted; the verdict rests on the behavioural correspondence"}
        else:
            tie = {"translated": [], "lemmas_ok": False, "lemmas": [], "not_tied": {},
                   "detail": "not attempted: the Coq build failed"}
        ctx.cov["source_tie"] = tie
        for sec in sorted(tie["not_tied"]):
            ctx.hist("T.source_tie_broken." + sec)
        ctx.hist("T.source_tie_lemmas", len(tie["lemmas"]))
        if built and not tie["lemmas_ok"] and ctx.violations:
            ctx.broken.append("source tie (py2gallina_c05): " + "; ".join(f"{k}: {v}" for k, v in sorted(tie["not_tied"].items(), key=lambda kv: (kv[1].startswith("needs the"), kv[0])))[:600])
        ctx.extra_tb = getattr(ctx, "extra_tb", []) + [
            "source tie (advisory): tools/py2gallina_c05.py (Python ast -> Gallina for mh_step and the _standard_transition bodies of "
            "RWKernel / MHKernel / IWLSKernel; fails closed outside its subset), its library-call table (jnp.isnan -> xisnan, jnp.exp -> "
            "the exp oracle, jnp.clip(max=) / minimum -> xmin, lax.cond / where -> if, jax.random.uniform -> the uniform oracle, "
            "model.log_prob / update_state -> pure functions, every other call of the kernel bodies -> an uninterpreted pure function), "
            "coq/Goose/GenC05Tie.v; result of this run in coverage.source_tie"]
        return finish(*a, **kw)

    ctx.finish = finish_with_tie
    return common.run_standard(ctx, sys.modules[__name__])


LEAVES = ["x", "table[0]", "table[1]", "aux", "d[0]", "d[1]", "d[2]", "d[3]", "n", "flag"]
# derived-entry patterns (input d, proposed d): non-finite entries OFF the log-prob path
_F = [Fraction(21), Fraction(22), Fraction(23), Fraction(24)]
_G = [Fraction(11), Fraction(12), Fraction(13), Fraction(14)]
D_PATTERNS = [
    (_F, _G),
    (_F, ["nan", "inf", "-inf", Fraction(14)]),
    (["nan", "inf", "-inf", Fraction(24)], _G),
    (["inf", "nan", Fraction(23), "-inf"], ["nan", "-inf", "inf", Fraction(14)]),
    (_F, ["nan", "nan", "nan", "nan"]),
    (["nan", "nan", "nan", "nan"], _G),
    (["-inf", "-inf", "inf", "inf"], ["inf", "inf", "-inf", "-inf"]),
]


def _flat(tree):
    """the whole state tree, leaf by leaf, as special-value strings / exact rationals (ints and bools as integers)"""
    import numpy as np
    out = [from_float(int(tree["x"]))]
    out += [from_float(v) for v in np.asarray(tree["table"], dtype=np.float32)]
    out += [from_float(tree["aux"])]
    out += [from_float(v) for v in np.asarray(tree["d"], dtype=np.float32)]
    out += [from_float(int(tree["n"])), from_float(int(bool(tree["flag"])))]
    return out


def _mh_one():
    """one(seed, cur, prop, corr, din, dprop): the real mh_step on a dict state that carries, besides the log-prob table,
    derived float entries d (non-finite in the input and/or in the proposal), an int and a bool leaf, all updated by the
    proposal; returns info, the returned state tree, the proposed state (update_state through the interface) and u"""
    import jax, jax.numpy as jnp
    from liesel.goose.mh import mh_step
    import liesel.goose as gs
    model = gs.DictInterface(lambda st: st["table"][st["x"]])

    def one(seed, cur, prop, corr, din, dprop):
        key = jax.random.PRNGKey(seed)
        state = {"x": jnp.int32(0), "table": jnp.stack([cur, prop]), "aux": jnp.float32(7.0),
                 "d": din, "n": jnp.int32(3), "flag": jnp.bool_(False)}
        proposal = {"x": jnp.int32(1), "d": dprop, "n": jnp.int32(4), "flag": jnp.bool_(True)}
        info, new = mh_step(key, model, proposal, state, corr)
        expected = model.update_state(proposal, state)
        return (info.error_code, info.acceptance_prob, info.position_moved, new["x"], new["aux"],
                jax.random.uniform(key), new, expected, state)
    return one


def _obs(c, o):
    """store the observations of one run (o = outputs of _mh_one for this case) in the case dict"""
    c["code"] = int(o[0])
    c["p"] = from_float(o[1])
    c["moved"] = bool(o[2])
    c["x"] = int(o[3])
    c["aux_ok"] = float(o[4]) == 7.0
    c["u"] = Fraction(float(o[5]))
    c["s_out"], c["s_prop"], c["s_in"] = _flat(o[6]), _flat(o[7]), _flat(o[8])
    return c


def _tree_at(tree, i):
    import numpy as np
    return {k: np.asarray(v)[i] for k, v in tree.items()}


def generate(ctx):
    import jax, jax.numpy as jnp, numpy as np
    from liesel.goose.mh import mh_step
    import liesel.goose as gs

    rnd = random.Random(ctx.seed)
    zkeys, mkeys = find_keys(4 if ctx.quick else 64)
    zkeys = sorted(set(zkeys) | set(ZERO_KEY_SEEDS))
    mkeys = sorted(set(mkeys) | set(MAX_KEY_SEEDS))
    ctx.hist("keys.uniform_exactly_0", len(zkeys))
    ctx.hist("keys.uniform_max", len(mkeys))

    def fin():
        return Fraction(rnd.randint(-256, 256), 8)

    triples = []
    vals = SPECIALS + [Fraction(0), None]
    for a in vals:
        for b in vals:
            for c in vals:
                triples.append(tuple(fin() if v is None else v for v in (a, b, c)))
    nrand = 300 if ctx.quick else 5000
    for _ in range(nrand):
        k = rnd.random()
        if k < 0.7:
            triples.append((fin(), fin(), rnd.choice([Fraction(0), fin() / 4])))
        else:
            triples.append(tuple(rnd.choice(SPECIALS) if rnd.random() < 0.3 else fin() for _ in range(3)))
    cases = []
    for (cur, prop, corr) in triples:
        seeds = [rnd.randrange(2 ** 31), rnd.choice(zkeys), rnd.choice(mkeys)]
        special = any(isinstance(v, str) for v in (cur, prop, corr))
        if not special and rnd.random() < 0.6:
            seeds = seeds[:1] + ([seeds[1]] if rnd.random() < 0.3 else [])
        for s in seeds:
            # derived entries of the state: forced patterns on every other case, else a random class per entry
            if len(cases) % 2 == 0:
                din, dprop = D_PATTERNS[(len(cases) // 2) % len(D_PATTERNS)]
            else:
                pick = lambda base: [rnd.choice(SPECIALS) if rnd.random() < 0.4 else Fraction(base + j) for j in range(4)]
                din, dprop = pick(21), pick(11)
            cases.append({"cur": cur, "prop": prop, "corr": corr, "seed": s, "din": list(din), "dprop": list(dprop)})

    # ---- run the real mh_step ----
    one = _mh_one()
    f32 = lambda v: np.float32(to_float(v))
    seeds = jnp.array([c["seed"] for c in cases], dtype=jnp.uint32)
    curs = jnp.array([f32(c["cur"]) for c in cases])
    props = jnp.array([f32(c["prop"]) for c in cases])
    corrs = jnp.array([f32(c["corr"]) for c in cases])
    dins = jnp.array([[f32(v) for v in c["din"]] for c in cases], dtype=jnp.float32)
    dprops = jnp.array([[f32(v) for v in c["dprop"]] for c in cases], dtype=jnp.float32)
    outs = jax.jit(jax.vmap(one))(seeds, curs, props, corrs, dins, dprops)
    outs = [({k: np.asarray(v) for k, v in o.items()} if isinstance(o, dict) else np.asarray(o)) for o in outs]
    # eager on a sub-sample (same function, no jit / vmap)
    eager_idx = list(range(0, len(cases), max(1, len(cases) // (60 if ctx.quick else 400))))
    n_eager_diff = 0
    for i, c in enumerate(cases):
        _obs(c, [(_tree_at(o, i) if isinstance(o, dict) else o[i]) for o in outs])
        # model-side log ratio under IEEE rules, exactness check, jnp.exp oracle
        l = np.float32(np.float32(f32(c["prop"]) - f32(c["cur"])) + f32(c["corr"]))
        fins = [v for v in (c["prop"], c["cur"], c["corr"]) if not isinstance(v, str)]
        if len(fins) == 3:
            assert Fraction(float(l)) == c["prop"] - c["cur"] + c["corr"], "inexact float32 input"
        with np.errstate(all="ignore"):
            e = float(jnp.exp(jnp.float32(-math.inf if math.isnan(float(l)) else l)))
        c["e"] = from_float(e)
    for i in eager_idx:
        c = cases[i]
        o = one(jnp.uint32(c["seed"]), jnp.float32(f32(c["cur"])), jnp.float32(f32(c["prop"])), jnp.float32(f32(c["corr"])),
                jnp.array([f32(v) for v in c["din"]], dtype=jnp.float32), jnp.array([f32(v) for v in c["dprop"]], dtype=jnp.float32))
        eq = (int(o[0]) == c["code"] and bool(o[2]) == c["moved"] and int(o[3]) == c["x"] and _flat(o[6]) == c["s_out"]
              and (from_float(o[1]) == c["p"] or abs(float(o[1]) - float(c["p"])) <= 1e-6))
        if not eq:
            n_eager_diff += 1
            c["eager_differs"] = True
    ctx.tested_not_proved.append(f"eager vs jit+vmap mh_step on {len(eager_idx)} cases: {n_eager_diff} differences")
    for c in cases:
        sp = sum(isinstance(v, str) for v in (c["cur"], c["prop"], c["corr"]))
        ctx.hist(f"special_values={sp}")
        ctx.hist("u==0" if c["u"] == 0 else ("u max" if c["u"] >= 1 - Fraction(1, 2 ** 23) else "u random"))
        ctx.hist(f"code={c['code']}")
        ctx.hist("accepted" if c["moved"] else "rejected")
        nf = lambda l: any(isinstance(v, str) for v in l)
        ctx.hist("state.%s derived entries non-finite: input=%s proposed=%s" % ("accepted" if c["moved"] else "rejected", nf(c["din"]), nf(c["dprop"])))
    distinct = {(str(c["cur"]), str(c["prop"]), str(c["corr"]), c["seed"], str(c["din"]), str(c["dprop"])) for c in cases}
    ctx.count(len(cases), len(distinct))
    ctx.cov["rule"] = ("all 125 combinations of {nan,-inf,+inf,0,finite} for (current, proposed, correction) x key strata "
                       "{random, uniform==0, uniform max} + random dyadic triples, each on a dict state with 4 derived float entries off the "
                       "log-prob path (forced / random patterns of nan, +inf, -inf in the input and in the proposal), an int and a bool "
                       "leaf, the whole returned tree compared leaf by leaf; distinct = distinct (cur,prop,corr,seed,d_in,d_prop)")
    for c in cases[:2] + [c for c in cases if c["u"] == 0 and c["p"] == 0][:2]:
        ctx.sample({k: str(v) for k, v in c.items()})
    # ---- kernel level: RWKernel / MHKernel / IWLSKernel transitions ----
    kcases = kl.generate(ctx, rnd)
    kdistinct = {(c["fam"], c["kern"], c["epoch"], c["seed"], str(sorted(c["params"].items()))) for c in kcases}
    ctx.count(len(kcases), len(kdistinct))
    ctx.cov["rule"] += ("; kernel level: one real kernel.transition per case (RW / MH / IWLS kernel on a DictInterface target with "
                        "prescribed special log-probs, user corrections and Cholesky factors, and on liesel models with Cauchy / "
                        "Uniform / Gamma priors) x key strata on the accept key; distinct = distinct (family, kernel, epoch, seed, parameters)")
    ctx.tested_not_proved.append("kernel level: the accept key is the second half of jax.random.split(prng_key) and the RW / IWLS "
                                 "proposal is the documented Gaussian draw from the first half (needed to force the uniform draw and to "
                                 "compute the ingredients independently); adaptation epochs: info and model state only, the dual-averaging "
                                 "update of the kernel state is not compared")
    ctx.assume.append("kernel level: the ingredients (current/proposed log-prob via the model interface, correction, uniform draw) are "
                      "recomputed by the harness outside the kernel; finite values agree up to float32 rounding (tolerance 2^-12 on the probability)")
    return cases + kcases


def emit(ctx, cases):
    shards = []
    kidx = [i for i, c in enumerate(cases) if c.get("kind") == "kernel"]
    for k in range(0, len(kidx), 400):
        idxs = kidx[k:k + 400]
        txt = HEADER + f"""From LV Require Import Goose.MHKernel.
Definition kcases : list kcase := {lst([kl.row(cases[i]) for i in idxs])}.
Lemma shard_ok : forallb (kagrees Lt) kcases = true.
Proof. vm_compute. reflexivity. Qed.
"""
        shards.append((ctx.new_shard(txt), idxs))
    nmh = len(cases) - len(kidx)     # mh_step cases come first
    for k in range(0, nmh, 500):
        idxs = list(range(k, min(k + 500, nmh)))
        rows = []
        for i in idxs:
            c = cases[i]
            base = "(mkCase " + " ".join([xlit(c["cur"]), xlit(c["prop"]), xlit(c["corr"]), xlit(c["u"]), xlit(c["e"]),
                                          natlit(c["code"]), xlit(c["p"]), blit(c["moved"]), natlit(c["x"]), blit(c["aux_ok"])]) + ")"
            rows.append(f"(mkCaseSt {base} {lst([xlit(v) for v in c['s_in']])} {lst([xlit(v) for v in c['s_prop']])} "
                        f"{lst([xlit(v) for v in c['s_out']])})")
        txt = HEADER + f"""
Definition cases : list mhcase_st := {lst(rows)}.
Lemma shard_ok : forallb (agrees_st Lt) cases = true.
Proof. vm_compute. reflexivity. Qed.
"""
        shards.append((ctx.new_shard(txt), idxs))
    return shards


def diagnose(ctx, path, idxs, cases):
    txt = open(path).read().split("Lemma shard_ok")[0]
    if "kagrees" in open(path).read():
        txt += "Eval vm_compute in (failing (kagrees Lt) kcases).\n"
    else:
        txt += "Eval vm_compute in (failing (agrees_st Lt) cases).\n"
    ok, out = ctx.coq_eval(txt)
    return [idxs[j] for j in common.parse_nat_list(out) if j < len(idxs)]


def oracle(c):
    """the property read literally on (u, acceptance_prob, moved, state)"""
    if c.get("kind") == "kernel":
        return kl.oracle(c)
    p, u = c["p"], c["u"]
    if isinstance(p, str) or not (0 <= p <= 1):
        return f"acceptance probability {p} outside [0,1]"
    x = to_float(c["prop"]) - to_float(c["cur"]) + to_float(c["corr"])
    want = 0.0 if (math.isnan(x) or x == -math.inf) else (1.0 if x >= 0 else math.exp(x))
    if abs(float(p) - want) > 1e-5 * max(want, 1e-30):
        return f"reported acceptance probability {float(p)} is not min(1, exp(log-ratio)) = {want}"
    if c["moved"] and not (u < p):
        return (f"proposal accepted although the uniform draw {float(u)} does not lie below the acceptance "
                f"probability {float(p)}")
    if p == 1 and not c["moved"]:
        return "acceptance probability 1 but proposal rejected"
    nan_ratio = _isnan_ratio(c)
    if nan_ratio and (c["code"] != 90 or c["moved"]):
        return f"undefined ratio: code {c['code']} moved {c['moved']} (expected code 90 and rejection)"
    if not nan_ratio and c["code"] != 0:
        return f"error code {c['code']} on a defined ratio"
    if c["x"] != (1 if c["moved"] else 0) or not c["aux_ok"]:
        return "returned state is neither the input state (rejection) nor the proposed state (acceptance)"
    want_s = c["s_prop"] if c["moved"] else c["s_in"]
    bad = [f"{LEAVES[j]}: returned {c['s_out'][j]}, expected {want_s[j]}" for j in range(len(want_s)) if c["s_out"][j] != want_s[j]]
    if bad or len(c["s_out"]) != len(want_s):
        return ("returned model state is not " + ("the state updated with the proposal (accepted move)" if c["moved"] else
                "the input state (rejected move)") + " entry by entry: " + "; ".join(bad)
                + f"  [input state {[str(v) for v in c['s_in']]}, proposed state {[str(v) for v in c['s_prop']]}]")
    return None


def _isnan_ratio(c):
    x = to_float(c["prop"]) - to_float(c["cur"]) + to_float(c["corr"])
    return math.isnan(x)


def klass(c):
    return None


def search(ctx, disagreeing):
    # the forced strata already contain the boundary cases; the disagreeing cases are re-judged by the oracle
    out = []
    for c in disagreeing:
        r = oracle(c)
        if r:
            out.append({"why": r, **{k: str(v) for k, v in c.items()}})
    return out


def replay(rp) -> int:
    """re-run mh_step on the recorded (current, proposed, correction, seed) and judge it with the oracle"""
    import jax, jax.numpy as jnp, numpy as np
    from liesel.goose.mh import mh_step
    import liesel.goose as gs
    c = rp["replay"].get("case", rp["replay"])
    if c.get("kind") == "kernel":
        return kl.replay_case(c)
    if "seed" not in c:
        print("replay file names no concrete input (broken lemma only):", rp["replay"].get("broken"))
        return 0

    def val(v):
        v = str(v)
        return v if v in SPECIALS else Fraction(v)

    def vlist(l, default):
        if isinstance(l, str):
            import ast
            l = ast.literal_eval(l) if l.startswith("[") and "Fraction" not in l else None
        return [val(v) for v in l] if l else list(default)

    c = {"cur": val(c["cur"]), "prop": val(c["prop"]), "corr": val(c["corr"]), "seed": int(c["seed"]),
         "din": vlist(c.get("din"), D_PATTERNS[0][0]), "dprop": vlist(c.get("dprop"), D_PATTERNS[0][1])}
    f32 = lambda v: np.float32(to_float(v))
    o = _mh_one()(jnp.uint32(c["seed"]), jnp.float32(f32(c["cur"])), jnp.float32(f32(c["prop"])), jnp.float32(f32(c["corr"])),
                  jnp.array([f32(v) for v in c["din"]], dtype=jnp.float32), jnp.array([f32(v) for v in c["dprop"]], dtype=jnp.float32))
    _obs(c, o)
    r = oracle(c)
    print({k: str(v) for k, v in c.items()})
    if r:
        print("REPLAY FAILS:", r)
        return 1
    print("replay passes on the current tree")
    return 0
