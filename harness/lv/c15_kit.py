"""C15 kit: build liesel node/var graphs from a JSON program, snapshot the Python objects through the
public API ("world"), run build / pop / copy / save-load / mutator operations on the real code."""
from __future__ import annotations

import copy as _copy
import io
import logging

LOG: list[int] = []          # call log of the harness functions (evaluation order of caching nodes)


class Fn:
    """Calc function: 1 + tag + sum of the positional and (non-seed) keyword arguments; logs its call."""

    def __init__(self, tag):
        self.tag = tag

    def __call__(self, *a, **k):
        LOG.append(self.tag)
        return 1 + self.tag % 3 + sum(int(x) for x in a) + sum(int(v) for kw, v in sorted(k.items()) if kw != "seed")


class HD:
    """harness distribution: log_prob(x) = -|x - (sum of the arguments)|"""

    def __init__(self, *a, **k):
        self.loc = sum(int(x) for x in a) + sum(int(v) for kw, v in sorted(k.items()) if kw != "seed")

    def log_prob(self, x):
        return -abs(int(x) - self.loc)

    # used by Var.transform(None) only
    experimental_default_event_space_bijector = None


class DistFn:
    def __init__(self, tag):
        self.tag = tag

    def __call__(self, *a, **k):
        LOG.append(self.tag)
        return HD(*a, **k)


def lsl():
    import liesel.model as m
    return m


def plain(val):
    """JSON-able rendering of a node value: ints and Python floats as they are, arrays as a rounded list"""
    if val is None or isinstance(val, (bool, int, float)):
        return val
    try:
        import numpy as np
        a = np.asarray(val)
        if a.dtype.kind in "fiu" and a.size <= 8:
            return ["arr"] + [round(float(x), 5) for x in a.ravel()]
        return "arr"
    except Exception:
        return "obj"


# ---------------------------------------------------------------------------------------------
# registry + snapshot
# ---------------------------------------------------------------------------------------------
class Registry:
    def __init__(self):
        self.nodes, self.vars, self.groups, self.models = [], [], [], []
        self._ni, self._vi, self._gi = {}, {}, {}

    def nid(self, n):
        k = id(n)
        if k not in self._ni:
            self._ni[k] = len(self.nodes)
            self.nodes.append(n)
        return self._ni[k]

    def vid(self, v):
        k = id(v)
        if k not in self._vi:
            self._vi[k] = len(self.vars)
            self.vars.append(v)
        return self._vi[k]

    def gid(self, g):
        k = id(g)
        if k not in self._gi:
            self._gi[k] = len(self.groups)
            self.groups.append(g)
        return self._gi[k]

    def reg(self, obj):
        L = lsl()
        if isinstance(obj, L.Var):
            return self.vid(obj)
        return self.nid(obj)

    def discover(self):
        """close the registry under inputs / var membership / groups (public attributes only)"""
        L = lsl()
        i = j = 0
        while i < len(self.nodes) or j < len(self.vars):
            while i < len(self.nodes):
                n = self.nodes[i]
                i += 1
                for x in n.inputs:
                    self.nid(x)
                for x in n.kwinputs.values():
                    self.nid(x)
                if isinstance(n, L.Dist) and n.at is not None:
                    self.nid(n.at)
                if n.var is not None:
                    self.vid(n.var)
                for g in n.groups.values():
                    self.gid(g)
                if n.model is not None:
                    for x in n.outputs:
                        self.nid(x)
            while j < len(self.vars):
                v = self.vars[j]
                j += 1
                self.nid(v.value_node)
                self.nid(v.var_value_node)
                if v.dist_node is not None:
                    self.nid(v.dist_node)
                for g in v.groups.values():
                    self.gid(g)

    def snapshot(self):
        L = lsl()
        self.discover()
        nodes = []
        for n in self.nodes:
            m = n.model
            val = n.value if not isinstance(n, L.TransientNode) else None
            val = plain(val)
            nodes.append({
                "kind": type(n).__name__, "name": n.name,
                "pos": [self.nid(x) for x in n.inputs],
                "kw": [[k, self.nid(x)] for k, x in n.kwinputs.items()],
                "at": (self.nid(n.at) if isinstance(n, L.Dist) and n.at is not None else None),
                "ins": [self.nid(x) for x in n.all_input_nodes()],
                "var": (self.vid(n.var) if n.var is not None else None),
                "seed": bool(n.needs_seed), "isdist": isinstance(n, L.Dist),
                "inmodel": m is not None,
                "mid": (next((k for k, mm in enumerate(self.models) if mm is m), -1) if m is not None else None),
                "outs": ([self.nid(x) for x in n.outputs] if m is not None else []),
                "groups": [self.gid(g) for g in n.groups.values()],
                "value": val,
            })
        vs = []
        for v in self.vars:
            vs.append({"name": v.name, "value": self.nid(v.value_node), "varvalue": self.nid(v.var_value_node),
                       "dist": (self.nid(v.dist_node) if v.dist_node is not None else None),
                       "obs": bool(v.observed), "par": bool(v.parameter),
                       "groups": [self.gid(g) for g in v.groups.values()], "inmodel": v.model is not None,
                       "auto": bool(v.auto_transform)})
        return {"nodes": nodes, "vars": vs, "gnames": [g.name for g in self.groups]}


# ---------------------------------------------------------------------------------------------
# program -> objects
# ---------------------------------------------------------------------------------------------
def construct(prog, reg: Registry):
    """objs: list of dicts (see c15.py generator); returns the list of created Python objects"""
    L = lsl()
    logging.getLogger("liesel").setLevel(logging.ERROR)
    objs = []

    def ref(r):
        return objs[r]

    for k, o in enumerate(prog["objs"]):
        kind = o["k"]
        if kind == "value":
            x = L.Value(float(o["val"]) if o.get("float") else int(o["val"]), _name=o["name"])
        elif kind == "tdist":
            import tensorflow_probability.substrates.jax.distributions as tfd
            x = L.Dist(getattr(tfd, o.get("family", "Exponential")), ref(o["rate"]), _name=o["name"], _needs_seed=bool(o.get("seed")))
        elif kind == "calc":
            x = L.Calc(Fn(k), *[ref(r) for r in o["pos"]], _name=o["name"], _needs_seed=bool(o.get("seed")),
                       **{kw: ref(r) for kw, r in o.get("kw", [])})
        elif kind == "dist":
            x = L.Dist(DistFn(k), *[ref(r) for r in o["pos"]], _name=o["name"], _needs_seed=bool(o.get("seed")),
                       **{kw: ref(r) for kw, r in o.get("kw", [])})
        elif kind == "var":
            val = o["value"]
            val = (float(val["fconst"]) if "fconst" in val else int(val["const"])) if isinstance(val, dict) else ref(val)
            d = ref(o["dist"]) if o.get("dist") is not None else None
            x = L.Var(val, d, name=o["name"])
            if o.get("auto"):
                x.auto_transform = True
            if o.get("role") == "param":
                x.parameter = True
            elif o.get("role") == "obs":
                x.observed = True
        elif kind == "group":
            x = L.Group(o["name"], **{f"m{i}": ref(r) for i, r in enumerate(o["members"])})
            objs.append(x)
            reg.gid(x)
            continue
        else:
            raise ValueError(kind)
        objs.append(x)
        reg.reg(x)
    return objs


# ---------------------------------------------------------------------------------------------
# evaluation of a snapshot from scratch (values of all nodes), independent of liesel's caches
# ---------------------------------------------------------------------------------------------
def tag_of(node):
    f = getattr(node, "function", None)
    if isinstance(f, Fn):
        return f.tag
    d = getattr(node, "distribution", None)
    if isinstance(d, DistFn):
        return d.tag
    return None


def evaluate(reg: Registry, snap, ids):
    """value of the nodes `ids` given the values of the Value nodes in the snapshot, by recursion on the
    observed input structure (Calc = Fn, Dist = HD, VarValue = identity, _model_log_* = sums)"""
    memo = {}
    nodes = snap["nodes"]

    def isint(x):
        return isinstance(x, int) and not isinstance(x, bool)

    def val(i, depth=0):
        if i in memo:
            return memo[i]
        if depth > 200:
            raise RecursionError
        n = nodes[i]
        obj = reg.nodes[i]
        kind = n["kind"]
        r = None
        if kind in ("Value", "Data"):
            r = n["value"] if isint(n["value"]) else None
        elif kind in ("VarValue", "TransientIdentity"):
            r = val(n["pos"][0], depth + 1)
        elif kind == "Dist" and tag_of(obj) is not None:
            args = [val(j, depth + 1) for j in n["pos"]] + [val(j, depth + 1) for kw, j in n["kw"] if kw != "seed"]
            at = val(n["at"], depth + 1)
            r = -abs(at - sum(args)) if isint(at) and all(isint(a) for a in args) else None
        elif kind == "Calc":
            args = [val(j, depth + 1) for j in n["pos"]]
            kws = [val(j, depth + 1) for kw, j in n["kw"] if kw != "seed"]
            t = tag_of(obj)
            if not all(isint(a) for a in args + kws):
                r = None
            elif t is None:
                r = sum(args) if n["name"].startswith("_model_log") else None     # _reduced_sum
            else:
                r = 1 + t % 3 + sum(args) + sum(kws)
        memo[i] = r
        return r

    return {i: val(i) for i in ids}


# ---------------------------------------------------------------------------------------------
# model observations
# ---------------------------------------------------------------------------------------------
def classify(ex):
    s = str(ex)
    t = type(ex).__name__
    if t == "NetworkXUnfeasible" or "cycle" in s.lower():
        return "cycle"
    if "Duplicate node" in s:
        return "dupnode"
    if "Duplicate variable" in s:
        return "dupvar"
    if "Duplicate group" in s:
        return "dupgroup"
    if "reserved" in s:
        return "reserved"
    if "part of a model" in s or "part of one model" in s:
        return "inmodel"
    return "other:" + t


def model_summary(model, with_state=True):
    """name-based canonical description of a model (public API)"""
    L = lsl()
    out = {}
    for name, n in model.nodes.items():
        try:
            outs = sorted(x.name for x in n.outputs)
        except Exception as ex:  # noqa  (a node that lost its model)
            outs = "outputs raised " + type(ex).__name__
        ent = {"kind": type(n).__name__, "name_attr": n.name,
               "pos": [x.name for x in n.inputs], "kw": sorted([k, x.name] for k, x in n.kwinputs.items()),
               "at": (n.at.name if isinstance(n, L.Dist) and n.at is not None else None),
               "outs": outs, "var": (n.var.name if n.var is not None else None),
               "seed": bool(n.needs_seed), "owned": n.model is model,
               "groups": sorted(n.groups)}
        out[name] = ent
    vs = {}
    for name, v in model.vars.items():
        vs[name] = {"name_attr": v.name, "value": v.value_node.name, "varvalue": v.var_value_node.name,
                    "dist": (v.dist_node.name if v.dist_node is not None else None),
                    "obs": bool(v.observed), "par": bool(v.parameter), "groups": sorted(v.groups)}
    edges = sorted((a.name, b.name) for a, b in model.node_graph.edges)
    st = None
    if with_state:
        st = {}
        try:
            items = list(model.state.items())
        except Exception as ex:  # noqa
            items = []
            st["?"] = ["state raised " + type(ex).__name__, True]
        for name, s in items:
            st[name] = [plain(s.value), bool(s.outdated)]
    return {"nodes": out, "vars": vs, "edges": edges, "state": st}


def sorted_order(model):
    order = getattr(model, "_sorted_nodes", None)
    if order is None:
        return None
    return list(order)


def save_load(model):
    L = lsl()
    buf = io.BytesIO()
    L.save_model(model, buf)
    buf.seek(0)
    return L.load_model(buf)


def deep(model):
    return _copy.deepcopy(model)
