import argparse
import importlib
import json
import os
import sys

from . import common


def main():
    ap = argparse.ArgumentParser()
    ap.add_argument("pid")
    ap.add_argument("--tier", default=os.environ.get("VERIF_TIER", "quick"), choices=["quick", "thorough"])
    ap.add_argument("--replay", default=None)
    a = ap.parse_args()
    seed = int(os.environ.get("VERIF_SEED", "20260929"))
    mod = importlib.import_module(f"lv.{a.pid.lower()}")
    if a.replay:
        rp = json.load(open(a.replay))
        sys.exit(mod.replay(rp))
    ctx = common.Ctx(a.pid, a.tier, seed)
    try:
        if hasattr(mod, "run"):
            rc = mod.run(ctx)
        else:
            rc = common.run_standard(ctx, mod)
    except Exception:
        # the harness could not drive the implementation the way the model says it behaves:
        # the correspondence is broken; report it (the traceback is the replay)
        import traceback
        tb = traceback.format_exc()
        common.log(tb)
        ctx.broken.append("correspondence harness aborted (implementation raised where the model does not)")
        ctx.violations = [v for v in ctx.violations]
        ctx.violation("harness aborted: " + tb.strip().splitlines()[-1], {"traceback": tb, "broken": ctx.broken}, False, None)
        rc = ctx.finish()
    sys.exit(rc)


if __name__ == "__main__":
    main()
