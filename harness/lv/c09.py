"""C09 - kernels compose blockwise and keep the model state coherent.

Layer D (exact): random node graphs are built as REAL liesel models on integer values (the C01
generator), wrapped in the real LieselInterface (or a dict state in the real DictInterface) and driven
through the real KernelSequence.transition with real GibbsKernel / MHKernel (+ mh_step) kernels over
disjoint blocks.  The transition / proposal functions are scripted: the proposed value of a key is an
affine function (mod P) of values of the state THE KERNEL RECEIVES, acceptance is forced through the
log-correction (+inf / -inf) or left to mh_step.  Identity "spy" kernels between the real kernels record
the model state after every kernel.  Coq re-runs the model (Blockwise.seq_transition, memo instance) on the
same graph / initial state / kernels / reported acceptances and the shard lemmas certify that every
intermediate and final model state agrees (vm_compute, Qed).

Layer F (frame + tests): float regression models with intermediate, transient, joint and parameter-free
derived nodes are sampled with the real Engine (jit, scan) and the built-in RW / IWLS / MH / Gibbs / HMC /
NUTS kernels over disjoint blocks; Gibbs "probe" kernels copy the whole model state into probe nodes
after every kernel.  Coq checks per kernel transition that the set of stored nodes that changed lies
inside the set the frame theorem allows (and is empty after a rejected MH-type step); the direct oracle
recomputes every derived node from the stored parameters with a fresh model (tolerance), checks the
threading of the states and the deterministic Gibbs writes.
"""
from __future__ import annotations

import json
import random

from . import common
from .common import lst, blit, natlit, zlit
from . import c01
from .c01 import PG, apply_fs, P

HEADER = """From Coq Require Import List ZArith Bool.
Import ListNotations.
From LV Require Import Graph.Graph Graph.CorrC01 Graph.Blockwise Graph.CorrC09.
Open Scope Z_scope.
"""

_lib: dict = {}


def lib():
    if _lib:
        return _lib
    import logging
    logging.getLogger("liesel").setLevel(logging.ERROR)
    import jax
    import jax.numpy as jnp
    import liesel.goose as gs
    from liesel.goose.epoch import EpochConfig, EpochType
    from liesel.goose.kernel import DefaultTransitionInfo, TransitionOutcome
    from liesel.goose.kernel_sequence import KernelSequence
    from liesel.goose.rw import RWKernelState

    class Spy:
        """identity kernel of the harness: records the model state it receives"""
        error_book = {0: "no errors"}
        needs_history = False
        position_keys: tuple = ()

        def __init__(self, ident, sink):
            self.identifier = ident
            self.sink = sink

        def transition(self, prng_key, kernel_state, model_state, epoch):
            self.sink.append(model_state)
            return TransitionOutcome(DefaultTransitionInfo(0, 1.0, 1), kernel_state, model_state)

    from liesel.goose.kernel import ModelMixin

    class ErrKernel(ModelMixin):
        """kernel of the harness that always writes its scripted position back (like Gibbs) and reports the error
        code found in its kernel state - legal kernel behaviour: the code is bookkeeping (as NUTS' 'maximum tree
        depth reached'), the returned state is the state"""
        error_book = {0: "no errors", 1: "warning 1", 2: "warning 2", 3: "warning 3", 90: "warning 90"}
        needs_history = False
        identifier = ""

        def __init__(self, names, fn):
            self.position_keys = tuple(names)
            self._fn = fn
            self._model = None

        def transition(self, prng_key, kernel_state, model_state, epoch):
            new = self.model.update_state(self._fn(model_state), model_state)
            return TransitionOutcome(DefaultTransitionInfo(kernel_state["code"], 1.0, 1), kernel_state, new)

    _lib.update(ErrKernel=ErrKernel)
    _lib.update(jax=jax, jnp=jnp, gs=gs, EpochConfig=EpochConfig, EpochType=EpochType,
                KernelSequence=KernelSequence, RWKernelState=RWKernelState, Spy=Spy)
    return _lib


# ---------------------------------------------------------------------------------------------------
# layer D: the real model + interface + kernel sequence for one description
# ---------------------------------------------------------------------------------------------------
class DictReal:
    """a dict model: every entry is a Value node; the log-probability is computed by the interface's function"""

    def __init__(self, spec):
        self.spec = spec
        names = [f"d{i}" for i in range(len(spec["vals"]))]
        self.order = names
        self.pos = {n: i for i, n in enumerate(names)}
        self.kinds = ["V"] * len(names)
        self.ins = [[] for _ in names]
        self.fs = [["id"] for _ in names]
        self.var_of = {}
        self.state0 = {n: v for n, v in zip(names, spec["vals"])}
        fs = spec["lp"]

        def log_prob(st):
            return apply_fs(fs, [st[n] for n in names])
        self.iface = lib()["gs"].DictInterface(log_prob)

    def observe_state(self, ms):
        return [int(ms[n]) for n in self.order], [False] * len(self.order)


class LieselReal:
    def __init__(self, spec, order=None, order_seed=0, iface="liesel", auto_at_creation=True):
        self._init_from(c01.Real(spec, order, order_seed), iface, auto_at_creation)

    def _init_from(self, real, iface, auto_at_creation):
        self.real = real
        spec = real.spec
        r = self.real
        # the user's model may have auto_update switched off when the interface is created (the private copy
        # inherits the flag); the interface is gs.LieselInterface or the deprecated, still exported lsl.GooseModel
        r.model.auto_update = bool(auto_at_creation)
        self.spec, self.order, self.pos, self.kinds, self.ins, self.fs = spec, r.order, r.pos, r.kinds, r.ins, r.fs
        self.var_of = r.var_of
        self.state0 = r.model.state
        if iface == "goose":
            import warnings
            with warnings.catch_warnings():
                warnings.simplefilter("ignore")
                self.iface = r.lsl.GooseModel(r.model)
        else:
            self.iface = lib()["gs"].LieselInterface(r.model)

    def observe_state(self, ms):
        """node.value of every node when the model holds ms (public API: model.state setter, node.value),
        and the outdated flags stored in ms"""
        r = self.real
        r.model.state = ms
        vals = []
        for k in range(len(r.nodes)):
            v = r.canon_value(k)
            vals.append(int(v))
        flags = [bool(ms[n].outdated) for n in r.order]
        return vals, flags


class SharedNameReal(c01.Real):
    """hand-built family in which nodes and DIFFERENT variables share names (separate namespaces, legal):

        node "x" (Value)                    variable "x"    (value node "x_value")
        node "b" (Value) = value node of variable "beta"    variable "b" (value node "b_value")
        c = f(x, Var x, Var beta, Var b)    cached
        w ~ HDist(c)                        strong parameter

    update_state and extract_position resolve a key as a NODE name first: a kernel keyed "x" owns node x, a kernel keyed
    "b" owns node b (the value of variable beta) - not the variables of the same name."""

    def __init__(self, spec, order=None, order_seed=0):
        import logging
        import liesel.model as lsl
        logging.getLogger("liesel").setLevel(logging.ERROR)
        self.lsl, self.spec, self.log, self.logging, self.group_fs = lsl, spec, [], False, {}
        v, f = spec["vals"], spec["fs"]

        def fn(fs):
            return lambda *a: apply_fs(fs, list(a))

        def dist(fs):
            class HDist:
                def __init__(self, *a):
                    self.vals = list(a)

                def log_prob(self, at):
                    return apply_fs(fs, self.vals + [at])
            return HDist

        x = lsl.Value(v[0], _name="x")
        vx = lsl.Var(v[1], name="x")
        b = lsl.Value(v[2], _name="b")
        beta = lsl.Var(b, name="beta")
        vb = lsl.Var(v[3], name="b")
        cnode = lsl.Calc(fn(f[0]), x, vx, beta, vb, _name="c")
        w = lsl.Var(v[4], lsl.Dist(dist(f[1]), cnode), name="w")
        w.parameter = True
        self.fsmap = {"c": f[0], "w_log_prob": f[1]}
        gb = lsl.GraphBuilder(to_float32=False)
        gb.add(x, vx, beta, vb, cnode, w)
        self.model = gb.build_model()
        self._extract(order, order_seed)

    def _fs_of(self, name, d):
        if name in self.fsmap:
            return self.fsmap[name]
        return ["sum"] if name.startswith("_model_") else ["id"]

    def canon_value(self, k):
        return self.nodes[k].value


def shared_spec(rnd):
    def fs(n):
        return ["aff", rnd.randint(0, 999), [rnd.randint(1, 9) for _ in range(n)]]
    return {"custom": "shared", "items": [], "vals": [rnd.randint(-50, 50) for _ in range(5)], "fs": [fs(4), fs(2)]}


def make_real(c):
    if c["model"] == "dict":
        return DictReal(c["spec"])
    if c["spec"].get("custom") == "shared":
        R = LieselReal.__new__(LieselReal)
        R._init_from(SharedNameReal(c["spec"], c.get("order"), c.get("order_seed", 0)),
                     c.get("iface", "liesel"), c.get("auto_at_creation", True))
        return R
    return LieselReal(c["spec"], c.get("order"), c.get("order_seed", 0), c.get("iface", "liesel"), c.get("auto_at_creation", True))


def key_name(R, kd):
    """the name under which the kernel addresses position kd = [position, via]"""
    k, via = kd
    if k >= len(R.order):
        return f"no_such_node_{k}"
    name = R.order[k]
    if via.startswith("name:"):          # an explicit key string (shared-name family); k is the node it must resolve to
        return via[5:]
    if via == "var" and name in R.var_of:
        return R.var_of[name]
    return name


def drive(R, kernels, iters, seed=0):
    """run the real KernelSequence; returns the list of iterations
       {"raised": bool, "steps": [{"moved": bool, "vals": [...], "flags": [...]}, ...]}"""
    L = lib()
    jnp, gs = L["jnp"], L["gs"]
    stored = [k for k in range(len(R.order)) if R.kinds[k] != "T"]
    is_dict = isinstance(R, DictReal)

    def read(ms, k):
        return ms[R.order[k]] if is_dict else ms[R.order[k]].value

    def proposal_of(kern, ms):
        return {key_name(R, kd): apply_fs(fs, [read(ms, a) for a in args])
                for kd, fs, args in zip(kern["keys"], kern["prop_fs"], kern["prop_args"])}

    sink: list = []
    objs = []
    for j, kern in enumerate(kernels):
        names = [key_name(R, kd) for kd in kern["keys"]]
        if kern["kind"] == "gibbs":
            ko = gs.GibbsKernel(names, (lambda kern: lambda key, ms: proposal_of(kern, ms))(kern))
        elif kern["kind"] == "errk":
            ko = L["ErrKernel"](names, (lambda kern: lambda ms: proposal_of(kern, ms))(kern))
        else:
            ko = gs.MHKernel(names, (lambda kern: lambda key, ms, step: gs.MHProposal(proposal_of(kern, ms), step))(kern))
        ko.identifier = f"k{j}"
        ko.set_model(R.iface)
        objs.append(ko)
        if j + 1 < len(kernels):
            objs.append(L["Spy"](f"spy{j}", sink))
    ks = L["KernelSequence"](objs)
    EpochConfig, EpochType = L["EpochConfig"], L["EpochType"]
    ecfgs = [EpochConfig(EpochType.POSTERIOR, 50, 1, None), EpochConfig(EpochType.FAST_ADAPTATION, 50, 1, None),
             EpochConfig(EpochType.BURNIN, 50, 1, None), EpochConfig(EpochType.SLOW_ADAPTATION, 50, 1, None)]
    state = R.state0
    out = []
    for t, it in enumerate(iters):
        kstates = []
        for j, kern in enumerate(kernels):
            if kern["kind"] == "gibbs":
                kstates.append({})
            elif kern["kind"] == "errk":
                kstates.append({"code": int(it.get("codes", [0] * len(kernels))[j])})
            else:
                mode = it["modes"][j]
                ctl = {"accept": jnp.inf, "reject": -jnp.inf, "natural": 0.0}[mode]
                kstates.append(L["RWKernelState"](step_size=jnp.asarray(ctl, dtype=jnp.float32)))
            if j + 1 < len(kernels):
                kstates.append({})
        sink.clear()
        epoch = ecfgs[(t + it.get("epoch", 0)) % len(ecfgs)].to_state(0, t)
        key = L["jax"].random.PRNGKey(seed * 1000 + t)
        try:
            res = ks.transition(key, kstates, state, epoch)
        except Exception as ex:      # any exception counts as 'raised' (AttributeError / RuntimeError / KeyError today)
            out.append({"raised": True, "steps": [], "exc": type(ex).__name__})
            continue
        states_after = list(sink) + [res.model_state]
        steps = []
        for j, ms in enumerate(states_after):
            vals, flags = R.observe_state(ms)
            info = res.infos[f"k{j}"]
            steps.append({"moved": bool(info.position_moved), "code": int(info.error_code), "vals": vals, "flags": flags})
        out.append({"raised": False, "steps": steps})
        state = res.model_state
    return out


def drive_builder(R, c):
    """the same scripted (Gibbs) kernels, but configured through EngineBuilder - add_kernel with user-assigned / default /
    re-used identifiers, set_model possibly called more than once around the add_kernel calls (c["history"]; the model
    that counts is the one set last before build()) - and run by the real jitted Engine; only the state after every
    iteration is observed (SamplingResults).  c["kernels"] is the CONFIGURED order (the order of add_kernel in the
    builder under test); R is the model configured at build time."""
    L = lib()
    jnp, gs = L["jnp"], L["gs"]
    EpochConfig, EpochType = L["EpochConfig"], L["EpochType"]
    names = R.order
    is_dict = isinstance(R, DictReal)
    stored = [k for k in range(len(names)) if R.kinds[k] != "T"]

    def make(kern):
        keys = [names[k] for k, _ in kern["keys"]]

        def fn(key, ms):
            rd = (lambda a: ms[names[a]]) if is_dict else (lambda a: ms[names[a]].value)
            return {names[k]: apply_fs(fs, [rd(a) for a in args])
                    for (k, _), fs, args in zip(kern["keys"], kern["prop_fs"], kern["prop_args"])}
        return gs.GibbsKernel(keys, fn)

    objs = [make(k) for k in c["kernels"]]
    for o, ident in zip(objs, c["idents"]):
        if ident:
            o.identifier = ident
    if is_dict:
        state0 = {n: jnp.asarray(v, dtype=jnp.int32) for n, v in zip(names, R.spec["vals"])}
    else:
        state0 = R.state0
    ifaces = {"new": R.iface}
    if c.get("spec_old"):
        # a model under the same node names with other node functions, set first and then replaced
        ifaces["old"] = make_real({**c, "spec": c["spec_old"], "order": list(R.order)}).iface
    history = c.get("history") or (["set:new"] + [f"add:{j}" for j in range(len(objs))])
    keyset = {nm for o in objs for nm in o.position_keys}

    def builder_with(hist):
        b = gs.EngineBuilder(seed=c.get("seed", 1), num_chains=c["chains"])
        for op in hist:
            what, arg = op.split(":")
            if what == "set":
                b.set_model(ifaces[arg])
            else:
                b.add_kernel(objs[int(arg)])
        b.set_initial_values(state0)
        if c.get("interleave"):
            # two epochs, so that results can be asked for between them
            t1 = max(1, c["T"] // 2)
            eps = [EpochConfig(EpochType.BURNIN, t1, 1, None), EpochConfig(EpochType.POSTERIOR, c["T"] - t1, 1, None)]
            eps = [e for e in eps if e.duration > 0]
        else:
            eps = [EpochConfig(EpochType.POSTERIOR, c["T"], 1, None)]
        b.set_epochs([EpochConfig(EpochType.INITIAL_VALUES, 1, 1, None)] + eps)
        b.positions_included = [names[k] for k in stored if names[k] not in keyset]
        b.show_progress = False
        return b

    if c.get("first_order"):
        # the kernel objects were first used in another builder (in another order): they keep the identifiers
        # that build assigned
        builder_with(["set:new"] + [f"add:{j}" for j in c["first_order"]]).build()
    engine = builder_with(history).build()
    if c.get("interleave"):
        # results (and the accessors that consume the engine's kernel list) are asked for between the epochs - after
        # the initial-values epoch, i.e. before any transition has been traced, and after every further epoch
        while not engine.is_sampling_done():
            engine.sample_next_epoch()
            r = engine.get_results()
            r.get_kernels_by_pos_key()
            r.get_samples()
    else:
        engine.sample_all_epochs()
    samples = engine.get_results().get_samples()
    import numpy as np
    arr = {names[k]: np.asarray(samples[names[k]]) for k in stored}
    c["final_idents"] = [o.identifier for o in objs]
    T1 = arr[names[stored[0]]].shape[1]
    out = []
    c["chains_differ"] = None

    def state_at(ch, t):
        if is_dict:
            return [int(arr[n][ch, t]) for n in names], [False] * len(names)
        NodeState = R.real.lsl.NodeState
        ms = {n: NodeState(int(arr[n][ch, t]) if n in arr else None, False) for n in names}
        return R.observe_state(ms)

    for t in range(1, T1):
        vals, flags = state_at(0, t)
        for ch in range(1, c["chains"]):
            other = state_at(ch, t)[0]
            if other != vals and not c["chains_differ"]:
                c["chains_differ"] = f"iteration {t - 1}: chain 0 {vals}, chain {ch} {other}"
        step = {"moved": True, "code": 0, "vals": vals, "flags": flags}
        out.append({"raised": False, "final_only": True, "steps": [dict(step) for _ in c["kernels"]]})
    return out


def run_d_case(c):
    if c.get("via") == "builder":
        R = make_real(c)
        v0, f0 = (list(R.spec["vals"]), [False] * len(R.order)) if c["model"] == "dict" else R.observe_state(R.state0)
        c.update(order=list(R.order), kinds=list(R.kinds), ins=[list(x) for x in R.ins], fs=R.fs,
                 init={"vals": v0, "flags": f0})
        c["iters"] = [{"modes": ["accept"] * len(c["kernels"]), "codes": [0] * len(c["kernels"]), "epoch": 0} for _ in range(c["T"])]
        c["its"] = drive_builder(R, c)
        return c
    R = make_real(c)
    v0, f0 = R.observe_state(R.state0)
    c.update(order=list(R.order), kinds=list(R.kinds), ins=[list(x) for x in R.ins], fs=R.fs,
             init={"vals": v0, "flags": f0})
    if c.get("trace"):
        # lax.cond inside the kernels (TransitionMixin.transition, mh_step) is traced and compiled
        c["its"] = drive(R, c["kernels"], c["iters"], c.get("seed", 0))
    else:
        # the same Python code with JAX control flow executed eagerly (much faster; every 8th case is traced)
        with lib()["jax"].disable_jit():
            c["its"] = drive(R, c["kernels"], c["iters"], c.get("seed", 0))
    return c


D_SCENARIOS = ["mixed", "all_reject", "gibbs_only", "mh_only", "natural", "raises", "var_names", "dict", "error_codes", "shared_reads",
               "var_direct", "shared_name", "custom_nodes"]


def direct_var_keys(R):
    """positions of value nodes of strong Vars that are ALSO read directly (not through the Var's value proxy) by another
    node: the model mixes the node and the variable API.  A block addressed by the VARIABLE name must refresh these
    direct readers too (seeded change C09-6)."""
    out = []
    for k, name in enumerate(R.order):
        if R.kinds[k] == "V" and name in R.var_of:
            proxy = R.var_of[name] + "_var_value"
            if any(k in R.ins[j] and R.order[j] != proxy for j in range(len(R.order))):
                out.append(k)
    return out


def gen_shared_kernels(rnd, R):
    """kernels keyed by the shared names "x" and "b" (they name NODES x and b), optionally further blocks keyed by the
    unambiguous names x_value / b_value / w; every proposal reads the other blocks and the derived nodes"""
    pos = R.pos
    blocks = [[("x", pos["x"])], [("b", pos["b"])]]
    rnd.shuffle(blocks)
    extra = [("x_value", pos["x_value"]), ("b_value", pos["b_value"]), ("w", pos["w_value"])]
    rnd.shuffle(extra)
    for e in extra[:rnd.randint(0, 2)]:
        if rnd.random() < 0.5:
            blocks.append([e])
        else:
            rnd.choice(blocks).append(e)
    stored = [k for k in range(len(R.order)) if R.kinds[k] != "T"]
    kernels = []
    for b in blocks:
        kern = {"kind": rnd.choice(["gibbs", "mh", "errk"]), "keys": [[k, "name:" + nm] for nm, k in b], "prop_fs": [], "prop_args": []}
        for _ in b:
            na = rnd.randint(1, 3)
            kern["prop_fs"].append(["aff", rnd.randint(0, 999), [rnd.randint(1, 9) for _ in range(na)]])
            kern["prop_args"].append([rnd.choice(stored) for _ in range(na)])
        kernels.append(kern)
    return kernels


def gen_kernels(rnd, R, scenario, must=None):
    if scenario == "shared_name":
        return gen_shared_kernels(rnd, R)
    n = len(R.order)
    settable = [k for k in range(n) if R.kinds[k] == "V"]
    stored = [k for k in range(n) if R.kinds[k] != "T"]
    rnd.shuffle(settable)
    if must is not None:
        settable.remove(must)
        settable.insert(0, must)
    nk = min(rnd.randint(2, 4), len(settable))
    if nk < 1:
        return None
    blocks = [[settable[j]] for j in range(nk)]
    for k in settable[nk:]:
        if rnd.random() < 0.45:
            rnd.choice(blocks).append(k)
    kernels = []
    for b in blocks:
        kind = {"gibbs_only": "gibbs", "mh_only": "mh"}.get(scenario) or rnd.choice(["gibbs", "mh", "mh", "errk"])
        if scenario == "error_codes":
            # forced stratum: kernels that move their block AND report a non-zero error code, each followed by a
            # kernel that reads that block
            kind = "errk" if (len(kernels) % 2 == 0 or rnd.random() < 0.4) else rnd.choice(["gibbs", "mh"])
        keys = []
        for k in b:
            via = "var" if (R.order[k] in R.var_of and (scenario == "var_names" or k == must or rnd.random() < 0.3)) else "node"
            keys.append([k, via])
        prop_fs, prop_args = [], []
        for k in b:
            na = rnd.randint(1, 3)
            pool = stored
            if scenario == "error_codes" and kernels:
                pool = [kk for kk, _ in kernels[-1]["keys"]]          # what the predecessor just wrote
            elif scenario == "shared_reads" or rnd.random() < 0.5:
                # read what the other kernels write and what is derived from it
                others = [x for bb in blocks if bb is not b for x in bb]
                pool = others + [x for x in stored if R.kinds[x] == "C"] or stored
            args = [rnd.choice(pool) for _ in range(na)]
            prop_fs.append(["aff", rnd.randint(0, 999), [rnd.randint(1, 9) for _ in range(na)]])
            prop_args.append(args)
        kernels.append({"kind": kind, "keys": keys, "prop_fs": prop_fs, "prop_args": prop_args})
    if scenario == "raises":
        bad = [k for k in range(n) if R.kinds[k] == "C"]
        kern = rnd.choice(kernels)
        choice = rnd.random()
        if bad and choice < 0.7:
            kern["keys"].append([rnd.choice(bad), "node"])
        else:
            kern["keys"].append([n + 3, "node"])
        kern["prop_fs"].append(["aff", 1, [1]])
        kern["prop_args"].append([stored[0]])
    return kernels


def gen_iters(rnd, kernels, scenario, quick):
    T = rnd.randint(2, 4 if quick else 6)
    its = []
    for t in range(T):
        modes = []
        for k in kernels:
            if k["kind"] == "gibbs":
                modes.append("accept")
            elif scenario == "all_reject":
                modes.append("reject")
            elif scenario == "natural":
                modes.append("natural")
            else:
                modes.append(rnd.choice(["accept", "accept", "reject", "natural"]))
        codes = [(rnd.choice([1, 2, 3, 90, 2, 0]) if scenario == "error_codes" else rnd.choice([0, 0, 2, 90]))
                 if k["kind"] == "errk" else 0 for k in kernels]
        its.append({"modes": modes, "codes": codes, "epoch": rnd.randrange(4)})
    return its


IFACES = [("liesel", True), ("goose", False), ("liesel", False), ("goose", True)]


def make_d_case(rnd, quick, scenario, flavour, trace=False, iface=("liesel", True)):
    for _try in range(200):
        if scenario == "dict":
            nv = rnd.randint(2, 6)
            spec = {"vals": [rnd.randint(-50, 50) for _ in range(nv)],
                    "lp": ["aff", rnd.randint(0, 999), [rnd.randint(1, 9) for _ in range(nv)]]}
            c = {"layer": "D", "model": "dict", "spec": spec, "scenario": scenario, "flavour": "dict"}
        else:
            nitems = rnd.randint(3, 7) if quick else rnd.choice([rnd.randint(3, 8), rnd.randint(6, 14)])
            if scenario == "shared_name":
                # forced stratum: node and (different) variable share a name, kernels keyed by the shared name
                spec = shared_spec(rnd)
                c = {"layer": "D", "model": "liesel", "spec": spec, "order_seed": rnd.randrange(2 ** 30), "scenario": scenario,
                     "flavour": "shared", "iface": ["liesel", "liesel", "goose"][rnd.randrange(3)], "auto_at_creation": rnd.random() < 0.5}
            elif scenario == "var_direct":
                # forced stratum: position key = variable name whose value node has a direct reader; LieselInterface
                flavour, iface, nitems = "vars", ("liesel", rnd.random() < 0.5), max(nitems, 5)
            if scenario != "shared_name":
                # caching nodes outside the Calc / Dist classes (a harness subclass of lsl.Node, lsl.PIT -> PITCalc): in every
                # second graph with probability 0.3 per item, in the forced stratum custom_nodes at least one per graph
                cust = 0.5 if scenario == "custom_nodes" else (0.3 if rnd.random() < 0.5 else 0.0)
                spec = c01.gen_spec(rnd, max(nitems, 5) if scenario == "custom_nodes" else nitems, flavour, custom=cust)
                if scenario == "custom_nodes" and not any(it.get("cls") == "node" or it["k"] == "pit" or
                                                          (it.get("dist") or {}).get("pit") for it in spec["items"]):
                    continue
                c = {"layer": "D", "model": "liesel", "spec": spec, "order_seed": rnd.randrange(2 ** 30),
                     "scenario": scenario, "flavour": flavour, "iface": iface[0], "auto_at_creation": iface[1]}
        try:
            R = make_real(c)
        except c01.GraphAnomaly:
            continue
        except Exception as ex:
            if type(ex).__name__ in ("NetworkXUnfeasible", "NetworkXError"):
                continue
            raise
        c["order"] = list(R.order)
        must = None
        if scenario == "var_direct":
            dk = direct_var_keys(R)
            if not dk:
                continue
            must = rnd.choice(dk)
        kernels = gen_kernels(rnd, R, scenario, must)
        if not kernels or len(kernels) < 2:
            continue
        c["kernels"] = kernels
        c["iters"] = gen_iters(rnd, kernels, scenario, quick)
        c["seed"] = rnd.randrange(1000)
        c["trace"] = trace
        return run_d_case(c)
    raise RuntimeError("could not generate a buildable description")


B_IDENTS = {
    # user-assigned identifiers whose sort order is not the configured order
    "custom_unsorted": lambda rnd, n: rnd.sample(["update_x", "copy_x_to_y", "zeta", "alpha", "m_step", "b2", "a10"], n),
    # first kernel named by the user, the others left to the builder: 'kernel_01' < 'shift_x'
    "custom_first": lambda rnd, n: ["shift_x"] + [""] * (n - 1),
    # all identifiers left to the builder (sorted order == configured order)
    "default": lambda rnd, n: [""] * n,
    # kernel objects re-used in a second builder in another order (they keep 'kernel_00', ... of the first build)
    "reused": lambda rnd, n: [""] * n,
    # user-assigned unsorted identifiers AND engine.get_results() / accessors called between the epochs (sample_next_epoch,
    # get_results, sample_next_epoch, ...): reading the results must not change the order the kernels run in
    "results_between_epochs": lambda rnd, n: rnd.sample(["update_x", "copy_x_to_y", "zeta", "alpha", "m_step", "b2", "a10"], n),
}


def make_b_case(rnd, scenario, nk=None, T=3):
    nk = nk or rnd.randint(2, 4)
    nv = nk + rnd.randint(0, 2)
    spec = {"vals": [rnd.randint(-50, 50) for _ in range(nv)],
            "lp": ["aff", rnd.randint(0, 999), [rnd.randint(1, 9) for _ in range(nv)]]}
    kernels = []
    for j in range(nk):
        # digest chain: kernel j writes a function of its own block and of the block kernel j-1 wrote
        args = [j, (j - 1) % nk] + ([rnd.randrange(nv)] if rnd.random() < 0.5 else [])
        kernels.append({"kind": "gibbs", "keys": [[j, "node"]],
                        "prop_fs": [["aff", rnd.randint(1, 999), [rnd.randint(2, 9) for _ in args]]], "prop_args": [args]})
    idents = B_IDENTS[scenario](rnd, nk)
    if scenario in ("custom_unsorted", "results_between_epochs") and idents == sorted(idents):
        idents = idents[::-1]
    c = {"layer": "D", "model": "dict", "via": "builder", "spec": spec, "scenario": "builder_" + scenario, "flavour": "dict",
         "kernels": kernels, "idents": idents, "T": T, "chains": rnd.choice([1, 2]), "seed": rnd.randrange(1000)}
    if scenario == "results_between_epochs":
        c["interleave"] = True
        c["T"] = 4
    if scenario == "reused":
        fo = list(range(nk))
        while fo == list(range(nk)):
            rnd.shuffle(fo)
        c["first_order"] = fo
    return run_d_case(c)


def resalt(spec, rnd):
    """the same model under the same node names with other node functions (e.g. another link function)"""
    sp = json.loads(json.dumps(spec))
    for it in sp["items"]:
        for d in (it, it.get("dist") or {}):
            if d.get("fs") and d["fs"][0] == "aff":
                d["fs"][1] = (d["fs"][1] + rnd.randint(1, 500)) % 1000
                d["fs"][2] = [(x % 9) + 1 for x in d["fs"][2]]
    return sp


def make_bl_case(rnd, scenario, T=3):
    """builder stratum on a real integer Liesel model; scenario 'set_model_twice': set_model(old) ... add_kernel ...
    set_model(new) ... add_kernel ... build(); 'set_model_late': all kernels added before any set_model"""
    for _try in range(200):
        spec = c01.gen_spec(rnd, rnd.randint(4, 7), rnd.choice(["plain", "mixed", "vars"]))
        c = {"layer": "D", "model": "liesel", "via": "builder", "spec": spec, "order_seed": rnd.randrange(2 ** 30),
             "scenario": "builder_" + scenario, "flavour": "liesel", "iface": rnd.choice(["liesel", "goose"]),
             "auto_at_creation": rnd.random() < 0.6}
        try:
            R = make_real(c)
        except c01.GraphAnomaly:
            continue
        except Exception as ex:
            if type(ex).__name__ in ("NetworkXUnfeasible", "NetworkXError"):
                continue
            raise
        settable = [k for k in range(len(R.order)) if R.kinds[k] == "V"]
        cached = [k for k in range(len(R.order)) if R.kinds[k] == "C" and not R.order[k].startswith("_model")]
        if len(settable) < 2 or not cached:
            continue
        rnd.shuffle(settable)
        nk = min(rnd.randint(2, 3), len(settable))
        kernels = []
        for j in range(nk):
            args = [settable[j], settable[(j - 1) % nk], rnd.choice(cached)]
            kernels.append({"kind": "gibbs", "keys": [[settable[j], "node"]],
                            "prop_fs": [["aff", rnd.randint(1, 999), [rnd.randint(2, 9) for _ in args]]], "prop_args": [args]})
        c.update(order=list(R.order), kernels=kernels, idents=[""] * nk, T=T, chains=rnd.choice([1, 2]), seed=rnd.randrange(1000),
                 spec_old=resalt(spec, rnd))
        adds = [f"add:{j}" for j in range(nk)]
        if scenario == "set_model_twice":
            cut = rnd.randint(1, nk - 1) if nk > 1 else 1
            c["history"] = ["set:old"] + adds[:cut] + ["set:new"] + adds[cut:]
        else:
            c["history"] = adds + ["set:old", "set:new"]
        return run_d_case(c)
    raise RuntimeError("could not generate a buildable description")


CORPUS_D = [
    # a -> c -> lp, b -> lp; MH on a (accept, reject), Gibbs on b reading a and c
    {"layer": "D", "model": "liesel", "scenario": "corpus", "flavour": "corpus", "order_seed": 0,
     "spec": {"items": [{"k": "value", "v": 1, "data": False}, {"k": "value", "v": 2, "data": False},
                        {"k": "calc", "ins": [0], "kw": [], "kwn": [], "fs": ["aff", 3, [2]]},
                        {"k": "tcalc", "ins": [2, 1], "kw": [], "kwn": [], "fs": ["aff", 5, [3, 4]]},
                        {"k": "calc", "ins": [3, 0], "kw": [], "kwn": [], "fs": ["aff", 7, [4, 5]]}]},
     "trace": True,
     "kernels_by_name": [{"kind": "mh", "keys": [["n0", "node"]], "prop_fs": [["aff", 1, [1]]], "prop_args": [["n1"]]},
                         {"kind": "gibbs", "keys": [["n1", "node"]], "prop_fs": [["aff", 2, [2, 3]]], "prop_args": [["n0", "n2"]]}],
     "iters": [{"modes": ["accept", "accept"], "epoch": 0}, {"modes": ["reject", "accept"], "epoch": 0},
               {"modes": ["natural", "accept"], "epoch": 1}]},
    # a kernel that moves its block and reports error code 2 ("maximum tree depth"-like), followed by a kernel that
    # reads that block   (seeded change C09-3: the moved state is dropped when the code is not 0)
    {"layer": "D", "model": "liesel", "scenario": "corpus", "flavour": "corpus", "order_seed": 0,
     "spec": {"items": [{"k": "value", "v": 1, "data": False}, {"k": "value", "v": 2, "data": False},
                        {"k": "calc", "ins": [0, 1], "kw": [], "kwn": [], "fs": ["aff", 3, [2, 5]]}]},
     "kernels_by_name": [{"kind": "errk", "keys": [["n0", "node"]], "prop_fs": [["aff", 1, [3]]], "prop_args": [["n0"]]},
                         {"kind": "gibbs", "keys": [["n1", "node"]], "prop_fs": [["aff", 2, [2, 3]]], "prop_args": [["n0", "n2"]]}],
     "iters": [{"modes": ["accept", "accept"], "codes": [2, 0], "epoch": 0}, {"modes": ["accept", "accept"], "codes": [0, 0], "epoch": 0},
               {"modes": ["accept", "accept"], "codes": [90, 0], "epoch": 1}]},
    # a Value node wrapped in a strong Var AND read directly by a Calc and by a Dist (node and variable API mixed); the block
    # is addressed by the VARIABLE name; LieselInterface, auto_update on / off at creation   (seeded change C09-6)
    {"layer": "D", "model": "liesel", "scenario": "corpus", "flavour": "corpus", "order_seed": 2,
     "iface": "liesel", "auto_at_creation": True,
     "spec": {"items": [{"k": "var", "weak": False, "role": "par", "v": 3},
                        {"k": "calc", "ins": [[0, "vn"]], "kw": [], "kwn": [], "fs": ["aff", 2, [5]]},
                        {"k": "calc", "ins": [0], "kw": [], "kwn": [], "fs": ["aff", 1, [3]]},
                        {"k": "var", "weak": False, "role": "obs", "v": 7,
                         "dist": {"ins": [[0, "vn"], 1], "kw": [], "kwn": [], "fs": ["aff", 6, [2, 3, 7]], "transient": False}},
                        {"k": "value", "v": 4, "data": False}]},
     "kernels_by_name": [{"kind": "gibbs", "keys": [["v0_value", "var"]], "prop_fs": [["aff", 11, [3, 2]]], "prop_args": [["v0_value", "n4"]]},
                         {"kind": "mh", "keys": [["n4", "node"]], "prop_fs": [["aff", 5, [1, 1]]], "prop_args": [["n1", "v3_log_prob"]]}],
     "iters": [{"modes": ["accept", "accept"], "codes": [0, 0], "epoch": 0}, {"modes": ["accept", "reject"], "codes": [0, 0], "epoch": 1},
               {"modes": ["accept", "natural"], "codes": [0, 0], "epoch": 0}]},
    {"layer": "D", "model": "liesel", "scenario": "corpus", "flavour": "corpus", "order_seed": 3,
     "iface": "liesel", "auto_at_creation": False, "trace": True,
     "spec": {"items": [{"k": "var", "weak": False, "role": "par", "v": 3},
                        {"k": "calc", "ins": [[0, "vn"]], "kw": [], "kwn": [], "fs": ["aff", 2, [5]]},
                        {"k": "calc", "ins": [0], "kw": [], "kwn": [], "fs": ["aff", 1, [3]]},
                        {"k": "var", "weak": False, "role": "obs", "v": 7,
                         "dist": {"ins": [[0, "vn"], 1], "kw": [], "kwn": [], "fs": ["aff", 6, [2, 3, 7]], "transient": False}},
                        {"k": "value", "v": 4, "data": False}]},
     "kernels_by_name": [{"kind": "mh", "keys": [["v0_value", "var"]], "prop_fs": [["aff", 11, [3, 2]]], "prop_args": [["v0_value", "n4"]]},
                         {"kind": "gibbs", "keys": [["n4", "node"]], "prop_fs": [["aff", 5, [1, 1]]], "prop_args": [["n1", "v3_log_prob"]]}],
     "iters": [{"modes": ["accept", "accept"], "codes": [0, 0], "epoch": 0}, {"modes": ["reject", "accept"], "codes": [0, 0], "epoch": 1},
               {"modes": ["accept", "accept"], "codes": [0, 0], "epoch": 2}]},
    # node "b" (value node of Var beta) and a different Var "b"; node "x" and Var "x": kernels keyed "b" and "x" own the NODES
    # (seeded change C09-7: update_state resolves variable names first, extract_position node names first)
    {"layer": "D", "model": "liesel", "scenario": "corpus", "flavour": "shared", "order_seed": 4,
     "iface": "liesel", "auto_at_creation": True,
     "spec": {"custom": "shared", "items": [], "vals": [1, 2, 3, 4, 5], "fs": [["aff", 3, [2, 3, 5, 7]], ["aff", 1, [4, 9]]]},
     "kernels_by_name": [{"kind": "mh", "keys": [["b", "name:b"]], "prop_fs": [["aff", 11, [3, 2]]], "prop_args": [["b", "x"]]},
                         {"kind": "gibbs", "keys": [["x", "name:x"]], "prop_fs": [["aff", 5, [1, 1]]], "prop_args": [["b", "c"]]}],
     "iters": [{"modes": ["accept", "accept"], "codes": [0, 0], "epoch": 0}, {"modes": ["reject", "accept"], "codes": [0, 0], "epoch": 1},
               {"modes": ["accept", "accept"], "codes": [0, 0], "epoch": 0}]},
    # strong Var with a distribution whose parameter is another Var: keys by var name; three kernels
    {"layer": "D", "model": "liesel", "scenario": "corpus", "flavour": "corpus", "order_seed": 1,
     "iface": "goose", "auto_at_creation": False,
     "spec": {"items": [{"k": "var", "weak": False, "role": "par", "v": 3},
                        {"k": "var", "weak": False, "role": "par", "v": 4,
                         "dist": {"ins": [0], "kw": [], "kwn": [], "fs": ["aff", 4, [3, 5]], "transient": False}},
                        {"k": "var", "weak": True, "role": "", "ins": [1], "kw": [], "kwn": [], "fs": ["aff", 1, [2]],
                         "tvalue": False},
                        {"k": "var", "weak": False, "role": "obs", "v": 9,
                         "dist": {"ins": [2], "kw": [], "kwn": [], "fs": ["aff", 6, [2, 7]], "transient": False}}]},
     "kernels_by_name": [{"kind": "gibbs", "keys": [["v0_value", "var"]], "prop_fs": [["aff", 11, [3]]], "prop_args": [["_model_log_prob"]]},
                         {"kind": "mh", "keys": [["v1_value", "var"]], "prop_fs": [["aff", 5, [1, 1]]], "prop_args": [["v0_value", "v2_value"]]},
                         {"kind": "mh", "keys": [["v3_value", "node"]], "prop_fs": [["aff", 0, [1]]], "prop_args": [["v1_log_prob"]]}],
     "iters": [{"modes": ["accept", "accept", "reject"], "epoch": 0}, {"modes": ["accept", "reject", "accept"], "epoch": 2},
               {"modes": ["accept", "natural", "natural"], "epoch": 3}]},
]


def corpus_d():
    out = []
    for c0 in CORPUS_D:
        c = json.loads(json.dumps(c0))
        R = make_real(c)
        ks = []
        for k in c.pop("kernels_by_name"):
            ks.append({"kind": k["kind"], "keys": [[R.pos[n], via] for n, via in k["keys"]], "prop_fs": k["prop_fs"],
                       "prop_args": [[R.pos[a] for a in args] for args in k["prop_args"]]})
        c["kernels"] = ks
        c["order"] = list(R.order)
        out.append(run_d_case(c))
    return out


def oracle_d(c):
    """the property, read literally on the observed states"""
    pg = PG(c["kinds"], c["ins"], c["fs"])
    n = pg.n
    names = c["order"]

    def coherent(vals, flags, where):
        if any(flags):
            return f"{where}: nodes {[names[k] for k in range(n) if flags[k]]} are flagged outdated in the model state"
        ref = pg.scratch(vals)
        bad = [k for k in range(n) if ref[k] != vals[k]]
        if bad:
            k = bad[0]
            return (f"{where}: {names[k]} holds {vals[k]}, recomputed from the stored parameter values it is {ref[k]}"
                    f" (stale derived quantities: {[names[b] for b in bad]})")
        return None

    r = coherent(c["init"]["vals"], c["init"]["flags"], "initial model state")
    if r:
        return "harness: " + r
    cur = c["init"]["vals"]
    for t, (it, spec) in enumerate(zip(c["its"], c["iters"])):
        valid = all(k < n and c["kinds"][k] == "V" for kern in c["kernels"] for k, _ in kern["keys"])
        if it["raised"]:
            if valid:
                return f"iteration {t}: the kernel sequence raised {it.get('exc')} although all position keys name settable nodes"
            continue
        if not valid:
            return f"iteration {t}: a position key does not name a settable node, yet no exception"
        if it.get("final_only"):
            # run through EngineBuilder + Engine: only the state after the iteration is observed
            sim = list(cur)
            for kern in c["kernels"]:
                new = [apply_fs(fs, [sim[a] for a in args]) for fs, args in zip(kern["prop_fs"], kern["prop_args"])]
                for (k, _), v in zip(kern["keys"], new):
                    sim[k] = v
                sim = pg.scratch(sim)
            got = it["steps"][0]["vals"]
            if got != sim:
                ids = c.get("idents")
                if c.get("history"):
                    bad = [k for k in range(n) if got[k] != sim[k]]
                    ref = pg.scratch(got)
                    stale = [names[k] for k in range(n) if ref[k] != got[k]]
                    return (f"iteration {t}: EngineBuilder history {c['history']} (old / new = two models under the same node names); "
                            f"through the model configured at build time the iteration gives {dict((names[k], sim[k]) for k in bad)}, the "
                            f"engine stored {dict((names[k], got[k]) for k in bad)}"
                            + (f"; stored derived nodes {stale} differ from their recomputation by the configured model" if stale else ""))
                return (f"iteration {t}: " + ("engine.get_results() called between the epochs; " if c.get("interleave") else "")
                        + f"kernels added to the EngineBuilder in the order {ids} (blocks "
                        f"{[[names[k] for k, _ in kern['keys']] for kern in c['kernels']]}); from the state {dict(zip(names, cur))} the "
                        f"configured order gives {dict(zip(names, sim))}, the engine stored {dict(zip(names, got))}")
            if c.get("chains_differ"):
                return f"iteration {t}: chains started from the same state with deterministic kernels differ: {c['chains_differ']}"
            cur = got
            continue
        for j, (kern, st) in enumerate(zip(c["kernels"], it["steps"])):
            where = f"iteration {t}, after kernel {j} ({kern['kind']} on {[names[k] for k, _ in kern['keys']]})"
            r = coherent(st["vals"], st["flags"], where)
            if r:
                return r
            keys = [k for k, _ in kern["keys"]]
            allowed = set(keys)
            for k in keys:
                allowed |= pg.desc[k]
            ch = [k for k in range(n) if st["vals"][k] != cur[k]]
            out = [k for k in ch if k not in allowed]
            if out:
                return f"{where}: changed {[names[k] for k in out]}, which are neither its position keys nor derived from them"
            if kern["kind"] == "mh" and not st["moved"] and ch:
                return f"{where}: rejected, but {[names[k] for k in ch]} changed"
            if kern["kind"] == "mh" and spec["modes"][j] == "accept" and not st["moved"]:
                return f"{where}: log-correction +inf but the proposal was not accepted"
            if kern["kind"] == "mh" and spec["modes"][j] == "reject" and st["moved"]:
                return f"{where}: log-correction -inf but the proposal was accepted"
            if st["moved"] or kern["kind"] in ("gibbs", "errk"):
                for k, fs, args in zip(keys, kern["prop_fs"], kern["prop_args"]):
                    want = apply_fs(fs, [cur[a] for a in args])
                    if st["vals"][k] != want:
                        code = f" (the kernel reported error code {st.get('code')})" if st.get("code") else ""
                        return (f"{where}: its successor received {names[k]} = {st['vals'][k]}; computed from the state its predecessor "
                                f"left ({[names[a] for a in args]} = {[cur[a] for a in args]}) the kernel wrote {want}{code}")
            cur = st["vals"]
    return None


# ---------------------------------------------------------------------------------------------------
# emission
# ---------------------------------------------------------------------------------------------------
def obs_lit(vals, flags):
    return f"(mkObs {lst(zlit(v) for v in vals)} {lst(blit(b) for b in flags)})"


def fs_lit(fs):
    if fs[0] == "aff":
        return f"(FAff {zlit(fs[1])} {lst(zlit(x) for x in fs[2])})"
    return {"id": "FId", "sum": "FSum"}[fs[0]]


def d_case_lit(c):
    g = lst(c01.node_lit(k, i, f) for k, i, f in zip(c["kinds"], c["ins"], c["fs"]))
    kss = []
    for kern in c["kernels"]:
        kind = "KMH" if kern["kind"] == "mh" else "KAlways"       # gibbs, errk: unconditional write-back
        keys = lst(natlit(k) for k, _ in kern["keys"])
        prop = lst(f"({natlit(k[0])}, {fs_lit(fs)}, {lst(natlit(a) for a in args)})"
                   for k, fs, args in zip(kern["keys"], kern["prop_fs"], kern["prop_args"]))
        kss.append(f"(mkKS {kind} {keys} {prop})")
    its = []
    for it in c["its"]:
        steps = lst(f"({blit(s['moved'])}, {natlit(s.get('code', 0))}, {obs_lit(s['vals'], s['flags'])})" for s in it["steps"])
        its.append(f"(mkIt {blit(it['raised'])} {blit(it.get('final_only', False))} {steps})")
    return (f"(mkCase {g}\n   {obs_lit(c['init']['vals'], c['init']['flags'])}\n   {lst(kss)}\n   {lst(its)})")


def f_case_lit(c):
    g = lst(c01.node_lit(k, i, ["id"]) for k, i in zip(c["kinds"], c["ins"]))
    ks = lst(f"({'KMH' if k['mh'] else 'KAlways'}, {lst(natlit(x) for x in k['keys'])})" for k in c["fkernels"])
    steps = lst(f"(mkFS {natlit(s['kernel'])} {blit(s['moved'])} {lst(natlit(x) for x in s['changed'])})" for s in c["fsteps"])
    return f"(mkF {g}\n   {ks}\n   {steps})"


def emit(ctx, cases):
    shards = []
    d_idx = [i for i, c in enumerate(cases) if c["layer"] == "D"]
    f_idx = [i for i, c in enumerate(cases) if c["layer"] == "F" and not c.get("anomaly")]
    per = 60
    for k in range(0, len(d_idx), per):
        idxs = d_idx[k:k + per]
        defs = [f"Definition c{j} : c09case :=\n  {d_case_lit(cases[i])}." for j, i in enumerate(idxs)]
        txt = HEADER + "\n".join(defs) + f"""
Definition cases : list c09case := {lst(f'c{j}' for j in range(len(idxs)))}.
Lemma shard_ok : forallb agrees cases = true.
Proof. vm_compute. reflexivity. Qed.
"""
        shards.append((ctx.new_shard(txt), idxs))
    if f_idx:
        defs = [f"Definition c{j} : fcase :=\n  {f_case_lit(cases[i])}." for j, i in enumerate(f_idx)]
        txt = HEADER + "\n".join(defs) + f"""
Definition cases : list fcase := {lst(f'c{j}' for j in range(len(f_idx)))}.
Lemma shard_frame_ok : forallb fagrees cases = true.
Proof. vm_compute. reflexivity. Qed.
"""
        shards.append((ctx.new_shard(txt, "frame_001"), f_idx))
    return shards


def diagnose(ctx, path, idxs, cases):
    src = open(path).read()
    bad = []
    if "shard_frame_ok" in src:
        txt = src.split("Lemma shard_frame_ok")[0] + "Eval vm_compute in (map (fun c => if fagrees c then 0%nat else 1%nat) cases).\n"
        ok, out = ctx.coq_eval(txt)
        for j, v in enumerate(common.parse_nat_list(out)):
            if v and j < len(idxs):
                cases[idxs[j]]["model_disagreement"] = "a kernel changed a stored node outside the frame the model allows"
                bad.append(idxs[j])
        return bad
    txt = src.split("Lemma shard_ok")[0] + "Eval vm_compute in (map verdict cases).\n"
    ok, out = ctx.coq_eval(txt)
    for j, v in enumerate(common.parse_nat_list(out)):
        if v != 0 and j < len(idxs):
            what = {1: "graph not well-formed", 2: "the observed initial model state is not up to date and coherent"}.get(
                v, f"iteration {v - 4} differs from the model")
            cases[idxs[j]]["model_verdict"] = v
            cases[idxs[j]]["model_disagreement"] = what
            bad.append(idxs[j])
    return bad


# ---------------------------------------------------------------------------------------------------
# run_standard interface
# ---------------------------------------------------------------------------------------------------
def generate(ctx):
    lib()
    rnd = random.Random(ctx.seed)
    nd = 100 if ctx.quick else 1000
    cases = corpus_d()
    flavours = ["mixed", "vars", "transient", "mixed", "vars", "plain"]
    i = 0
    while len(cases) < nd:
        sc = D_SCENARIOS[i % len(D_SCENARIOS)]
        fl = flavours[(i // len(D_SCENARIOS)) % len(flavours)]
        # interface class x auto_update of the user's model at creation: rotated with a period coprime to the scenarios
        cases.append(make_d_case(rnd, ctx.quick, sc, fl, trace=(i % 8 == 3), iface=IFACES[(i + i // len(D_SCENARIOS)) % 4]))
        i += 1
    # forced stratum: the kernel order configured through EngineBuilder.add_kernel (identifiers user-assigned and
    # unsorted / partly default / default / re-used objects), run by the real jitted Engine
    bsc = ["custom_unsorted", "custom_first", "reused", "results_between_epochs", "reused", "default", "results_between_epochs"] if ctx.quick else \
          ["custom_unsorted", "custom_first", "reused", "default", "results_between_epochs"] * 6
    for j, sc in enumerate(bsc):
        cases.append(make_b_case(rnd, sc, nk=(2 + j % 3)))
    # ... and EngineBuilder histories in which set_model is called twice (a model under the same names replaced before
    # build()): every kernel must act through the model configured at build time
    for sc in (["set_model_twice", "set_model_twice", "set_model_late"] if ctx.quick else ["set_model_twice", "set_model_twice", "set_model_late"] * 4):
        cases.append(make_bl_case(rnd, sc))
    from . import c09_float
    fcases = c09_float.generate(ctx, rnd)
    cases += fcases
    from . import c09_tau2
    cases += c09_tau2.generate(ctx)
    ntrans = 0
    distinct = set()
    for c in cases:
        if c["layer"] == "D":
            ctx.hist("D.scenario." + c["scenario"])
            ctx.hist("D.model." + c["model"])
            ctx.hist("D.control_flow." + ("traced" if c.get("trace") else "eager"))
            if c["model"] == "liesel":
                ctx.hist(f"D.interface.{c.get('iface', 'liesel')}.auto_update_at_creation_{c.get('auto_at_creation', True)}")
            n = len(c["kinds"])
            ctx.hist("D.nodes." + ("<=8" if n <= 8 else "9-13" if n <= 13 else "14-24" if n <= 24 else ">=25"))
            ctx.hist("D.kernels.%d" % len(c["kernels"]))
            if any(k == "T" for k in c["kinds"]):
                ctx.hist("D.graph.has_transient")
            items = (c.get("spec") or {}).get("items") or []
            if any(it.get("cls") == "node" for it in items):
                ctx.hist("D.graph.has_cached_lsl_Node_subclass")
            if any(it.get("k") == "pit" for it in items):
                ctx.hist("D.graph.has_PITCalc")
            if c["model"] == "liesel" and not c.get("via") and c.get("iface", "liesel") == "liesel":
                class _R:
                    pass
                _r = _R()
                _r.order, _r.kinds, _r.ins = c["order"], c["kinds"], c["ins"]
                _r.var_of = {n: n[:-6] for n in c["order"] if n.endswith("_value") and n[:-6] + "_var_value" in c["order"]}
                dk = set(direct_var_keys(_r))
                if any(via == "var" and k in dk for kern in c["kernels"] for k, via in kern["keys"]):
                    ctx.hist("D.key_is_variable_name_with_direct_reader_of_value_node.LieselInterface")
            for it, spec in zip(c["its"], c["iters"]):
                if it["raised"]:
                    ctx.hist("D.iteration.raises")
                    continue
                for kern, st, mode in zip(c["kernels"], it["steps"], spec["modes"]):
                    ntrans += 1
                    ctx.hist(f"D.transition.{kern['kind']}." + ("moved" if st["moved"] else "rejected")
                             + (".natural" if kern["kind"] == "mh" and mode == "natural" else ""))
            distinct.add(json.dumps([c["kinds"], c["ins"], c["kernels"], c["iters"]]))
        elif c.get("family") == "pspline":
            ntrans += len(c.get("fsteps", []))
            distinct.add(json.dumps(c["cfg"], sort_keys=True))
            if c.get("anomaly"):
                ctx.hist("F.pspline.config.raises")
            else:
                ctx.hist("F.pspline.configs")
                ctx.hist(f"F.interface.{c['cfg'].get('iface', 'liesel')}.auto_update_at_creation_{c['cfg'].get('auto_at_creation', True)}")
                ctx.hist("F.pspline.tau2_digests", c.get("tau2_digests", 0))
                for s_ in c["fsteps"]:
                    ctx.hist("F.transition." + c["fkernels"][s_["kernel"]]["kind"] + (".moved" if s_["moved"] else ".rejected"))
        else:
            c09_float.histogram(ctx, c)
            ntrans += len(c.get("fsteps", []))
            distinct.add(json.dumps(c["cfg"], sort_keys=True))
    ctx.count(ntrans, len(distinct))
    ctx.cov["rule"] = ("one evaluation = one kernel transition of the real code whose resulting model state was compared "
                       "(layer D: every node value and flag against the Coq model; layer F: changed-node set against the frame "
                       "the model allows + recomputation oracle); distinct = distinct (graph, kernel sequence, iteration script) "
                       "resp. engine configurations")
    for c in cases[:1] + cases[len(CORPUS_D):len(CORPUS_D) + 2]:
        if c["layer"] == "D":
            ctx.sample({"nodes": dict(enumerate(c["order"])), "kinds": "".join(c["kinds"]), "kernels": c["kernels"], "iters": c["iters"]})
    ctx.tested_not_proved += [
        "layer F: every derived node stored in the model state equals its recomputation from the stored parameters by a fresh "
        "model (float32, tolerance 2e-4 relative) - test; the theorem C09_coherent_preserved is about the model with "
        "deterministic node functions",
        "layer F: a stored node counts as unchanged when it is equal up to 2e-6 relative (XLA may rematerialise a fused "
        "elementwise producer per consumer with different rounding: 1-ulp differences occur on the unchanged tree)",
        "jit / scan / vmap over chains are modelled by their mathematical meaning (left fold, if, map); layer D runs the kernel "
        "sequence eagerly (lax.cond inside the kernels is traced), layer F runs the jitted engine",
        "the proposal mechanisms (random walk, IWLS, blackjax HMC / NUTS, user functions) are an arbitrary oracle in the theorems; "
        "that HMC / NUTS write back a position with exactly their position keys is observed (frame), not proved",
        "aliasing between the interface's private model copy and the states it returns is exercised, not proved",
    ]
    ctx.assume += [
        "wf g (checked per case by wfb); node functions are deterministic functions of their argument values",
        "the incoming model state is up to date and coherent (good; checked per case by goodb, proved sound; proved for the "
        "state of a freshly built model, C09_init_good): update_state documents this precondition",
        "proposals stay inside the kernel's position keys (dom_ok) - true of the built-in kernels by construction of the "
        "position pytree; a user Gibbs transition function or MH proposal function returning other keys is outside",
        "kernel-internal calls of update_state (gradients, log_prob_fn) only overwrite the interface's private copy, whose "
        "content is arbitrary in the theorems (C09_internal_independent)",
    ]
    return cases


def oracle(c):
    if c["layer"] == "D":
        return oracle_d(c)
    from . import c09_float
    return c09_float.oracle(c)


def klass(c):
    return None


def search(ctx, disagreeing):
    """model and code disagree but no sampled case violates the property literally: more iterations on the
    disagreeing descriptions, then a widened random search"""
    import time
    rnd = random.Random(ctx.seed + 1)
    found = []
    t0 = time.time()
    t_end = 90 if ctx.quick else 300
    for c in disagreeing:
        if c["layer"] != "D":
            continue
        for _ in range(25):
            cc = {k: c[k] for k in ("layer", "model", "spec", "scenario", "flavour", "order", "trace", "iface", "auto_at_creation") if k in c}
            cc["order_seed"] = c.get("order_seed", 0)
            R = make_real(cc)
            cc["kernels"] = gen_kernels(rnd, R, "shared_reads")
            if not cc["kernels"]:
                break
            cc["iters"] = gen_iters(rnd, cc["kernels"], "mixed", False)
            cc["seed"] = rnd.randrange(1000)
            cc = run_d_case(cc)
            r = oracle_d(cc)
            if r:
                cc["why"] = r
                found.append(cc)
                break
        if found or time.time() - t0 > t_end:
            break
    k = 0
    while not found and time.time() - t0 < t_end:
        cc = make_d_case(rnd, True, D_SCENARIOS[k % len(D_SCENARIOS)], rnd.choice(["mixed", "vars", "transient"]))
        k += 1
        r = oracle_d(cc)
        if r:
            cc["why"] = r
            found.append(cc)
    return found


def replay(rp) -> int:
    lib()
    body = rp["replay"]
    c = body.get("case", body)
    if not isinstance(c, dict) or "layer" not in c:
        ds = body.get("disagreeing_cases") or []
        if not ds:
            print("replay file names no concrete input (broken lemma only):", body.get("broken"))
            return 0
        c = ds[0]
    if c["layer"] == "F" and c.get("family") == "pspline":
        from . import c09_tau2, c09_float
        cc = c09_tau2.run_config(c["cfg"])
        print("configuration:", json.dumps(c["cfg"]))
        r = c09_float.oracle(cc)
        print("REPLAY FAILS: " + r if r else "replay passes on the current tree")
        return 1 if r else 0
    if c["layer"] == "F":
        from . import c09_float
        return c09_float.replay(c)
    cc = {k: c[k] for k in ("layer", "model", "spec", "scenario", "flavour", "order", "order_seed", "kernels", "iters", "seed", "trace",
                                  "via", "idents", "T", "chains", "first_order", "iface", "auto_at_creation",
                                  "history", "spec_old", "interleave") if k in c}
    try:
        cc = run_d_case(cc)
    except Exception as ex:
        print("REPLAY FAILS: building / driving the model raises", repr(ex))
        return 1
    print("nodes (position: name kind inputs):")
    for k, nme in enumerate(cc["order"]):
        print(f"  {k}: {nme} {cc['kinds'][k]} {cc['ins'][k]} {cc['fs'][k]}")
    print("kernels:", cc["kernels"])
    print("initial state:", cc["init"])
    for t, (spec, it) in enumerate(zip(cc["iters"], cc["its"])):
        print(f" iteration {t} {spec}:")
        if it["raised"]:
            print("   raised", it.get("exc"))
        for j, st in enumerate(it["steps"]):
            print(f"   after kernel {j}: {st}")
    r = oracle_d(cc)
    if r:
        print("REPLAY FAILS:", r)
        return 1
    if "its" in c and c["its"] != cc["its"]:
        print("replay passes the property oracle; observations differ from the recorded ones")
        return 0
    print("replay passes on the current tree")
    return 0
