"""Harness-side goose kernels / quantity generators for C08 and a driver of the real Engine.

Nothing here touches /repo: the kernels are ordinary goose kernels written in the harness.  Every
kernel ignores its PRNG key and writes *stamps* that encode the producing iteration:

    sv(chain, epoch, t)      = chain*100000 + nth_epoch*1000 + t          t = time_in_epoch + 1 (1-based)
    kernel i (1-based):      reads  mark = state["c"] % 4            (who wrote the state last)
                             writes state[key][j] = (sv*4 + mark)*8 + j   for each of its position keys
                             writes state["c"]    = sv*4 + i              ("derived" key, not a kernel key)
                             writes state["acc"]  = state["acc"] + 1      (running number of kernel transitions:
                                                                           depends on the WHOLE history of the carry)
    transition info          stamp = sv*4 + i
    kernel state             last  = sv*4 + i , ntrans += 1 ; start_epoch: nstart += 1
    quantity generator g     val = state["c"]*2 + g   ,  ep = nth_epoch*1000 + time_in_epoch (as handed over)

so a stored value tells which chain / epoch / within-epoch iteration / kernel order produced it.
"""
from __future__ import annotations

from dataclasses import dataclass
from typing import ClassVar

SHAPES = {"s": (), "v1": (1,), "v3": (3,), "m22": (2, 2), "m23": (2, 3), "m42": (4, 2)}
TYPES = {0: "INITIAL_VALUES", 1: "FAST_ADAPTATION", 2: "SLOW_ADAPTATION", 3: "BURNIN", 4: "POSTERIOR"}


def size_of(shape_name):
    n = 1
    for d in SHAPES[shape_name]:
        n *= d
    return n


_defs = {}


def defs():
    """Lazily import jax/liesel and define the harness classes (once per process)."""
    if _defs:
        return _defs
    import jax
    import jax.numpy as jnp
    from liesel.goose.kernel import TransitionOutcome, TuningOutcome, WarmupOutcome, DefaultTuningInfo
    from liesel.goose.pytree import register_dataclass_as_pytree

    @register_dataclass_as_pytree
    @dataclass
    class StampKState:
        last: int
        ntrans: int
        nstart: int

    @register_dataclass_as_pytree
    @dataclass
    class StampInfo:
        error_code: int
        acceptance_prob: float
        position_moved: int
        stamp: int

        def minimize(self):
            return self

    @register_dataclass_as_pytree
    @dataclass
    class StampQuant:
        error_code: int
        val: int
        ep: int

    class StampKernel:
        error_book: ClassVar[dict[int, str]] = {0: "no errors"}
        needs_history: ClassVar[bool] = False
        identifier: str = ""

        def __init__(self, kid, position_keys, shapes, needs_history=False):
            self.needs_history = bool(needs_history)   # instance attribute shadows the class default
            self.kid = int(kid)
            self.position_keys = tuple(position_keys)
            self.shapes = dict(shapes)          # key -> shape tuple
            self._model = None

        def set_model(self, model):
            self._model = model

        def has_model(self):
            return self._model is not None

        def init_state(self, prng_key, model_state):
            return StampKState(jnp.int32(-1), jnp.int32(0), jnp.int32(0))

        def start_epoch(self, prng_key, kernel_state, model_state, epoch):
            return StampKState(kernel_state.last, kernel_state.ntrans, kernel_state.nstart + 1)

        def end_epoch(self, prng_key, kernel_state, model_state, epoch):
            return kernel_state

        def transition(self, prng_key, kernel_state, model_state, epoch):
            sv = model_state["cid"] * 100000 + epoch.nth_epoch * 1000 + epoch.time_in_epoch + 1
            mark = model_state["c"] % 4
            pos = {}
            for key in self.position_keys:
                shp = self.shapes[key]
                n = 1
                for d in shp:
                    n *= d
                pos[key] = ((sv * 4 + mark) * 8 + jnp.arange(n, dtype=jnp.int32)).reshape(shp).astype(jnp.int32)
            pos["c"] = jnp.asarray(sv * 4 + self.kid, dtype=jnp.int32)
            pos["acc"] = jnp.asarray(model_state["acc"] + 1, dtype=jnp.int32)
            new_state = self._model.update_state(pos, model_state)
            info = StampInfo(jnp.int32(0), jnp.float32(1.0), jnp.int32(1), jnp.asarray(sv * 4 + self.kid, dtype=jnp.int32))
            ks = StampKState(jnp.asarray(sv * 4 + self.kid, dtype=jnp.int32), kernel_state.ntrans + 1, kernel_state.nstart)
            return TransitionOutcome(info, ks, new_state)

        def tune(self, prng_key, kernel_state, model_state, epoch, history):
            return TuningOutcome(DefaultTuningInfo(jnp.int32(0), epoch.time), kernel_state)

        def end_warmup(self, prng_key, kernel_state, model_state, tuning_history):
            return WarmupOutcome(jnp.int32(0), kernel_state)

    class StampGen:
        error_book: ClassVar[dict[int, str]] = {0: "no errors"}

        def __init__(self, gid):
            self.gid = int(gid)
            self.identifier = f"gen{gid}"

        def set_model(self, model):
            pass

        def has_model(self):
            return True

        def generate(self, prng_key, model_state, epoch):
            return StampQuant(jnp.int32(0), jnp.asarray(model_state["c"] * 2 + self.gid, dtype=jnp.int32),
                              jnp.asarray(epoch.nth_epoch * 1000 + epoch.time_in_epoch, dtype=jnp.int32))

    class DerivedInterface:
        """A user-defined ModelInterface over a dict state whose extract_position COMPUTES some tracked
        quantities from the state of one chain (not a plain lookup):
            "cs_<k>"  cumulative sum over the flattened entries of state[k] (same shape)
            "ct_<k>"  state[k] * size - sum(state[k])   (integer centring)
        every other key is looked up.  update_state / log_prob as DictInterface."""

        def extract_position(self, position_keys, model_state):
            out = {}
            for k in position_keys:
                if k.startswith("cs_"):
                    x = model_state[k[3:]]
                    out[k] = jnp.cumsum(x.reshape(-1)).reshape(x.shape).astype(jnp.int32)
                elif k.startswith("ct_"):
                    x = model_state[k[3:]]
                    out[k] = (x * x.size - jnp.sum(x)).astype(jnp.int32)
                else:
                    out[k] = model_state[k]
            return out

        def update_state(self, position, model_state):
            new = dict(model_state)
            new.update(position)
            return new

        def log_prob(self, model_state):
            return 0.0

    _defs.update(DerivedInterface=DerivedInterface, StampKernel=StampKernel, StampGen=StampGen, StampKState=StampKState,
                 StampInfo=StampInfo, StampQuant=StampQuant)
    return _defs


def run_config(cfg):
    """Drive the real engine on one configuration and return plain-Python observations.

    cfg: {"epochs": [[type, dur, thin], ...], "nchains": n,
          "kernels": [[[key, shape_name], ...], ...],      kernel i+1 controls these keys
          "extra": [[key, shape_name], ...]                 state entries no kernel controls (besides "c")
          "incl": [...], "excl": [...], "ngens": g, "store_ks": bool,
          "chunk": None (builder: gcd) | int (Engine constructed directly with this jitted duration),
          "driver": "all" | "step" | "append:<k>:each" | "append:<k>:bulk",
          "sel_mode": "assign" (fresh lists, default) | "append" | "extend" (in place on the attribute lists) | "default" (untouched),
          "session": [{"when": "before_create"|"after_create"|"after_config", "incl", "excl", "mode"}, ...]  other
                     EngineBuilders created and configured in the same process at that moment}
          append:<k>: the engine is constructed with the first k epochs only and samples them; the remaining
          epochs are handed over afterwards with Engine.append_epoch (each: append one, sample it, ...;
          bulk: append all, then sample_all_epochs).  Needs an explicit "chunk".
    """
    import jax
    import jax.numpy as jnp
    import numpy as np
    import liesel.goose as gs
    from liesel.goose.engine import Engine
    from liesel.goose.epoch import EpochConfig, EpochType
    from liesel.goose.kernel_sequence import KernelSequence

    d = defs()
    nch = cfg["nchains"]
    epochs = [EpochConfig(EpochType[TYPES[t]], dur, th, None) for (t, dur, th) in cfg["epochs"]]
    kernels = []
    state = {"c": jnp.zeros((nch,), jnp.int32), "cid": jnp.arange(nch, dtype=jnp.int32),
             "junk": jnp.full((nch,), 77, jnp.int32), "acc": jnp.zeros((nch,), jnp.int32)}
    for i, keys in enumerate(cfg["kernels"]):
        nh = bool(cfg.get("needs_hist", [])[i]) if i < len(cfg.get("needs_hist", [])) else False
        kernels.append(d["StampKernel"](i + 1, [k for k, _ in keys], {k: SHAPES[s] for k, s in keys}, nh))
        for k, s in keys:
            n = size_of(s)
            base = -(jnp.arange(nch, dtype=jnp.int32)[:, None] * 8 + 8) - jnp.arange(n, dtype=jnp.int32)[None, :]
            state[k] = base.reshape((nch,) + SHAPES[s])
    for k, s in cfg.get("extra", []):
        n = size_of(s)
        base = -(jnp.arange(nch, dtype=jnp.int32)[:, None] * 8 + 8) - jnp.arange(n, dtype=jnp.int32)[None, :]
        state[k] = base.reshape((nch,) + SHAPES[s])
    gens = [d["StampGen"](g + 1) for g in range(cfg["ngens"])]
    model = d["DerivedInterface"]() if cfg.get("iface") == "derived" else gs.DictInterface(lambda st: 0.0)

    out = {"error": None}
    drv = cfg.get("driver", "all")
    nfirst = len(epochs)
    if drv.startswith("append"):
        nfirst = int(drv.split(":")[1])
        assert cfg.get("chunk") is not None and 1 <= nfirst <= len(epochs)
    def select(b, incl, excl, mode):
        """configure the tracked-key selection of builder b the way users do"""
        if mode == "assign":
            b.positions_included = list(incl)
            b.positions_excluded = list(excl)
        elif mode == "append":
            for k in incl:
                b.positions_included.append(k)
            for k in excl:
                b.positions_excluded.append(k)
        elif mode == "extend":
            b.positions_included.extend(incl)
            b.positions_excluded.extend(excl)
        else:
            assert mode == "default" and not incl and not excl      # attributes left untouched

    # other builders living in the same process (cfg["session"]): each is created and configured at the stated
    # moment relative to THIS builder; none of them may influence what this builder's engine tracks
    session = cfg.get("session", [])

    def others(when):
        for sp in session:
            if sp["when"] == when:
                ob_ = gs.EngineBuilder(seed=sp.get("seed", 7), num_chains=1)
                select(ob_, sp["incl"], sp["excl"], sp["mode"])

    try:
        others("before_create")
        builder = gs.EngineBuilder(seed=cfg.get("seed", 1), num_chains=nch)
        others("after_create")
        builder.set_model(model)
        builder.set_initial_values(state, multiple_chains=True)
        for k in kernels:
            builder.add_kernel(k)
        for g in gens:
            builder.add_quantity_generator(g)
        builder.set_epochs(epochs)
        select(builder, cfg["incl"], cfg["excl"], cfg.get("sel_mode", "assign"))
        others("after_config")
        builder.store_kernel_states = bool(cfg["store_ks"])
        builder.show_progress = False
        engine = builder.build()
        if cfg.get("chunk") is not None:
            # same ingredients, public constructor, explicit jitted duration
            engine = Engine(
                seeds=jax.random.split(builder.engine_seed, nch),
                model_states=state,
                kernel_sequence=KernelSequence(kernels),
                epoch_configs=epochs[:nfirst],
                jitted_sample_duration=int(cfg["chunk"]),
                model=model,
                position_keys=_builder_keys(cfg),
                store_kernel_states=bool(cfg["store_ks"]),
                quantity_generators=gens,
                show_progress=False,
            )
        if drv == "all":
            engine.sample_all_epochs()
        elif drv == "step":
            while not engine.is_sampling_done():
                engine.sample_next_epoch()
        else:
            engine.sample_all_epochs()
            if drv.endswith("bulk"):
                for e in epochs[nfirst:]:
                    engine.append_epoch(e)
                engine.sample_all_epochs()
            else:
                for e in epochs[nfirst:]:
                    engine.append_epoch(e)
                    engine.sample_next_epoch()
        res = engine.get_results()
    except RuntimeError as ex:
        out["error"] = "RuntimeError"
        out["message"] = str(ex)[:200]
        return out

    def flat(a):
        """(chain, time, *payload) -> per chain list over time of flattened payload lists"""
        a = np.asarray(a)
        return [[[int(v) for v in a[c, t].reshape(-1)] for t in range(a.shape[1])] for c in range(a.shape[0])]

    def shp(a):
        return list(np.asarray(a).shape[2:])

    def pos_obs(p):
        return {k: {"shape": shp(v), "chains": flat(v)} for k, v in p.items()}

    def observe():
        """read every accessor once; returns (plain observation, the containers the accessors returned)"""
        ob, got = {}, []
        raw = res.get_samples()
        got.append(raw)
        ob["samples"] = pos_obs(raw)
        try:
            raw = res.get_posterior_samples()
            got.append(raw)
            ob["posterior"] = pos_obs(raw)
        except RuntimeError:
            ob["posterior"] = None
        tis = res.transition_infos.combine_all()
        if tis.is_some():
            got.append(tis.unwrap())
        ob["infos"] = None if tis.is_none() else {k: [[x[0] for x in ch] for ch in flat(v.stamp)] for k, v in tis.unwrap().items()}
        ob["infos_len_ok"] = None if tis.is_none() else all(
            np.asarray(v.error_code).shape == np.asarray(v.stamp).shape for v in tis.unwrap().values())
        try:
            pti = res.get_posterior_transition_infos()
            got.append(pti)
            ob["post_infos"] = {k: [[x[0] for x in ch] for ch in flat(v.stamp)] for k, v in pti.items()}
        except RuntimeError:
            ob["post_infos"] = None
        if res.kernel_states.is_some():
            ks = res.kernel_states.unwrap().combine_all().unwrap()
            got.append(ks)
            ob["kstates"] = [{"last": [[x[0] for x in ch] for ch in flat(k.last)],
                               "ntrans": [[x[0] for x in ch] for ch in flat(k.ntrans)],
                               "nstart": [[x[0] for x in ch] for ch in flat(k.nstart)]} for k in ks]
        else:
            ob["kstates"] = None
        if res.generated_quantities.is_some():
            gq = res.generated_quantities.unwrap()
            allq = gq.combine_all().unwrap()
            got.append(allq)
            ob["quants"] = {k: {"val": [[x[0] for x in ch] for ch in flat(v.val)],
                                 "ep": [[x[0] for x in ch] for ch in flat(v.ep)]} for k, v in allq.items()}
            pq = gq.combine_filtered(lambda c: c.type == EpochType.POSTERIOR)
            if pq.is_some():
                got.append(pq.unwrap())
            ob["post_quants"] = None if pq.is_none() else {
                k: {"val": [[x[0] for x in ch] for ch in flat(v.val)],
                    "ep": [[x[0] for x in ch] for ch in flat(v.ep)]} for k, v in pq.unwrap().items()}
        else:
            ob["quants"] = None
            ob["post_quants"] = None
        return ob, got

    def edit_in_place(c):
        """ordinary post-processing of a returned container: add an entry, replace one, delete one"""
        spoil = lambda t: jax.tree_util.tree_map(lambda a: a * 0 - 7, t)     # noqa: E731
        if isinstance(c, dict) and c:
            ks = list(c)
            c["__added__"] = c[ks[0]]
            if len(ks) > 1:
                c[ks[0]] = spoil(c[ks[0]])
            del c[ks[-1]]
        elif isinstance(c, list) and c:
            c[0] = spoil(c[0])
            c.append(c[0])

    first, containers = observe()
    out.update(first)
    if cfg.get("reread", True):
        # history: get, edit the returned containers in place, get again - the accessors are functions of the
        # stored chains, so the second read must be what the first one was (and what the model says)
        done = []
        for c in containers:
            if not any(c is x for x in done):      # two accessors may hand out the very same object
                edit_in_place(c)
                done.append(c)
        try:
            second, _ = observe()
        except Exception as ex:      # the corrupted store cannot even be decoded
            second = {"undecodable": repr(ex)[:200]}
        diff = [k for k in first if first[k] != second.get(k)]
        out["reread_diff"] = diff
        if diff:
            # the observation handed on (to the oracle and to the Coq shard) is the LATEST read
            out["first_read"] = {k: first[k] for k in diff[:2]}
            if "undecodable" in second:
                out["undecodable"] = second["undecodable"]
            else:
                out.update(second)
    return out


def _builder_keys(cfg):
    """What the caller of the public Engine constructor passes for an explicit jitted duration: the
    documented selection (kernels' keys, then included, minus excluded)."""
    keys = [k for ks in cfg["kernels"] for k, _ in ks] + list(cfg["incl"])
    return [k for k in keys if k not in cfg["excl"]]
