"""Shared plumbing for the /verif checks: Coq build, shard compilation, verdicts, evidence."""
from __future__ import annotations

import concurrent.futures as cf
import fcntl
import hashlib
import json
import os
import re
import shutil
import subprocess
import sys
import time
from fractions import Fraction

VERIF = "/verif"
COQ = os.path.join(VERIF, "coq")
REPO = os.environ.get("LV_REPO", "/repo")
NPROC = min(16, os.cpu_count() or 4)

KERNEL_TB = [
    "Coq 8.16.1 kernel (coqc, vm_compute conversion; no native_compute)",
    "hand-written Gallina model of the anchored code (see DESIGN.md section 5 for this property)",
    "correspondence harness in /verif/harness (generators, drivers of the real liesel, literal emission)",
]
REALS_AXIOMS = [
    "ClassicalDedekindReals.sig_forall_dec", "ClassicalDedekindReals.sig_not_dec",
    "FunctionalExtensionality.functional_extensionality_dep", "Classical_Prop.classic",
]


def log(*a):
    print(*a, file=sys.stderr, flush=True)


def sh(cmd, timeout=600, cwd=None, env=None):
    t0 = time.time()
    try:
        p = subprocess.run(cmd, shell=isinstance(cmd, str), cwd=cwd, env=env, timeout=timeout,
                           stdout=subprocess.PIPE, stderr=subprocess.STDOUT, text=True)
        return p.returncode, p.stdout, time.time() - t0
    except subprocess.TimeoutExpired as ex:
        out = ex.stdout if isinstance(ex.stdout, str) else (ex.stdout or b"").decode("utf8", "replace")
        return 124, (out or "") + "\n[timeout]", time.time() - t0


# ----------------------------------------------------------------------------------------------
# Coq literals
# ----------------------------------------------------------------------------------------------
def zlit(n) -> str:
    n = int(n)
    return f"({n})" if n < 0 else str(n)


def natlit(n) -> str:
    n = int(n)
    assert 0 <= n < 5000, n
    return f"{n}%nat"


def blit(b) -> str:
    return "true" if b else "false"


def lst(items) -> str:
    items = list(items)
    return "[" + "; ".join(items) + "]"


def qlit(x) -> str:
    """exact rational literal  (Qmake num den)"""
    f = Fraction(x)
    return f"(Qmake {zlit(f.numerator)} {f.denominator})"


def rlit(x) -> str:
    """exact real literal from a float / Fraction: (IZR n / IZR d) as a Coq R term"""
    f = Fraction(x)
    n, d = f.numerator, f.denominator
    if d == 1:
        return f"({n})" if n < 0 else f"{n}"
    return f"({n} / {d})"


def strlit(s: str) -> str:
    return '"' + s.replace('"', '""') + '"'


# ----------------------------------------------------------------------------------------------
# Context
# ----------------------------------------------------------------------------------------------
class Ctx:
    def __init__(self, pid: str, tier: str, seed: int):
        self.pid, self.tier, self.seed = pid, tier, seed
        self.t0 = time.time()
        # runs against a scratch tree (LV_REPO, mutation drills) get their own work directory so that
        # several drills of the same property can run side by side with the real check
        tag = pid if os.path.realpath(REPO) == "/repo" else pid + "-" + hashlib.sha1(os.path.realpath(REPO).encode()).hexdigest()[:8]
        # one work directory per invocation, so that concurrent runs of the same check do not collide
        self.work = os.path.join(VERIF, ".work", f"{tag}-p{os.getpid()}")
        shutil.rmtree(self.work, ignore_errors=True)
        os.makedirs(self.work, exist_ok=True)
        self.obligations = 0
        self.discharged = 0
        self.theorems: list[str] = []
        self.assumptions: dict[str, list[str]] = {}
        self.broken: list[str] = []          # names of theorems / lemmas that no longer check
        self.violations: list[dict] = []
        self.known: list[str] = []
        self.cov: dict = {"evaluations": 0, "distinct_nontrivial": 0, "samples": [], "histogram": {}}
        self.assume: list[str] = []
        self.tested_not_proved: list[str] = []
        self.shard_seq = 0
        self.quick = tier == "quick"

    # --- bookkeeping -------------------------------------------------------------------------
    def hist(self, key: str, n: int = 1):
        h = self.cov["histogram"]
        h[key] = h.get(key, 0) + n

    def sample(self, obj, limit=6):
        if len(self.cov["samples"]) < limit:
            self.cov["samples"].append(obj)

    def count(self, evaluations=0, distinct=0):
        self.cov["evaluations"] += evaluations
        self.cov["distinct_nontrivial"] += distinct

    # --- Coq -----------------------------------------------------------------------------------
    def coq_build(self, targets: list[str] | None = None) -> bool:
        """(Re)build what this property needs (Properties/<pid>.vo, the Corr<pid> glue and their
        dependencies); serialised across concurrently running checks.  _CoqProject lists every
        .v file under coq/ and is regenerated when the set of files changes."""
        os.makedirs(os.path.join(VERIF, ".work"), exist_ok=True)
        with open(os.path.join(VERIF, ".work", "build.lock"), "w") as lk:
            fcntl.flock(lk, fcntl.LOCK_EX)
            files = []
            for d, _, fs in os.walk(COQ):
                for f in fs:
                    if f.endswith(".v"):
                        files.append(os.path.relpath(os.path.join(d, f), COQ))
            want = "-Q . LV\n" + "\n".join(sorted(files)) + "\n"
            cp = os.path.join(COQ, "_CoqProject")
            have = open(cp).read() if os.path.exists(cp) else ""
            if want != have or not os.path.exists(os.path.join(COQ, "Makefile")):
                with open(cp, "w") as f:
                    f.write(want)
                sh("coq_makefile -f _CoqProject -o Makefile", cwd=COQ)
            if targets is None:
                targets = [f"Properties/{self.pid}.vo"] + sorted(
                    f[:-2] + ".vo" for f in files if os.path.basename(f) == f"Corr{self.pid}.v")
            rc, out, dt = sh(f"timeout 3000 make -j{NPROC} " + " ".join(targets), timeout=3100, cwd=COQ)
        self.build_log = out
        if rc != 0:
            log(out[-3000:])
        return rc == 0

    def check_property_file(self) -> bool:
        """Re-compile Properties/<pid>.v on this run, capture Print Assumptions."""
        src = os.path.join(COQ, "Properties", f"{self.pid}.v")
        txt = open(src).read()
        names = re.findall(r"^(?:Theorem|Lemma|Example)\s+([A-Za-z0-9_']+)", txt, re.M)
        self.theorems = names
        self.obligations += len(names)
        rc, out, dt = sh(["coqc", "-Q", COQ, "LV", "-o", os.path.join(self.work, f"{self.pid}.vo"), src],
                         timeout=1200, cwd=COQ)
        self.prop_log = out
        if rc != 0:
            log(out[-3000:])
            m = re.search(r'line (\d+)', out)
            bad = "?"
            if m:
                ln = int(m.group(1))
                upto = "\n".join(txt.split("\n")[:ln])
                prev = re.findall(r"^(?:Theorem|Lemma|Example)\s+([A-Za-z0-9_']+)", upto, re.M)
                bad = prev[-1] if prev else "?"
            self.broken.append(f"Properties/{self.pid}.v:{bad}")
            return False
        self.discharged += len(names)
        # parse assumptions: blocks following each Print Assumptions in order
        pa = re.findall(r"^Print Assumptions\s+([A-Za-z0-9_']+)", txt, re.M)
        blocks = re.split(r"(?m)^(?=Closed under the global context|Axioms:)", out)
        blocks = [b for b in blocks if b.startswith("Closed") or b.startswith("Axioms:")]
        for nm, b in zip(pa, blocks):
            if b.startswith("Closed"):
                self.assumptions[nm] = []
            else:
                self.assumptions[nm] = sorted(set(re.findall(r"^([A-Za-z_][A-Za-z0-9_.']*)\s*:", b, re.M)) - {"Axioms"})
        return True

    def forbidden_scan(self) -> list[str]:
        rc, out, _ = sh(r"grep -rnE '\b(Admitted|admit|Axiom|Parameter|Conjecture|bypass_check)\b|Unset Guard|type-in-type|Admit Obligations' --include=*.v . || true",
                        cwd=COQ)
        hits = [l for l in out.splitlines() if l.strip() and not re.search(r"\(\*.*(Axiom|Parameter|admit).*\*\)", l)]
        # Variable / Hypothesis outside a Section (would declare an axiom), guard switches, leftover automation
        rc2, out2, _ = sh(["python3", os.path.join(VERIF, "tools", "scan_coq.py"), COQ])
        if rc2 != 0:
            hits += [l for l in out2.splitlines() if l.strip() and l not in hits][:10]
        return hits

    def new_shard(self, text: str, name: str | None = None) -> str:
        self.shard_seq += 1
        name = name or f"cases_{self.shard_seq:03d}"
        path = os.path.join(self.work, name + ".v")
        with open(path, "w") as f:
            f.write(text)
        return path

    def compile_shards(self, paths: list[str], timeout=900) -> dict[str, tuple[bool, str]]:
        """Compile shard files in parallel; each must end in Qed-closed lemmas."""
        res: dict[str, tuple[bool, str]] = {}

        def one(p):
            rc, out, dt = sh(f"ulimit -s unlimited 2>/dev/null || ulimit -s 4000000 2>/dev/null; exec coqc -Q {COQ} LV -Q {self.work} Cases {p}",
                             timeout=timeout, cwd=self.work)
            return p, rc == 0, out

        with cf.ThreadPoolExecutor(max_workers=NPROC) as ex:
            for p, ok, out in ex.map(one, paths):
                res[p] = (ok, out)
                nl = len(re.findall(r"^(?:Lemma|Theorem|Goal)\b", open(p).read(), re.M))
                self.obligations += nl
                if ok:
                    self.discharged += nl
        return res

    def coq_eval(self, text: str, timeout=900) -> tuple[bool, str]:
        """Compile a scratch file (diagnostics: Eval/Compute output); not counted as an obligation."""
        self.shard_seq += 1
        p = os.path.join(self.work, f"diag_{self.shard_seq:03d}.v")
        with open(p, "w") as f:
            f.write(text)
        rc, out, _ = sh(f"ulimit -s unlimited 2>/dev/null || ulimit -s 4000000 2>/dev/null; exec coqc -Q {COQ} LV -Q {self.work} Cases {p}",
                        timeout=timeout, cwd=self.work)
        return rc == 0, out

    # --- verdicts -------------------------------------------------------------------------------
    def violation(self, what: str, replay: dict, found_input: bool = True, klass: str | None = None):
        """Record a violation.  klass = minimised input class used to match known findings."""
        self.violations.append({"what": what, "replay": replay, "found_input": found_input, "klass": klass})

    def finish(self, level="proof", checker_cmd=None, explanation=None) -> int:
        kf = load_known_findings()
        open_known = [k for k in kf.get("known", []) if k["property"] == self.pid]
        real = []
        for v in self.violations:
            hit = next((k for k in open_known if v["klass"] and k.get("klass") == v["klass"]), None)
            if hit:
                self.known.append(f"KNOWN-FINDING: property={self.pid} {hit['what']}")
            else:
                real.append(v)
        # verdict lines must start on a fresh line even when stdout and stderr share one pipe
        sys.stderr.write("\n")
        sys.stderr.flush()
        sys.stdout.flush()
        for k in sorted(set(self.known)):
            print(k, flush=True)
        rc = 0
        os.makedirs(os.path.join(VERIF, "replays", self.pid), exist_ok=True)
        for v in real:
            body = json.dumps(v["replay"], sort_keys=True, default=str)
            h = hashlib.sha1(body.encode()).hexdigest()[:12]
            path = os.path.join(VERIF, "replays", self.pid, f"{h}.json")
            with open(path, "w") as f:
                json.dump({"property": self.pid, "what": v["what"], "found_input": v["found_input"],
                           "broken": self.broken, "replay": v["replay"]}, f, indent=1, default=str)
            tail = "" if v["found_input"] else " no-failing-input-found"
            print(f"VIOLATION property={self.pid} replay={path}{tail}", flush=True)
            rc = 1
        self.write_evidence(level, checker_cmd, explanation, len(real))
        shutil.rmtree(self.work, ignore_errors=True)
        return rc

    def write_evidence(self, level, checker_cmd, explanation, nviol):
        cov = dict(self.cov)
        cov.setdefault("rule", "")
        cov["obligations"] = self.obligations
        cov["discharged"] = self.discharged
        cov["checker_cmd"] = checker_cmd or f"coqc -Q /verif/coq LV Properties/{self.pid}.v ; coqc <generated correspondence shards>"
        tb = list(KERNEL_TB)
        ax = sorted({a for l in self.assumptions.values() for a in l})
        tb.append("axioms reported by Print Assumptions for this property's theorems: " + (", ".join(ax) if ax else "none (closed under the global context)"))
        cov["trusted_base"] = tb + getattr(self, "extra_tb", [])
        cov["theorems"] = self.theorems
        cov["assumptions_per_theorem"] = self.assumptions
        cov["broken"] = self.broken
        cov["tested_not_proved"] = self.tested_not_proved
        if explanation:
            cov["explanation"] = explanation
        ev = {
            "property_id": self.pid, "tier": self.tier, "seed": self.seed, "level": level,
            "coverage": cov, "assumptions": self.assume, "wall_s": round(time.time() - self.t0, 2),
            "violations": nviol,
        }
        # evidence describes /repo; drills against a scratch tree (LV_REPO) write elsewhere
        evdir = os.environ.get("LV_EVIDENCE_DIR") or (
            os.path.join(VERIF, "evidence") if os.path.realpath(REPO) == "/repo" else os.path.join(VERIF, ".work", "evidence_scratch"))
        os.makedirs(evdir, exist_ok=True)
        with open(os.path.join(evdir, f"{self.pid}.json"), "w") as f:
            json.dump(ev, f, indent=1, default=str)


def load_known_findings() -> dict:
    p = os.path.join(VERIF, "known_findings.json")
    if os.path.exists(p):
        return json.load(open(p))
    return {"known": [], "fixed": []}


# ----------------------------------------------------------------------------------------------
# Standard skeleton: theorem re-check + correspondence shards + oracle + search
# ----------------------------------------------------------------------------------------------
def run_standard(ctx: Ctx, mod) -> int:
    """mod provides:
         generate(ctx)        -> list of case dicts (inputs + observations of the real code)
         emit(ctx, cases)     -> list of (shard_path, [case indices])  (Qed-closed agreement lemmas)
         diagnose(ctx, path, idxs, cases) -> list of case indices that disagree   (optional)
         oracle(case)         -> None | str        direct property check on the implementation's observation
         klass(case)          -> str | None        known-finding class of a failing case (optional)
         search(ctx)          -> list of failing case dicts from a widened search (optional)
    """
    built = ctx.coq_build()
    thm_ok = built and ctx.check_property_file()
    if not built:
        ctx.broken.append("coq build (make) failed")
    forb = ctx.forbidden_scan()
    if forb:
        ctx.broken.append("forbidden constructs: " + "; ".join(forb[:5]))
    cases = mod.generate(ctx)
    oracle_fail = []
    for i, c in enumerate(cases):
        r = mod.oracle(c)
        if r:
            oracle_fail.append((i, r))
    disagree: list[int] = []
    broken_shards = []
    if built:
        shards = mod.emit(ctx, cases)
        res = ctx.compile_shards([p for p, _ in shards])
        for p, idxs in shards:
            ok, out = res[p]
            if not ok:
                broken_shards.append(os.path.basename(p))
                log(f"shard {p} failed:\n{out[-1500:]}")
                bad = None
                if hasattr(mod, "diagnose"):
                    try:
                        bad = mod.diagnose(ctx, p, idxs, cases)
                    except Exception as ex:  # diagnostics are best effort
                        log("diagnose failed:", ex)
                disagree.extend(bad if bad else idxs[:50])
        if broken_shards:
            ctx.broken.append("correspondence lemma shard_ok in " + ", ".join(broken_shards))
    klass = getattr(mod, "klass", lambda c: None)
    reported = set()
    seen_kinds = set()
    for i, r in oracle_fail:
        kind = (klass(cases[i]), re.sub(r"[0-9.e+-]+", "#", str(r))[:80])
        if kind in seen_kinds or len(seen_kinds) >= 4:
            continue
        seen_kinds.add(kind)
        ctx.violation(str(r), {"case": cases[i], "oracle": r, "same_kind_failures": sum(1 for _ in oracle_fail)}, True, klass(cases[i]))
        reported.add(i)
    if (disagree or not thm_ok or forb) and not oracle_fail:
        # proof or correspondence broke but no sampled case fails the property itself: search wider
        found = []
        if hasattr(mod, "search"):
            try:
                found = mod.search(ctx, [cases[i] for i in disagree[:20]]) or []
            except Exception as ex:
                log("search failed:", repr(ex))
        for c in found[:3]:
            ctx.violation(c.get("why", "property fails"), {"case": c}, True, klass(c))
        if not found:
            what = "; ".join(ctx.broken) or "correspondence disagreement"
            ctx.violation(what, {"broken": ctx.broken,
                                 "disagreeing_cases": [cases[i] for i in disagree[:5]]}, False, None)
    return ctx.finish()


def parse_nat_list(out: str) -> list[int]:
    """parse '= [1; 2; 3]' style vm_compute output of a list of nat/Z/N"""
    m = re.search(r"=\s*\[(.*?)\]\s*:", out, re.S)
    if not m:
        return []
    body = m.group(1).replace("\n", " ")
    return [int(re.sub(r"%\w+", "", t).strip().strip("()")) for t in body.split(";") if t.strip()]
