"""C06, zero-density stratum: forced transitions of RWKernel / MHKernel / IWLSKernel (with a user-supplied
constant chol_info_fn, i.e. where the information exists) on bounded-support targets

  in  : from a ZERO-density current point (log pi(x) = -inf, e.g. initial values outside the support) to a
        positive-density proposal:  ratio = +inf, alpha = min(1, +inf) = 1, no error, the move is accepted;
  out : from a positive-density point to a zero-density proposal: ratio 0, alpha = 0, no error, rejected.

Model side: the Metropolis-Hastings ratio in the extended reals.  Two independent readings:
  * the oracle below makes the explicit case split (lp(x) = -inf < lp(x')  ->  1;  lp(x') = -inf < lp(x) -> 0) with
    closed-form log-densities, and also checks the new state against the kernel's documented proposal;
  * Coq: C05's IEEE special-value model of mh_step (Goose/MH.v over Base/Xnum.v) is evaluated on
    (log pi(x), log pi(x'), log correction, u = 0) by `vm_compute` in a Qed-closed lemma (Analytic/IWLSExt.v,
    ext_agrees), next to the theorems C06_from_zero_density / C06_to_zero_density.
float64, same forced normal draw / uniform = 0 patches as the main forced stream.
"""
from __future__ import annotations

import math
import random
from fractions import Fraction
from unittest import mock

YS = [0.5, 1.0, 1.5]          # observations of the liesel model: x ~ Uniform(0, 2), y_i ~ N(x, 1)
CHOL = 1.5                    # the constant user chol_info_fn of the IWLS groups
RHO = 0.5                     # AR coefficient of the MH proposal

# (kernel, family, interface, block size)
GROUPS = [("rw", "hn", "dict", 1), ("rw", "hn", "dict", 2), ("rw", "unif", "liesel", 1),
          ("mh", "box", "dict", 1), ("iwls", "hn", "dict", 1), ("iwls", "unif", "liesel", 1)]


def lp_np(fam, x):
    """closed-form log-density (up to a constant), -inf outside the support"""
    if fam == "hn":          # half-normal-like: all coordinates > 0
        return -sum(t * t for t in x) / 2 if all(t > 0 for t in x) else -math.inf
    if fam == "box":         # N(1, 1) truncated to (0, 2)
        return -(x[0] - 1) ** 2 / 2 if 0 < x[0] < 2 else -math.inf
    if fam == "unif":        # uniform prior on (0, 2), normal observations
        return -sum((y - x[0]) ** 2 for y in YS) / 2 if 0 < x[0] < 2 else -math.inf
    raise KeyError(fam)


def score_np(fam, x):
    """what jax.grad returns: gradient of the finite branch inside, of the constant -inf branch (0) outside;
    for the liesel model the likelihood is finite everywhere, only the prior is -inf outside"""
    if fam == "hn":
        return [-t for t in x] if all(t > 0 for t in x) else [0.0 for _ in x]
    if fam == "unif":
        return [sum(y - x[0] for y in YS)]
    raise KeyError(fam)


def predicted(c):
    """the proposal the kernel documents for the prescribed z, and the (finite) log-correction"""
    x, z, s = c["x"], c["z"], c["s"]
    if c["k"] == "rw":
        return [a + s * b for a, b in zip(x, z)], 0.0
    if c["k"] == "mh":
        xp = [RHO * a + s * b for a, b in zip(x, z)]
        corr = sum((p - RHO * a) ** 2 - (a - RHO * p) ** 2 for a, p in zip(x, xp)) / (2 * s * s)
        return xp, corr
    # iwls with constant Cholesky factor c: mean x + s^2/2 * score/c^2, sd s/c
    mu = [a + s * s / 2 * g / CHOL ** 2 for a, g in zip(x, score_np(c["fam"], x))]
    xp = [m + s * b / CHOL for m, b in zip(mu, z)]
    mup = [a + s * s / 2 * g / CHOL ** 2 for a, g in zip(xp, score_np(c["fam"], xp))]
    l = CHOL / s
    fwd = sum(-((p - m) * l) ** 2 / 2 for p, m in zip(xp, mu))
    bwd = sum(-((a - m) * l) ** 2 / 2 for a, m in zip(x, mup))
    return xp, bwd - fwd


def gen_cases(rnd, quick):
    cases = []
    reps = 3 if quick else 10
    for (kernel, fam, iface, n) in GROUPS:
        for direction in ("in", "out"):
            for _ in range(reps):
                s = rnd.choice([0.1, 0.25, 0.5, 1.0, 2.0])
                hi = fam in ("box", "unif")          # support (0, 2), else (0, inf)
                inside = lambda: rnd.randint(2, 14) / 8 if hi else rnd.randint(1, 24) / 8
                outside = lambda: (rnd.choice([-1, 1]) if hi else -1) * rnd.randint(1, 12) / 8
                outpt = lambda: [(t if t < 0 else 2 + t) for t in [outside()]][0]
                if direction == "in":
                    x = [outpt() for _ in range(n)]
                    if n > 1 and rnd.random() < 0.5:
                        x[rnd.randrange(n)] = inside()        # only one coordinate outside is enough
                    target = [inside() for _ in range(n)]
                else:
                    x = [inside() for _ in range(n)]
                    target = [inside() for _ in range(n)]
                    target[rnd.randrange(n)] = outpt()
                c = dict(kernel="edge", k=kernel, fam=fam, iface=iface, n=n, dir=direction, x=x, s=s, z=[0.0] * n,
                         seed=rnd.randrange(2 ** 31), edge=True)
                # choose z so that the documented proposal lands on the target
                base, _ = predicted(c)
                scale = s if kernel in ("rw", "mh") else s / CHOL
                c["z"] = [(t - b) / scale for t, b in zip(target, base)]
                xp, corr = predicted(c)
                lpx, lpp = lp_np(fam, x), lp_np(fam, xp)
                ok = (lpx == -math.inf and lpp > -math.inf) if direction == "in" else (lpx > -math.inf and lpp == -math.inf)
                margin = min(min(abs(t), abs(t - 2)) if hi else abs(t) for t in xp)
                if ok and margin > 1e-3 and math.isfinite(corr):
                    cases.append(c)
    return cases


def make_runner(kernel, fam, iface, n):
    import jax, jax.numpy as jnp
    import liesel.goose as gs
    from liesel.goose.epoch import EpochConfig, EpochType
    from liesel.goose.mh_kernel import MHProposal

    if iface == "dict":
        if fam == "hn":
            logp = lambda st: jnp.where(jnp.all(st["x"] > 0), -jnp.sum(st["x"] ** 2) / 2, -jnp.inf)
        else:
            logp = lambda st: jnp.where((st["x"][0] > 0) & (st["x"][0] < 2), -(st["x"][0] - 1) ** 2 / 2, -jnp.inf)
        model, base = gs.DictInterface(logp), None
    else:
        import liesel.model as lsl
        import tensorflow_probability.substrates.jax.distributions as tfd
        xv = lsl.param(jnp.array([1.0]), lsl.Dist(tfd.Uniform, low=jnp.float64(0.0), high=jnp.float64(2.0)), name="x")
        yv = lsl.obs(jnp.array(YS), lsl.Dist(tfd.Normal, loc=xv, scale=jnp.float64(1.0)), name="y")
        lm = lsl.GraphBuilder(to_float32=False).add(yv).build_model()
        model, base = gs.LieselInterface(lm), lm.state
    epoch = EpochConfig(EpochType.POSTERIOR, 10, 1, None).to_state(0, 0)
    Lc = jnp.array([[CHOL]])

    def f(x, z, s, seed):
        calls = {"normal": 0, "uniform": 0}
        orig_normal = jax.random.normal
        state = {"x": x, "aux": jnp.float64(7.0)} if base is None else model.update_state({"x": x}, base)
        if kernel == "rw":
            k = gs.RWKernel(["x"], initial_step_size=s)
        elif kernel == "iwls":
            k = gs.IWLSKernel(["x"], chol_info_fn=lambda st: Lc, initial_step_size=s)
        else:
            def proposal_fn(key, model_state, step_size):
                xx = model.extract_position(["x"], model_state)["x"]
                xp = RHO * xx + step_size * jax.random.normal(key, xx.shape)
                corr = jnp.sum((xp - RHO * xx) ** 2 - (xx - RHO * xp) ** 2) / (2 * step_size ** 2)
                return MHProposal({"x": xp}, corr)
            k = gs.MHKernel(["x"], proposal_fn, initial_step_size=s)
        k.set_model(model)
        key0 = jax.random.PRNGKey(seed)
        ks = k.init_state(key0, state)

        def fake_normal(key, shape=(), dtype=float, *a, **kw):
            if tuple(shape) != tuple(z.shape):
                calls["normal"] -= 1000
                return orig_normal(key, shape, dtype, *a, **kw)
            calls["normal"] += 1
            return z

        def fake_uniform(key, shape=(), dtype=float, *a, **kw):
            calls["uniform"] += 1
            return jnp.zeros(shape, jnp.float64)
        with mock.patch("jax.random.normal", fake_normal), mock.patch("jax.random.uniform", fake_uniform):
            out = k.transition(key0, ks, state, epoch)
        newx = model.extract_position(["x"], out.model_state)["x"]
        return (out.info.acceptance_prob, out.info.position_moved, out.info.error_code, newx,
                model.log_prob(state), calls["normal"], calls["uniform"])
    return f


def run_cases(cases, jit=True, log=None):
    import time
    import jax, jax.numpy as jnp, numpy as np
    jax.config.update("jax_enable_x64", True)
    groups = {}
    for i, c in enumerate(cases):
        groups.setdefault((c["k"], c["fam"], c["iface"], c["n"]), []).append(i)
    for g, idxs in groups.items():
        t0 = time.time()
        f = make_runner(*g)
        args = [jnp.array([cases[i]["x"] for i in idxs], dtype=jnp.float64),
                jnp.array([cases[i]["z"] for i in idxs], dtype=jnp.float64),
                jnp.array([cases[i]["s"] for i in idxs], dtype=jnp.float64),
                jnp.array([cases[i]["seed"] for i in idxs], dtype=jnp.uint32)]
        if jit:
            out = [np.asarray(o) for o in jax.jit(jax.vmap(f))(*args)]
            rows = [[o[j] for o in out] for j in range(len(idxs))]
        else:
            rows = [[np.asarray(t) for t in f(*[a[j] for a in args])] for j in range(len(idxs))]
        for j, i in enumerate(idxs):
            p, moved, code, newx, lp0, nn, nu = rows[j]
            c = cases[i]
            c["p"], c["moved"], c["code"] = float(p), bool(moved), int(code)
            c["newx"] = [float(t) for t in np.asarray(newx).reshape(-1)]
            c["lp_cur_impl"] = float(lp0)
            c["forced_ok"] = bool(int(nn) >= 1 and int(nu) >= 1)
        if log:
            log(f"  ran {len(idxs):3d} zero-density cases of {g[0]}/{g[1]}{g[3]}/{g[2]} in {time.time() - t0:.1f}s")
    return cases


def describe(c):
    xp, corr = predicted(c)
    return (f"{c['k']} kernel ({'user constant chol_info_fn %.1f, ' % CHOL if c['k'] == 'iwls' else ''}{c['iface']} model, "
            f"bounded-support target '{c['fam']}'), current point x={c['x']} with log pi(x)={lp_np(c['fam'], c['x'])}, "
            f"forced z={c['z']}, step={c['s']}: proposal x'={xp} with log pi(x')={lp_np(c['fam'], xp)}, log correction {corr!r}: ")


def oracle(c):
    """explicit case split of min(1, ratio) in the extended reals"""
    if not c["forced_ok"]:
        return None            # the draw could not be forced: nothing is known about the proposal
    xp, corr = predicted(c)
    lpx = lp_np(c["fam"], c["x"])
    if (c["lp_cur_impl"] == -math.inf) != (lpx == -math.inf):
        return describe(c) + f"harness and model disagree about the support: model.log_prob(x) = {c['lp_cur_impl']}"
    if c["dir"] == "in":       # pi(x) = 0 < pi(x'): ratio +inf, alpha = 1
        if c["code"] != 0 or c["p"] != 1.0 or not c["moved"]:
            return (describe(c) + f"the ratio pi(x')q(x|x')/(pi(x)q(x'|x)) is +inf, so the acceptance probability is min(1, +inf) = 1 and "
                    f"the chain must enter the support; the kernel reported acceptance_prob {c['p']!r}, error code {c['code']}, moved={c['moved']}")
        if max(abs(a - b) for a, b in zip(c["newx"], xp)) > 1e-9 * max(1.0, max(abs(t) for t in xp)):
            return describe(c) + f"accepted, but the new state {c['newx']} is not the documented proposal"
    else:                      # pi(x') = 0 < pi(x): ratio 0, alpha = 0
        if c["code"] != 0 or c["p"] != 0.0 or c["moved"]:
            return (describe(c) + f"the ratio is 0, so the acceptance probability is 0 and the move is rejected without error; "
                    f"the kernel reported acceptance_prob {c['p']!r}, error code {c['code']}, moved={c['moved']}")
        if c["newx"] != [float(t) for t in c["x"]]:
            return describe(c) + f"rejected, but the state changed to {c['newx']}"
    return None


# ---------------------------------------------------------------------------------------------
# Coq: C05's special-value model of mh_step evaluated on the case
# ---------------------------------------------------------------------------------------------
EXT_HEADER = """From Coq Require Import List QArith Bool Arith.
Import ListNotations.
From LV Require Import Base.Xnum Goose.MH Analytic.IWLSExt.
Open Scope Q_scope.
"""


def xq(v):
    if v == -math.inf:
        return "XNegInf"
    if v == math.inf:
        return "XPosInf"
    if v != v:
        return "XNaN"
    f = Fraction(float(v))
    n = f"({f.numerator})" if f.numerator < 0 else str(f.numerator)
    return f"(XFin (Qmake {n} {f.denominator}))"


def ext_row(c):
    xp, corr = predicted(c)
    return ("(mkExt " + " ".join([xq(lp_np(c["fam"], c["x"])), xq(lp_np(c["fam"], xp)), xq(corr), xq(0.0),
                                  f"{c['code']}%nat", xq(c["p"]), "true" if c["moved"] else "false"]) + ")")


def ext_shard(cases_with_idx):
    rows = [ext_row(c) for _, c in cases_with_idx]
    return (EXT_HEADER + "\nDefinition cases : list extcase := [" + ";\n  ".join(rows) + "].\n"
            "Lemma ext_ok : forallb ext_agrees cases = true.\nProof. vm_compute. reflexivity. Qed.\n")
