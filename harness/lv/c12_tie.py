"""C12 source tie: Gallina definitions translated from the current Python source (tools/py2gallina_c12.py)
+ Qed-closed lemmas that they are extensionally equal to the hand-written model (Goose/MM.v) + the main C12
theorems re-stated for the translated functions.  Never raises an alarm by itself: the caller (c12.source_tie)
records the outcome in the evidence (coverage.source_tie) and keeps the behavioural correspondence for the
verdict.
"""
from __future__ import annotations

import importlib.util
import os
import re

from . import common

TOOL = os.path.join(common.VERIF, "tools", "py2gallina_c12.py")

HEADER = """(* GENERATED on this run by tools/py2gallina_c12.py from the Python source under {root} - do not edit *)
From Coq Require Import String List ZArith QArith Bool Arith Permutation.
Import ListNotations.
From LV Require Import Goose.MM Goose.MMProofs Goose.GenC12Tie.
Open Scope Q_scope.
"""


def kernel_proofs(k, cls):
    return {
        f"{k}_fast": f"""
(* {cls}._tune_fast as translated returns the kernel state it was given *)
Lemma gen_{k}_tune_fast_is_model : forall st h, gen_{k}_tune_fast st h = TOk st.
Proof. intros st h. reflexivity. Qed.
""",
        f"{k}_slow": f"""
(* {cls}._tune_slow as translated = the model's tune_slow (column order Sorted) on the keys position_keys with the
   flat sizes the arrays of the history have; kind_ok: the state holds a vector iff mm_diag *)
Lemma gen_{k}_tune_slow_is_model : forall sqrt_o names diag st h, kind_ok diag (imm st) = true ->
  topt (gen_{k}_tune_slow sqrt_o names diag st h) = model_slow sqrt_o names diag st h.
Proof.
  exact (tie_slow gen_tune_inv_mm_diag gen_tune_inv_mm_full gen_{k}_tune_fast
           gen_tune_inv_mm_diag_is_model gen_tune_inv_mm_full_is_model gen_{k}_tune_fast_is_model).
Qed.

(* TuningMixin.tune (lax.cond on the epoch type) around the two translated methods = the model's tune *)
Lemma gen_{k}_tune_is_model : forall sqrt_o names diag slow st d, kind_ok diag (imm st) = true ->
  tune_with gen_{k}_tune_slow gen_{k}_tune_fast sqrt_o names diag slow st (Some d)
  = tune sqrt_o Sorted diag (keys_of d names) slow st (Some (hist_of d)).
Proof. exact (tie_tune _ _ gen_{k}_tune_slow_is_model gen_{k}_tune_fast_is_model). Qed.

(* C12_slow_epoch_aligned_diag / _dense for the {cls}._tune_slow translated from the source *)
Theorem gen_{k}_slow_epoch_aligned_diag : forall sqrt_o names st d st',
  kind_ok true (imm st) = true ->
  topt (gen_{k}_tune_slow sqrt_o names true st (Some d)) = Some st' ->
  exists v, imm st' = Diag v /\\
    length v = length (flat_coords (keys_of d names)) /\\
    forall i name j, nth_error (flat_coords (keys_of d names)) i = Some (name, j) ->
      exists s x, coord_series (hist_of d) name j = Some s /\\ var_q s = Some x /\\
                  nth_error v i = Some (x + reg).
Proof. exact (tie_slow_epoch_aligned_diag _ gen_{k}_tune_slow_is_model). Qed.

Theorem gen_{k}_slow_epoch_aligned_dense : forall sqrt_o names st d st',
  kind_ok false (imm st) = true ->
  topt (gen_{k}_tune_slow sqrt_o names false st (Some d)) = Some st' ->
  exists m, imm st' = Dense m /\\
    length m = length (flat_coords (keys_of d names)) /\\
    Forall (fun row => length row = length (flat_coords (keys_of d names))) m /\\
    forall i name j i' name' j',
      nth_error (flat_coords (keys_of d names)) i = Some (name, j) ->
      nth_error (flat_coords (keys_of d names)) i' = Some (name', j') ->
      exists s s' c, coord_series (hist_of d) name j = Some s /\\ coord_series (hist_of d) name' j' = Some s' /\\
                     cov_q s s' = Some c /\\
                     entry m i i' = Some (if Nat.eqb i i' then c + reg else c).
Proof. exact (tie_slow_epoch_aligned_dense _ gen_{k}_tune_slow_is_model). Qed.

(* C12_order_invariant: the order in which position_keys lists the names does not matter *)
Theorem gen_{k}_order_invariant : forall sqrt_o names names' diag st d,
  kind_ok diag (imm st) = true -> Permutation names names' -> NoDup names ->
  topt (gen_{k}_tune_slow sqrt_o names diag st (Some d)) = topt (gen_{k}_tune_slow sqrt_o names' diag st (Some d)).
Proof. exact (tie_order_invariant _ gen_{k}_tune_slow_is_model). Qed.

(* C12_slow_epoch_fresh / C12_not_slow_unchanged (no history) *)
Theorem gen_{k}_slow_epoch_fresh : forall sqrt_o names diag st d st',
  kind_ok diag (imm st) = true ->
  topt (gen_{k}_tune_slow sqrt_o names diag st (Some d)) = Some st' ->
  tune_mm Sorted diag (keys_of d names) (hist_of d) = Some (imm st').
Proof. exact (tie_slow_epoch_fresh _ gen_{k}_tune_slow_is_model). Qed.

Theorem gen_{k}_no_history_unchanged : forall sqrt_o names diag st,
  kind_ok diag (imm st) = true -> topt (gen_{k}_tune_slow sqrt_o names diag st None) = Some st.
Proof. exact (tie_no_history_unchanged _ gen_{k}_tune_slow_is_model). Qed.

(* C12_trace_pos + C12_step_rescale *)
Theorem gen_{k}_step_rescale : forall sqrt_o names diag st d st',
  kind_ok diag (imm st) = true ->
  topt (gen_{k}_tune_slow sqrt_o names diag st (Some d)) = Some st' ->
  sqrt_o (trace (imm st) / trace (imm st')) * sqrt_o (trace (imm st) / trace (imm st'))
    == trace (imm st) / trace (imm st') ->
  0 < trace (imm st') /\\
  step st' * step st' * trace (imm st') == step st * step st * trace (imm st).
Proof. exact (tie_step_rescale _ gen_{k}_tune_slow_is_model). Qed.
Print Assumptions gen_{k}_slow_epoch_aligned_diag.
Print Assumptions gen_{k}_slow_epoch_aligned_dense.
Print Assumptions gen_{k}_order_invariant.
Print Assumptions gen_{k}_step_rescale.
""",
    }


PROOFS = {
    "vravel": """
(* _vravel as translated = the library target (the column view of the C-order items) *)
Lemma gen_vravel_is_model : forall x, gen__vravel x = gvravel x.
Proof. intros x. reflexivity. Qed.
""",
    "h2m": """
(* _history_to_matrix as translated, applied to {k: d[k] for k in names}, = the model's stacked columns
   hist_columns (flat_order keys) + stack, with keys = names with the flat sizes the arrays of d have *)
Lemma gen_history_to_matrix_is_model : forall d names,
  topt (tbind (gselect d names) gen__history_to_matrix) = sel_matrix d names.
Proof. exact (tie_h2m gen__vravel gen_vravel_is_model). Qed.
""",
    "diag": """
Lemma gen_tune_inv_mm_diag_is_model : forall d names,
  topt (tbind (gselect d names) gen_tune_inv_mm_diag) = sel_diag d names.
Proof. exact (tie_diag gen__history_to_matrix gen_history_to_matrix_is_model). Qed.

(* C12_aligned_diag for the tune_inv_mm_diag translated from the source *)
Theorem gen_aligned_diag : forall d names v,
  topt (tbind (gselect d names) gen_tune_inv_mm_diag) = Some v ->
  length v = length (flat_coords (keys_of d names)) /\\
  forall i name j, nth_error (flat_coords (keys_of d names)) i = Some (name, j) ->
    exists s x, coord_series (hist_of d) name j = Some s /\\ var_q s = Some x /\\
                nth_error v i = Some (x + reg).
Proof. exact (tie_aligned_diag _ gen_tune_inv_mm_diag_is_model). Qed.
Print Assumptions gen_aligned_diag.
""",
    "full": """
Lemma gen_tune_inv_mm_full_is_model : forall d names,
  topt (tbind (gselect d names) gen_tune_inv_mm_full) = sel_full d names.
Proof. exact (tie_full gen__history_to_matrix gen_history_to_matrix_is_model). Qed.

(* C12_aligned_dense for the tune_inv_mm_full translated from the source *)
Theorem gen_aligned_dense : forall d names m,
  topt (tbind (gselect d names) gen_tune_inv_mm_full) = Some m ->
  length m = length (flat_coords (keys_of d names)) /\\
  Forall (fun row => length row = length (flat_coords (keys_of d names))) m /\\
  forall i name j i' name' j',
    nth_error (flat_coords (keys_of d names)) i = Some (name, j) ->
    nth_error (flat_coords (keys_of d names)) i' = Some (name', j') ->
    exists s s' c, coord_series (hist_of d) name j = Some s /\\ coord_series (hist_of d) name' j' = Some s' /\\
                   cov_q s s' = Some c /\\
                   entry m i i' = Some (if Nat.eqb i i' then c + reg else c).
Proof. exact (tie_aligned_dense _ gen_tune_inv_mm_full_is_model). Qed.
Print Assumptions gen_aligned_dense.
""",
    **kernel_proofs("nuts", "NUTSKernel"),
    **kernel_proofs("hmc", "HMCKernel"),
}

# sections in dependency order.  DEF_DEPS: a section's definitions mention those of ...;
# LEMMA_DEPS: a section's proofs use the lemmas of ...
ORDER = ["vravel", "h2m", "diag", "full", "nuts_fast", "nuts_slow", "hmc_fast", "hmc_slow"]
DEF_DEPS = {"vravel": [], "h2m": ["vravel"], "diag": ["h2m"], "full": ["h2m"], "nuts_fast": [], "hmc_fast": [],
            "nuts_slow": ["diag", "full", "nuts_fast"], "hmc_slow": ["diag", "full", "hmc_fast"]}
LEMMA_DEPS = DEF_DEPS


def load_tool():
    spec = importlib.util.spec_from_file_location("py2gallina_c12", TOOL)
    mod = importlib.util.module_from_spec(spec)
    spec.loader.exec_module(mod)
    return mod


def lemma_names(txt):
    return re.findall(r"^(?:Lemma|Theorem|Corollary)\s+([A-Za-z0-9_']+)", txt, re.M)


def sections(root):
    """translate; returns ({section: {"defs", "proofs", "info"}}, {section: reason it is not available})"""
    tool = load_tool()
    res = tool.translate(root, tuple(ORDER))
    ok, bad = {}, {}
    for sec in ORDER:
        d = res.get(sec, {"error": "not translated"})
        if "error" in d:
            bad[sec] = "translator failed closed: " + d["error"]
            continue
        ok[sec] = {"defs": d["text"], "proofs": PROOFS[sec], "info": d["info"]}
    changed = True
    while changed:            # a section whose dependency did not translate cannot be stated
        changed = False
        for sec in ORDER:
            if sec in ok:
                missing = [x for x in DEF_DEPS[sec] if x not in ok]
                if missing:
                    bad.setdefault(sec, f"needs the translation of {missing}, which failed")
                    del ok[sec]
                    changed = True
    return ok, bad


def assemble(root, ok, use):
    """file text: definitions of all translated sections, proofs of the sections in `use`"""
    parts = [HEADER.format(root=root)]
    marks = []          # (first line, last line, section) of each proof block, for error attribution
    for sec in ORDER:
        if sec not in ok:
            continue
        for i in ok[sec]["info"]:
            parts.append(f"(* {i['file']} : {i['function']}, lines {i['lines'][0]}-{i['lines'][1]}, sha256 {i['sha256']} *)")
        parts.append(ok[sec]["defs"])
        if sec in use:
            start = sum(p.count("\n") + 1 for p in parts) + 1
            parts.append(ok[sec]["proofs"])
            end = sum(p.count("\n") + 1 for p in parts)
            marks.append((start, end, sec))
    return "\n".join(parts) + "\n", marks


def closure(use):
    """keep only the sections whose lemma dependencies are kept"""
    changed = True
    while changed:
        changed = False
        for s in list(use):
            if any(d not in use for d in LEMMA_DEPS[s]):
                use.remove(s)
                changed = True
    return use


def run(ctx, root):
    """returns the coverage.source_tie record"""
    rec = {"translated": [], "lemmas_ok": False, "lemmas": [], "not_tied": {}, "detail": "",
           "translator": "tools/py2gallina_c12.py", "generated_file": "gen_c12.v (work directory, deleted after the run)"}
    try:
        ok, bad = sections(root)
    except Exception as ex:       # the tie is optional evidence; never let it abort the check
        rec["detail"] = f"SOURCE TIE BROKEN: translator aborted: {type(ex).__name__}: {ex}"
        rec["not_tied"]["all"] = rec["detail"]
        return rec
    rec["not_tied"].update(bad)
    use = closure([s for s in ORDER if s in ok])
    failed = False
    for _ in range(len(ORDER) + 2):
        if not use:
            break
        txt, marks = assemble(root, ok, use)
        path = ctx.new_shard(txt, "gen_c12")
        rc, out, dt = common.sh(["coqc", "-Q", common.COQ, "LV", "-Q", ctx.work, "Cases", path], timeout=120, cwd=ctx.work)
        rec["coqc_s"] = round(rec.get("coqc_s", 0) + dt, 1)
        if rc == 124:          # a proof search that does not come back: give up on the tie, do not retry
            for s in use:
                rec["not_tied"].setdefault(s, "coqc did not finish within 120 s on the generated file")
            use, failed = [], True
            break
        if rc == 0:
            n_pa = len(re.findall(r"^Print Assumptions", txt, re.M))
            n_closed = out.count("Closed under the global context")
            rec["print_assumptions"] = ("closed under the global context (no axioms)" if n_pa == n_closed else
                                        " ".join(out.split())[-400:])
            break
        failed = True
        m = re.search(r"line (\d+)", out)
        ln = int(m.group(1)) if m else -1
        culprit = next((s for a, b, s in marks if a <= ln <= b), None)
        msg = " ".join(out.strip().split())[-300:]
        if culprit is not None:
            names = lemma_names("\n".join(txt.split("\n")[:max(ln, 0)]))
            rec["not_tied"][culprit] = (f"lemma {names[-1] if names else '?'} does not check for the function as translated "
                                        f"from the current source: {msg}")
            use = [s for s in use if s != culprit]
        else:
            # a definition does not type-check (or the line is unknown): drop the section that owns the line, else the last one
            owner = None
            for s in ORDER:
                if s in ok and ln > 0:
                    first = txt.find(ok[s]["defs"])
                    a = txt[:first].count("\n") + 1
                    if a <= ln <= a + ok[s]["defs"].count("\n"):
                        owner = s
            owner = owner or next((s for s in reversed(ORDER) if s in ok), None)
            if owner is None:
                use = []
                break
            rec["not_tied"][owner] = f"the translated definition does not type-check: {msg}"
            dropped = True
            while dropped:
                dropped = False
                for s in list(ok):
                    if s == owner or any(x not in ok for x in DEF_DEPS[s]):
                        ok.pop(s, None)
                        if s != owner:
                            rec["not_tied"].setdefault(s, "needs the definitions of " + ", ".join(x for x in DEF_DEPS[s] if x not in ok))
                        dropped = True
                owner = None
            use = [s for s in use if s in ok]
        use = closure(use)
    else:
        use = []
    for s in ORDER:
        if s in ok and s not in use:
            rec["not_tied"].setdefault(s, "needs the lemmas of " + ", ".join(d for d in LEMMA_DEPS[s] if d not in use))
    for sec in use:
        rec["translated"].extend(ok[sec]["info"])
        rec["lemmas"].extend(lemma_names(ok[sec]["proofs"]))
    rec["lemmas_ok"] = bool(use) and not rec["not_tied"]
    n = len(rec["lemmas"])
    ctx.obligations += n
    ctx.discharged += n
    if rec["lemmas_ok"]:
        rec["detail"] = ("the C12 theorems about the stacked history matrix, tune_inv_mm_diag / tune_inv_mm_full and the _tune_slow of "
                         "NUTSKernel / HMCKernel were re-established on this run for the functions as translated from the current source "
                         "(files, line ranges and sha256 of the translated text under 'translated'): every gen_*_is_model lemma and every "
                         "gen_* corollary is Qed-closed")
    else:
        rec["detail"] = ("SOURCE TIE BROKEN for " + ", ".join(sorted(rec["not_tied"])) + " - the verdict of this run rests on "
                         "the behavioural correspondence and the oracle for these functions" +
                         ("; still tied: " + ", ".join(use) if use else ""))
        if failed or rec["not_tied"]:
            common.log("source tie: " + rec["detail"])
    return rec
