"""C09, layer F: real float Liesel models sampled by the real Engine with the built-in kernels.

Model family (sizes, data, node classes and kernel assignment are drawn per configuration):

    X (Data n x p)   beta ~ N(0, tau_c)   mu0 ~ N(0, 10)   log_sigma ~ N(0, 3)   log_tau ~ N(0, 2)   free ~ N(0, 1)
    tau_c  = exp(log_tau)                       Calc or TransientCalc
    eta    = X @ beta + mu0                     Calc
    sigma  = exp(log_sigma)                     Calc or TransientCalc
    y ~ N(eta, sigma)                           observed
    eta_sq = eta ** 2                           Calc    (second level)
    zjoin  = sum(eta) * sigma                   Calc    (joins two blocks)
    xtx    = X.T @ X                            Calc    (derived from data only: no kernel may change it)
    free_sq = free ** 2                         Calc    (derived from a parameter that has no likelihood part)
    log_mu0 = log(mu0), sqrt_free = sqrt(free), log_log_sigma = log(log_sigma)
                                                Calc    (off the log-prob path; nan / -inf for part of the positions)
    free_cube = free ** 3, eta_abs = |eta|      FNode(lsl.Node): cached nodes of a user-defined node class
    probe_j                                     Data    (one per kernel; written by the harness' probe kernels)

After every kernel of the sequence a GibbsKernel of the harness ("probe") copies every stored value and every
outdated flag of the model state it receives into probe_j.  Everything is read back from SamplingResults.
A stored node counts as changed by a kernel when it differs by more than a few float32 ulps (see SAME_RTOL).
"""
from __future__ import annotations

import json
import time

import numpy as np

PARAMS = ["beta", "mu0", "log_sigma", "log_tau", "free"]
KINDS = ["rw", "iwls", "mh", "gibbs", "hmc", "nuts"]
MH_TYPE = {"rw", "iwls", "mh"}
RTOL, ATOL = 2e-4, 2e-4
# "unchanged" for the frame: equal up to a few float32 ulps.  Bit-identity is NOT demanded: XLA may materialise a fused
# elementwise producer (e.g. the harness' Gibbs draw) once per consumer with different rounding (FMA contraction);
# 1-ulp differences between the value a probe saw and the value carried on were observed on the unchanged tree.
SAME_RTOL, SAME_ATOL = 2e-6, 1e-7


def same(a, b):
    return bool(np.allclose(a, b, rtol=SAME_RTOL, atol=SAME_ATOL, equal_nan=True))


def gibbs_update(xp, old, eta_mean, free):
    """the deterministic 'draw' of the harness' Gibbs kernels: a function of the state the kernel receives"""
    return 0.7 * old + 0.1 * xp.tanh(eta_mean) + 0.05 * free + 0.01


def build_model(cfg):
    import jax.numpy as jnp
    import liesel.model as lsl
    import tensorflow_probability.substrates.jax.distributions as tfd
    rng = np.random.default_rng(cfg["data_seed"])
    n, p = cfg["n"], cfg["p"]
    X = rng.normal(size=(n, p)).astype(np.float32)
    yv = (X @ rng.normal(size=p) + 0.5 + 0.7 * rng.normal(size=n)).astype(np.float32)
    Xn = lsl.Data(jnp.asarray(X), _name="X")
    log_tau = lsl.Var(jnp.asarray(0.1, dtype=jnp.float32), lsl.Dist(tfd.Normal, loc=0.0, scale=2.0), name="log_tau")
    log_tau.parameter = True
    cls_tau = lsl.TransientCalc if cfg["tau_transient"] else lsl.Calc
    tau_c = cls_tau(jnp.exp, log_tau, _name="tau_c")
    beta = lsl.Var(jnp.asarray(rng.normal(size=p) * 0.1, dtype=jnp.float32), lsl.Dist(tfd.Normal, loc=0.0, scale=tau_c), name="beta")
    beta.parameter = True
    mu0 = lsl.Var(jnp.asarray(0.2, dtype=jnp.float32), lsl.Dist(tfd.Normal, loc=0.0, scale=10.0), name="mu0")
    mu0.parameter = True
    log_sigma = lsl.Var(jnp.asarray(0.0, dtype=jnp.float32), lsl.Dist(tfd.Normal, loc=0.0, scale=3.0), name="log_sigma")
    log_sigma.parameter = True
    free = lsl.Var(jnp.asarray(0.3, dtype=jnp.float32), lsl.Dist(tfd.Normal, loc=0.0, scale=1.0), name="free")
    free.parameter = True
    eta = lsl.Calc(lambda X, b, m: X @ b + m, Xn, beta, mu0, _name="eta")
    cls_sig = lsl.TransientCalc if cfg["sigma_transient"] else lsl.Calc
    sigma = cls_sig(jnp.exp, log_sigma, _name="sigma")
    y = lsl.Var(jnp.asarray(yv), lsl.Dist(tfd.Normal, loc=eta, scale=sigma), name="y")
    y.observed = True
    eta_sq = lsl.Calc(lambda e: e ** 2, eta, _name="eta_sq")
    zjoin = lsl.Calc(lambda e, s: jnp.sum(e) * s, eta, sigma, _name="zjoin")
    xtx = lsl.Calc(lambda X: X.T @ X, Xn, _name="xtx")
    free_sq = lsl.Calc(lambda f: f ** 2, free, _name="free_sq")
    # cached derived nodes that are NOT upstream of the log-probability and become non-finite for part of the positions
    # (nan for a negative argument, -inf at 0): they must be carried like any other derived quantity - after an accepted
    # move they hold nan / -inf exactly when the recomputation from the stored parameters does
    log_mu0 = lsl.Calc(jnp.log, mu0, _name="log_mu0")
    sqrt_free = lsl.Calc(jnp.sqrt, free, _name="sqrt_free")
    log_log_sigma = lsl.Calc(jnp.log, log_sigma, _name="log_log_sigma")

    class FNode(lsl.Node):
        """a caching node that is neither a Calc nor a Dist: derives directly from lsl.Node and implements update() the way
        Calc does (user-defined node classes are part of the public API; lsl.PIT's node is one in newer versions)"""

        def __init__(self, function, *inputs, _name=""):
            super().__init__(*inputs, _name=_name)
            self._function = function

        def update(self):
            self._value = self._function(*[i.value for i in self.inputs])
            self._outdated = False
            return self

    free_cube = FNode(lambda f: f ** 3, free, _name="free_cube")
    eta_abs = FNode(jnp.abs, eta, _name="eta_abs")
    gb = lsl.GraphBuilder()
    gb.add(y, beta, mu0, log_sigma, log_tau, free, eta_sq, zjoin, xtx, free_sq, log_mu0, sqrt_free, log_log_sigma, free_cube, eta_abs)
    return gb, lsl


def extract(model, lsl):
    """graph of the built model through the public API; deterministic topological order"""
    nodes = dict(model.nodes)
    info = {}
    for name, nd in nodes.items():
        ins = list(nd.inputs) + list(nd.kwinputs.values())
        if isinstance(nd, lsl.Dist) and nd.at is not None:
            ins.append(nd.at)
        kind = "V" if isinstance(nd, lsl.Value) else ("T" if isinstance(nd, lsl.TransientNode) else "C")
        info[name] = {"kind": kind, "ins": [x.name for x in ins]}
    order, done = [], set()
    while len(order) < len(info):
        ready = sorted(nm for nm, d in info.items() if nm not in done and all(i in done for i in d["ins"]))
        assert ready, "node graph of the built model is cyclic"
        order.append(ready[0])
        done.add(ready[0])
    pos = {nm: i for i, nm in enumerate(order)}
    return order, [info[nm]["kind"] for nm in order], [[pos[i] for i in info[nm]["ins"]] for nm in order]


def run_config(cfg):
    """build model + engine, sample, read everything back; returns the case dict"""
    import logging
    logging.getLogger("liesel").setLevel(logging.ERROR)
    import jax
    import jax.numpy as jnp
    import liesel.goose as gs
    from liesel.goose.epoch import EpochConfig, EpochType
    t0 = time.time()
    gb, lsl = build_model(cfg)
    blocks = cfg["blocks"]               # list of {"kind":..., "params":[...]}
    # shapes of the tracked nodes are known after a first build; build once without probes to learn D
    gb0, _ = build_model(cfg)
    m0 = gb0.build_model()
    order0, kinds0, _ = extract(m0, lsl)
    tracked = [nm for nm, k in zip(order0, kinds0) if k != "T"]
    allnames = list(order0)
    sizes = [int(np.size(np.asarray(m0.nodes[nm].value))) for nm in tracked]
    D = sum(sizes) + len(allnames)
    probes = [lsl.Data(jnp.zeros(D, dtype=jnp.float32), _name=f"probe_{j}") for j in range(len(blocks))]
    gb.add(*probes)
    model = gb.build_model()
    order, kinds, ins = extract(model, lsl)
    pos = {nm: i for i, nm in enumerate(order)}
    model.auto_update = bool(cfg.get("auto_at_creation", True))
    if cfg.get("iface") == "goose":
        import warnings
        with warnings.catch_warnings():
            warnings.simplefilter("ignore")
            iface = lsl.GooseModel(model)
    else:
        iface = gs.LieselInterface(model)

    def probe_fn(j):
        def fn(key, ms):
            parts = [jnp.ravel(ms[nm].value).astype(jnp.float32) for nm in tracked]
            parts.append(jnp.stack([jnp.asarray(ms[nm].outdated) for nm in allnames]).astype(jnp.float32))
            return {f"probe_{j}": jnp.concatenate(parts)}
        return fn

    def gibbs_fn(params):
        def fn(key, ms):
            em = jnp.mean(ms["eta"].value)
            fr = ms["free_value"].value
            return {p: gibbs_update(jnp, ms[p + "_value"].value, em, fr) for p in params}
        return fn

    def mh_prop(params):
        def fn(key, ms, step):
            out = {}
            for i, p in enumerate(params):
                v = ms[p + "_value"].value
                out[p] = v + step * 0.3 * jax.random.normal(jax.random.fold_in(key, i), jnp.shape(v))
            return gs.MHProposal(out, 0.0)
        return fn

    builder = gs.EngineBuilder(seed=cfg["seed"], num_chains=cfg["chains"])
    builder.set_model(iface)
    builder.set_initial_values(model.state)
    for j, b in enumerate(blocks):
        ps = list(b["params"])
        kind = b["kind"]
        if kind == "rw":
            k = gs.RWKernel(ps, initial_step_size=0.3)
        elif kind == "iwls":
            k = gs.IWLSKernel(ps, initial_step_size=0.5)
        elif kind == "mh":
            k = gs.MHKernel(ps, mh_prop(ps), initial_step_size=1.0)
        elif kind == "gibbs":
            k = gs.GibbsKernel(ps, gibbs_fn(ps))
        elif kind == "hmc":
            k = gs.HMCKernel(ps, num_integration_steps=3, initial_step_size=0.05)
        else:
            # max_treedepth 1: every transition reaches the maximum tree depth (error code 2) and is a valid move
            k = gs.NUTSKernel(ps, max_treedepth=b.get("max_treedepth", 3), initial_step_size=0.05)
        builder.add_kernel(k)
        builder.add_kernel(gs.GibbsKernel([f"probe_{j}"], probe_fn(j)))
    epochs = [EpochConfig(EpochType.INITIAL_VALUES, 1, 1, None)]
    for ety, dur in cfg["epochs"]:
        epochs.append(EpochConfig(getattr(EpochType, ety), dur, 1, None))
    builder.set_epochs(epochs)
    builder.positions_included = [nm for nm in tracked if not any(nm == p + "_value" for p in PARAMS)]
    builder.show_progress = False
    engine = builder.build()
    engine.sample_all_epochs()
    res = engine.get_results()
    samples = {k: np.asarray(v) for k, v in res.get_samples().items()}
    infos = res.transition_infos.combine_all().unwrap()
    kernel_ids = [k.identifier for k in engine._kernel_sequence.get_kernels()] if hasattr(engine, "_kernel_sequence") else None
    kids = list(infos.keys())
    # the builder names kernels kernel_00, kernel_01, ... in the order they were added
    kids_sorted = sorted(kids)
    moved, codes, accs = {}, {}, {}
    for j, b in enumerate(blocks):
        inf = infos[kids_sorted[2 * j]]
        codes[j] = np.asarray(inf.error_code)
        accs[j] = np.asarray(inf.acceptance_prob)
        if b["kind"] in MH_TYPE:
            moved[j] = np.asarray(inf.position_moved).astype(bool)
        else:
            moved[j] = None
    init_state = model.state
    init_vec = np.concatenate([np.ravel(np.asarray(init_state[nm].value, dtype=np.float32)) for nm in tracked]
                              + [np.asarray([bool(init_state[nm].outdated) for nm in allnames], dtype=np.float32)])
    T = samples["probe_0"].shape[1]
    nin = 1    # the INITIAL_VALUES epoch stores the initial position once
    offs = np.cumsum([0] + sizes)
    case = {"layer": "F", "cfg": cfg, "order": order, "kinds": kinds, "ins": ins, "tracked": tracked, "allnames": allnames,
            "sizes": sizes, "wall": None}
    # frame observations
    fkernels = [{"mh": b["kind"] in MH_TYPE, "keys": [pos[p + "_value"] for p in b["params"]], "kind": b["kind"],
                 "params": b["params"]} for b in blocks]
    fsteps, steps_full = [], []
    anomalies = []
    for ch in range(cfg["chains"]):
        prev = init_vec
        for t in range(nin, T):
            for j in range(len(blocks)):
                cur = samples[f"probe_{j}"][ch, t]
                changed = []
                for ti, nm in enumerate(tracked):
                    a = prev[offs[ti]:offs[ti + 1]]
                    b = cur[offs[ti]:offs[ti + 1]]
                    if not same(a, b):
                        changed.append(pos[nm])
                mv = True if moved[j] is None else bool(moved[j][ch, t - nin])
                fsteps.append({"kernel": j, "moved": mv, "changed": sorted(changed)})
                steps_full.append({"chain": ch, "t": t, "kernel": j, "moved": mv, "pre": prev, "post": cur,
                                   "code": int(codes[j][ch, t - nin]), "acc": float(accs[j][ch, t - nin])})
                prev = cur
            # the state the engine stored for this iteration is what the last kernel returned
            for ti, nm in enumerate(tracked):
                if nm in samples:
                    sv = np.ravel(samples[nm][ch, t]).astype(np.float32)
                    if not same(sv, prev[offs[ti]:offs[ti + 1]]):
                        anomalies.append(f"chain {ch} iteration {t}: stored {nm} differs from the state the last kernel returned")
    case.update(fkernels=fkernels, fsteps=fsteps, anomalies=anomalies[:5])
    case["_steps_full"] = steps_full
    case["_model"] = model
    case["wall"] = round(time.time() - t0, 1)
    return case


def check_case(case):
    """direct oracle on the observations (needs the live objects; returns None | message and strips them)"""
    steps = case.pop("_steps_full")
    model = case.pop("_model")
    import jax.numpy as jnp
    tracked, allnames, sizes = case["tracked"], case["allnames"], case["sizes"]
    kinds = dict(zip(case["order"], case["kinds"]))
    offs = np.cumsum([0] + sizes)
    nt = int(offs[-1])
    blocks = case["cfg"]["blocks"]

    def get(vec, nm):
        ti = tracked.index(nm)
        return vec[offs[ti]:offs[ti + 1]]

    if case["anomalies"]:
        return case["anomalies"][0]
    shapes = {nm: np.shape(np.asarray(model.nodes[nm].value)) for nm in tracked}
    model.auto_update = False
    nrec = 0
    for s in steps:
        post, pre = s["post"], s["pre"]
        b = blocks[s["kernel"]]
        where = f"chain {s['chain']}, iteration {s['t']}, after kernel {s['kernel']} ({b['kind']} on {b['params']})"
        flags = post[nt:]
        if flags.any():
            return f"{where}: nodes {[nm for nm, f in zip(allnames, flags) if f]} are flagged outdated in the model state"
        # (b) derived quantities = recomputation from the stored parameters (fresh evaluation by the user's model)
        for nm in tracked:
            if kinds[nm] == "V" and not nm.startswith("probe_"):
                model.nodes[nm].value = jnp.asarray(get(post, nm).reshape(shapes[nm]))
        model.update()
        nrec += 1
        for nm in tracked:
            if kinds[nm] == "C":
                ref = np.ravel(np.asarray(model.nodes[nm].value, dtype=np.float32))
                got = get(post, nm)
                if not np.allclose(got, ref, rtol=RTOL, atol=ATOL, equal_nan=True):     # nan must be nan, inf must be inf
                    dif = np.abs(got - ref)
                    i = int(np.argmax(np.where(np.isnan(dif), np.inf, dif)))
                    return (f"{where}: stored {nm}[{i}] = {got[i]!r}, recomputed from the stored parameter values it is {ref[i]!r}")
        # the derived nodes of a user-defined node class, against their closed form (a fresh model would share a defect of
        # Model.update for such classes)
        for nm, ref in (("free_cube", get(post, "free_value") ** 3), ("eta_abs", np.abs(get(post, "eta")))):
            got = get(post, nm)
            if not np.allclose(got, ref, rtol=RTOL, atol=ATOL, equal_nan=True):
                i = int(np.argmax(np.abs(got - ref)))
                return (f"{where}: stored {nm}[{i}] = {got[i]!r} (a cached node of a user-defined lsl.Node subclass), from the "
                        f"stored values it is {ref[i]!r}")
        nf = [nm for nm in tracked if kinds[nm] == "C" and not np.isfinite(get(post, nm)).all()]
        if nf:
            case["nonfinite_states"] = case.get("nonfinite_states", 0) + 1
            if b["kind"] in MH_TYPE and s["moved"] and any(not same(get(pre, nm), get(post, nm)) for nm in nf):
                case["nonfinite_accepts"] = case.get("nonfinite_accepts", 0) + 1
        # deterministic Gibbs write from the state the predecessor left
        if b["kind"] == "gibbs":
            em = np.float32(np.mean(get(pre, "eta")))
            fr = get(pre, "free_value")[0]
            for p in b["params"]:
                want = gibbs_update(np, get(pre, p + "_value"), em, fr).astype(np.float32)
                got = get(post, p + "_value")
                if not np.allclose(got, want, rtol=1e-5, atol=1e-6):
                    return (f"{where}: wrote {p} = {got.tolist()}; computed from the state its predecessor left the write is {want.tolist()}")
        # an accepted MH-type step moves its block
        if b["kind"] in MH_TYPE and s["moved"]:
            if all(np.array_equal(get(pre, p + "_value").view(np.uint32), get(post, p + "_value").view(np.uint32)) for p in b["params"]):
                if not np.isnan(post[:nt]).any():
                    return f"{where}: the kernel reports an accepted move but the next kernel received its block unchanged"
    case["recomputations"] = nrec
    # a kernel that reports a non-zero error code for a valid transition (NUTS: 2 = maximum tree depth reached) still
    # returns the state it moved to: its successors must receive it
    for j, b in enumerate(blocks):
        if b["kind"] != "nuts":
            continue
        flagged = [s for s in steps if s["kernel"] == j and s["code"] != 0 and s["acc"] > 0.3]
        clean = [s for s in steps if s["kernel"] == j and s["code"] == 0]
        def moved_block(s):
            return any(not same(get(s["pre"], p + "_value"), get(s["post"], p + "_value")) for p in b["params"])
        case.setdefault("nuts_flagged", 0)
        case["nuts_flagged"] += len(flagged)
        if len(flagged) >= 6 and not any(moved_block(s) for s in flagged):
            s0 = flagged[0]
            return (f"kernel {j} (nuts on {b['params']}, max_treedepth {b.get('max_treedepth', 3)}) reported {len(flagged)} transitions "
                    f"with a non-zero error code (first: chain {s0['chain']}, iteration {s0['t']}, code {s0['code']}, acceptance "
                    f"{s0['acc']:.3f}); in none of them did its successor receive a moved block"
                    + (f", while {sum(moved_block(s) for s in clean)} of its {len(clean)} transitions with code 0 moved it" if clean else ""))
    return None


def frame_oracle(case):
    """frame read literally (python mirror of the Coq check; used to name the failing input)"""
    n = len(case["order"])
    ins = case["ins"]
    desc = [set() for _ in range(n)]
    anc = [set() for _ in range(n)]
    for k in range(n):
        for i in ins[k]:
            anc[k].add(i)
            anc[k] |= anc[i]
    for k in range(n):
        for a in anc[k]:
            desc[a].add(k)
    for idx, s in enumerate(case["fsteps"]):
        k = case["fkernels"][s["kernel"]]
        allowed = set(k["keys"])
        for x in k["keys"]:
            allowed |= desc[x]
        out = [case["order"][c] for c in s["changed"] if c not in allowed]
        if out:
            return (f"transition {idx} (kernel {s['kernel']}: {k['kind']} on {k['params']}): changed {out}, which are neither its "
                    f"position keys nor derived from them")
        if k["mh"] and not s["moved"] and s["changed"]:
            return (f"transition {idx} (kernel {s['kernel']}: {k['kind']} on {k['params']}): rejected, but "
                    f"{[case['order'][c] for c in s['changed']]} changed")
    return None


def gen_cfg(rnd, i, quick):
    params = list(PARAMS)
    rnd.shuffle(params)
    nb = rnd.randint(2, 4)
    blocks = [[params[j]] for j in range(nb)]
    for p in params[nb:]:
        if rnd.random() < 0.6:
            rnd.choice(blocks).append(p)
    kinds_cycle = KINDS[i % len(KINDS):] + KINDS[:i % len(KINDS)]
    out = []
    for j, b in enumerate(blocks):
        kind = kinds_cycle[j % len(kinds_cycle)] if j < 2 else rnd.choice(KINDS)
        blk = {"kind": kind, "params": sorted(b)}
        if kind == "nuts" and rnd.random() < 0.5:
            blk["max_treedepth"] = 1
        out.append(blk)
    epochs = rnd.choice([[["FAST_ADAPTATION", 4], ["POSTERIOR", 4]],
                         [["BURNIN", 4], ["POSTERIOR", 4]],
                         [["FAST_ADAPTATION", 4], ["SLOW_ADAPTATION", 4], ["POSTERIOR", 4]]])
    return {"n": rnd.randint(4, 8), "p": rnd.randint(1, 3), "data_seed": rnd.randrange(10 ** 6), "seed": rnd.randrange(10 ** 6),
            "chains": rnd.choice([1, 2, 3]), "tau_transient": rnd.random() < 0.5, "sigma_transient": rnd.random() < 0.5,
            "blocks": out, "epochs": epochs, "iface": ["liesel", "goose"][i % 2], "auto_at_creation": (i // 2) % 2 == 0}


CORPUS_F = [
    {"n": 6, "p": 2, "data_seed": 1, "seed": 11, "chains": 2, "tau_transient": False, "sigma_transient": True,
     "iface": "goose", "auto_at_creation": False,
     "blocks": [{"kind": "nuts", "params": ["beta", "mu0"]}, {"kind": "gibbs", "params": ["log_tau"]},
                {"kind": "rw", "params": ["log_sigma"]}],
     "epochs": [["FAST_ADAPTATION", 4], ["POSTERIOR", 4]]},
    {"n": 5, "p": 1, "data_seed": 2, "seed": 12, "chains": 1, "tau_transient": True, "sigma_transient": False,
     "iface": "liesel", "auto_at_creation": False,
     "blocks": [{"kind": "iwls", "params": ["beta"]}, {"kind": "mh", "params": ["free"]},
                {"kind": "nuts", "params": ["log_sigma"], "max_treedepth": 1},
                {"kind": "hmc", "params": ["mu0"]}, {"kind": "gibbs", "params": ["log_tau"]}],
     "epochs": [["BURNIN", 4], ["POSTERIOR", 4]]},
]


def generate(ctx, rnd):
    nf = 3 if ctx.quick else 14
    cfgs = [json.loads(json.dumps(c)) for c in CORPUS_F[:2 if not ctx.quick else 2]]
    i = 0
    while len(cfgs) < nf:
        cfgs.append(gen_cfg(rnd, i, ctx.quick))
        i += 1
    cases = []
    for cfg in cfgs:
        try:
            c = run_config(cfg)
            c["direct"] = check_case(c)
        except Exception as ex:
            import traceback
            c = {"layer": "F", "cfg": cfg, "anomaly": f"sampling this configuration raises {ex!r}: "
                 + " | ".join(traceback.format_exc().strip().splitlines()[-4:])}
        cases.append(c)
    return cases


def histogram(ctx, c):
    if c.get("anomaly"):
        ctx.hist("F.config.raises")
        return
    ctx.hist("F.configs")
    ctx.hist("F.chains.%d" % c["cfg"]["chains"])
    ctx.hist(f"F.interface.{c['cfg'].get('iface', 'liesel')}.auto_update_at_creation_{c['cfg'].get('auto_at_creation', True)}")
    for b in c["cfg"]["blocks"]:
        ctx.hist("F.kernel." + b["kind"])
    for ety, _ in c["cfg"]["epochs"]:
        ctx.hist("F.epoch." + ety)
    ctx.hist("F.nuts_transitions_with_nonzero_error_code", c.get("nuts_flagged", 0))
    ctx.hist("F.states_with_nonfinite_derived_node", c.get("nonfinite_states", 0))
    ctx.hist("F.accepted_mh_type_moves_into_nonfinite_derived_node", c.get("nonfinite_accepts", 0))
    for s in c["fsteps"]:
        k = c["fkernels"][s["kernel"]]
        ctx.hist(f"F.transition.{k['kind']}." + ("moved" if s["moved"] else "rejected"))
    ctx.hist("F.recomputations", c.get("recomputations", 0))


def oracle(c):
    if c.get("anomaly"):
        return c["anomaly"]
    return c.get("direct") or frame_oracle(c)


def replay(c) -> int:
    try:
        cc = run_config(c["cfg"])
        cc["direct"] = check_case(cc)
    except Exception as ex:
        print("REPLAY FAILS: sampling this configuration raises", repr(ex))
        return 1
    print("configuration:", json.dumps(c["cfg"]))
    print("nodes:", dict(enumerate(cc["order"])))
    r = oracle(cc)
    if r:
        print("REPLAY FAILS:", r)
        return 1
    print("replay passes on the current tree")
    return 0
