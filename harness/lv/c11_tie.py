"""C11 source tie: Gallina definitions translated from the current Python source of liesel/goose/da.py
(da_init, da_step, da_finalize) and of TransitionMixin.transition (kernel.py; with EpochType.is_adaptation
from epoch.py) by tools/py2gallina_c11.py, + Qed-closed lemmas that they are extensionally equal to the
hand-written model (coq/Goose/DA.v) + the main C11 theorems re-stated for the translated functions.
Never raises an alarm by itself: the caller (c11.py) records the outcome in the evidence
(coverage.source_tie) and keeps the behavioural correspondence and the oracle for the verdict.
"""
from __future__ import annotations

import importlib.util
import os
import re

from . import common

TOOL = os.path.join(common.VERIF, "tools", "py2gallina_c11.py")

HEADER = """(* GENERATED on this run by tools/py2gallina_c11.py from the Python source under {root} - do not edit *)
From Coq Require Import Reals List Bool Arith ZArith Lra.
Import ListNotations.
From LV Require Import Goose.DA Goose.DAProofs Goose.GenC11Tie.
"""

# definition sections (one per translated function) in the order they are written
SECTIONS = ["init", "step", "finalize", "dispatch"]

# proof blocks: (name, definition sections needed, proof blocks needed, text)
BLOCKS = [
    ("init", ["init"], [], """
Lemma gen_da_init_is_model : init_eq gen_da_init.
Proof. intros [s e l m]. unfold gen_da_init, da_init. cbv zeta. cbn [step esum lavg mu]. tie_da. Qed.
"""),
    ("step", ["step"], [], """
Lemma gen_da_step_is_model : step_eq gen_da_step.
Proof.
  intros c [s e l m] a tie. unfold step_c, gen_da_step, da_step, da_eta. cbv zeta.
  cbn [step esum lavg mu]. tie_da.
Qed.
"""),
    ("step_defaults", ["step"], [], """
(* the default constants of da_step in the source are the model's c_default *)
Lemma gen_da_step_defaults_are_model :
  gen_da_step_defaults = [c_delta c_default; c_gamma c_default; c_kappa c_default; c_t0 c_default].
Proof.
  unfold gen_da_step_defaults, c_default. cbn [c_delta c_gamma c_kappa c_t0].
  repeat first [ reflexivity | lra | f_equal ].
Qed.
"""),
    ("finalize", ["finalize"], [], """
Lemma gen_da_finalize_is_model : fin_eq gen_da_finalize.
Proof. intros [s e l m]. unfold gen_da_finalize, da_finalize. cbv zeta. cbn [step esum lavg mu]. tie_da. Qed.
"""),
    ("dispatch", ["dispatch"], [], """
Lemma gen_is_adaptation_is_model : forall e, gen_is_adaptation (ecode e) = is_adaptation e.
Proof. intros e; destruct e; reflexivity. Qed.

Lemma gen_transition_is_model : trans_eq gen_transition.
Proof.
  intros A O f g e x. unfold gen_transition. cbv zeta. rewrite gen_is_adaptation_is_model. reflexivity.
Qed.

(* C11_frozen / C11_frozen_mh_untuned for the dispatch translated from the source (whatever da_step is) *)
Theorem gen_frozen : forall (X : Type) gs k c ety (ks : kstate X) a tie,
  ety = Burnin \\/ ety = Post \\/ ety = Initial ->
  g_transition gen_transition gs k c ety ks a tie = ks.
Proof. intros X gs. exact (tie_frozen gen_transition gs gen_transition_is_model). Qed.

Theorem gen_frozen_mh_untuned : forall (X : Type) gs c ety (ks : kstate X) a tie,
  g_transition gen_transition gs (MH false) c ety ks a tie = ks.
Proof. intros X gs. exact (tie_frozen_mh_untuned gen_transition gs gen_transition_is_model). Qed.
"""),
    ("cor_step", ["step"], ["step"], """
(* C11_monotone, C11_monotone_hyps_needed, C11_first_avg_independent for the da_step translated from the source *)
Theorem gen_monotone : forall c ks a a' tie,
  0 < c_gamma c -> 0 < c_t0 c + INR (tie + 1) -> a <= a' ->
  step (step_c gen_da_step c ks a tie) <= step (step_c gen_da_step c ks a' tie)
  /\\ lavg (step_c gen_da_step c ks a tie) <= lavg (step_c gen_da_step c ks a' tie).
Proof. exact (tie_monotone gen_da_step gen_da_step_is_model). Qed.

Theorem gen_monotone_hyps_needed :
  (exists c ks a a' tie, c_gamma c < 0 /\\ 0 < c_t0 c + INR (tie + 1) /\\ a < a'
    /\\ step (step_c gen_da_step c ks a' tie) < step (step_c gen_da_step c ks a tie))
  /\\ (exists c ks a a' tie, 0 < c_gamma c /\\ c_t0 c + INR (tie + 1) < 0 /\\ a < a'
    /\\ step (step_c gen_da_step c ks a' tie) < step (step_c gen_da_step c ks a tie)).
Proof. exact (tie_monotone_hyps_needed gen_da_step gen_da_step_is_model). Qed.

Theorem gen_first_avg_independent : forall c s m x0 x0' l, l <> [] ->
  g_steps gen_da_step c (mkDA s 0 x0 m) 0 l = g_steps gen_da_step c (mkDA s 0 x0' m) 0 l.
Proof. exact (tie_first_avg_independent gen_da_step gen_da_step_is_model). Qed.
"""),
    ("cor_init_step", ["init", "step"], ["init", "step"], """
(* C11_matches_nesterov, C11_matches_hoffman_gelman for da_init / da_step translated from the source *)
Theorem gen_matches_nesterov : forall c ks0 l, l <> [] ->
  let ks := g_steps gen_da_step c (gen_da_init ks0) 0 l in
  let m := ln (10 * step ks0) in
  esum ks = sum_err c l
  /\\ step ks = exp (lstep_spec c m l)
  /\\ ln (step ks) = lstep_spec c m l
  /\\ lavg ks = lavg_spec c m l
  /\\ mu ks = m.
Proof. exact (tie_matches_nesterov gen_da_init gen_da_step gen_da_init_is_model gen_da_step_is_model). Qed.

Theorem gen_matches_hoffman_gelman : forall c ks0 l,
  0 <= c_t0 c -> c_gamma c <> 0 -> l <> [] ->
  let ks := g_steps gen_da_step c (gen_da_init ks0) 0 l in
  let hg := hg_steps c (ln (10 * step ks0)) (mkHG 0 0 0) 1 l in
  step ks = exp (logeps hg)
  /\\ lavg ks = xbar hg
  /\\ esum ks = (INR (length l) + c_t0 c) * hbar hg.
Proof. exact (tie_matches_hoffman_gelman gen_da_init gen_da_step gen_da_init_is_model gen_da_step_is_model). Qed.
"""),
    ("cor_init_finalize", ["init", "finalize"], ["init", "finalize"], """
(* C11_empty_epoch for da_init / da_finalize translated from the source *)
Theorem gen_empty_epoch : forall ks, 0 < step ks -> step (gen_da_finalize (gen_da_init ks)) = step ks.
Proof. exact (tie_empty_epoch gen_da_init gen_da_finalize gen_da_init_is_model gen_da_finalize_is_model). Qed.
"""),
    ("cor_epoch", ["init", "step", "finalize"], ["init", "step", "finalize"], """
(* C11_finalize, C11_monotone_epoch for the whole epoch da_init ; da_step ... ; da_finalize translated from the source *)
Theorem gen_finalize : forall c ks0 l, l <> [] ->
  step (g_epoch gen_da_init gen_da_step gen_da_finalize c ks0 l) = exp (lavg_spec c (ln (10 * step ks0)) l)
  /\\ lavg (g_epoch gen_da_init gen_da_step gen_da_finalize c ks0 l) = lavg (g_steps gen_da_step c (gen_da_init ks0) 0 l)
  /\\ esum (g_epoch gen_da_init gen_da_step gen_da_finalize c ks0 l) = esum (g_steps gen_da_step c (gen_da_init ks0) 0 l)
  /\\ mu (g_epoch gen_da_init gen_da_step gen_da_finalize c ks0 l) = mu (g_steps gen_da_step c (gen_da_init ks0) 0 l).
Proof.
  exact (tie_finalize gen_da_init gen_da_step gen_da_finalize
           gen_da_init_is_model gen_da_step_is_model gen_da_finalize_is_model).
Qed.

Theorem gen_monotone_epoch : forall c ks0 l l',
  0 < c_gamma c -> 0 <= c_t0 c -> 0 <= c_kappa c -> l <> [] -> pointwise_le l l' ->
  step (g_epoch gen_da_init gen_da_step gen_da_finalize c ks0 l)
  <= step (g_epoch gen_da_init gen_da_step gen_da_finalize c ks0 l').
Proof.
  exact (tie_monotone_epoch gen_da_init gen_da_step gen_da_finalize
           gen_da_init_is_model gen_da_step_is_model gen_da_finalize_is_model).
Qed.
Print Assumptions gen_finalize.
"""),
    ("cor_dispatch_step", ["dispatch", "step"], ["dispatch", "step"], """
(* the model's transition is the translated dispatch over the translated da_step; C11_adaptive_transition *)
Lemma gen_transition_full_is_model : forall (X : Type) k c ety (ks : kstate X) a tie,
  g_transition gen_transition gen_da_step k c ety ks a tie = transition k c ety ks a tie.
Proof.
  intros X. exact (g_transition_is_model gen_transition gen_da_step gen_transition_is_model gen_da_step_is_model).
Qed.

Theorem gen_adaptive_transition : forall (X : Type) k c ety (ks : kstate X) a tie,
  is_adaptation ety = true -> tunes k = true ->
  g_transition gen_transition gen_da_step k c ety ks a tie = mkKS (step_c gen_da_step c (da ks) a tie) (rest ks).
Proof. intros X. exact (tie_adaptive_transition gen_transition gen_da_step gen_transition_is_model). Qed.
Print Assumptions gen_adaptive_transition.
"""),
]
BLOCK_FUNCS = {"init": "da_init", "step": "da_step", "step_defaults": "da_step (default constants)",
               "finalize": "da_finalize", "dispatch": "TransitionMixin.transition / EpochType.is_adaptation"}


def load_tool():
    spec = importlib.util.spec_from_file_location("py2gallina_c11", TOOL)
    mod = importlib.util.module_from_spec(spec)
    spec.loader.exec_module(mod)
    return mod


def lemma_names(txt):
    return re.findall(r"^(?:Lemma|Theorem|Corollary)\s+([A-Za-z0-9_']+)", txt, re.M)


def sections(root):
    """translate; returns ({section: {"text", "pre", "info"}}, {name: reason it is not available})"""
    tool = load_tool()
    res = tool.translate(root)
    ok, bad = {}, {}
    for sec in SECTIONS:
        d = res.get(sec, {"error": "not translated"})
        if "error" in d:
            bad[sec] = "translator failed closed: " + d["error"]
        else:
            ok[sec] = d
    skip = {}
    if "step" in ok:
        i = ok["step"]["info"][0]
        if len(i["params"]) != 6:
            bad["step"] = (f"da_step translated, but it takes the numeric parameters {i['params']}; the comparison with the model is "
                           "stated for the six positional ones the kernels pass (acceptance_prob, time_in_epoch, target_accept, "
                           "gamma, kappa, t0)")
            del ok["step"]
        elif len(i["defaults"]) != 4:
            skip["step_defaults"] = f"da_step has {len(i['defaults'])} default values, the model's c_default has four"
    return ok, bad, skip


def assemble(root, ok, use):
    """file text: the definitions of all translated sections, then the proof blocks in `use`"""
    parts = [HEADER.format(root=root)]
    defmarks, marks = [], []

    def nlines():
        return sum(p.count("\n") + 1 for p in parts)

    if "dispatch" in ok:
        start = nlines() + 1
        parts.append("Open Scope Z_scope.\n" + ok["dispatch"]["pre"] + "\nClose Scope Z_scope.")
        defmarks.append((start, nlines(), "dispatch"))
    parts.append("Open Scope R_scope.")
    for sec in SECTIONS:
        if sec not in ok:
            continue
        start = nlines() + 1
        for i in ok[sec]["info"]:
            parts.append(f"(* {i['file']} : {i['function']}, lines {i['lines'][0]}-{i['lines'][1]}, sha256 {i['sha256']} *)")
        parts.append(ok[sec]["text"])
        defmarks.append((start, nlines(), sec))
    for name, _, _, text in BLOCKS:
        if name in use:
            start = nlines() + 1
            parts.append(text)
            marks.append((start, nlines(), name))
    return "\n".join(parts) + "\n", defmarks, marks


def usable(ok, dropped):
    use = []
    for name, defs, needs, _ in BLOCKS:
        if name in dropped:
            continue
        if all(d in ok for d in defs) and all(n in use for n in needs):
            use.append(name)
    return use


def run(ctx, root):
    """returns the coverage.source_tie record"""
    rec = {"translated": [], "lemmas_ok": False, "lemmas": [], "not_tied": {}, "detail": "",
           "translator": "tools/py2gallina_c11.py", "generated_file": "gen_c11.v (work directory, deleted after the run)"}
    try:
        ok, bad, skip = sections(root)
    except Exception as ex:       # the tie is optional evidence; never let it abort the check
        rec["detail"] = f"SOURCE TIE BROKEN: translator aborted: {type(ex).__name__}: {ex}"
        rec["not_tied"]["all"] = rec["detail"]
        return rec
    rec["not_tied"].update(bad)
    rec["not_tied"].update(skip)
    dropped = set(skip)
    use = usable(ok, dropped)
    failed = False
    for _ in range(len(BLOCKS) + len(SECTIONS) + 1):
        if not use:
            break
        txt, defmarks, marks = assemble(root, ok, use)
        path = ctx.new_shard(txt, "gen_c11")
        rc, out, dt = common.sh(["coqc", "-Q", common.COQ, "LV", "-Q", ctx.work, "Cases", path], timeout=300, cwd=ctx.work)
        rec["coqc_s"] = round(rec.get("coqc_s", 0) + dt, 1)
        if rc == 0:
            ax = sorted(set(re.findall(r"^([A-Za-z_][A-Za-z0-9_.']*)\s*:", out, re.M)) - {"Axioms"})
            extra = [a for a in ax if a not in common.REALS_AXIOMS]
            rec["print_assumptions"] = ("only the standard-library axioms behind Reals: " + ", ".join(ax)) if not extra else \
                ("ADDITIONAL assumptions: " + ", ".join(extra))
            break
        failed = True
        m = re.search(r"line (\d+)", out)
        ln = int(m.group(1)) if m else -1
        msg = " ".join(out.strip().split())[-300:]
        sec = next((s for a, b, s in defmarks if a <= ln <= b), None)
        if sec is not None:        # a generated definition does not type-check: the section goes entirely
            ok.pop(sec, None)
            rec["not_tied"][sec] = f"the definitions generated for {sec} do not type-check: {msg}"
        else:
            blk = next((s for a, b, s in marks if a <= ln <= b), None)
            if blk is None:        # unknown position: give up on the last block
                blk = use[-1]
            upto = "\n".join(txt.split("\n")[:max(ln, 0)])
            names = lemma_names(upto)
            rec["not_tied"][blk] = (f"lemma {names[-1] if names else '?'} does not check for "
                                    f"{BLOCK_FUNCS.get(blk, 'the functions')} as translated from the current source: {msg}")
            dropped.add(blk)
        new = usable(ok, dropped)
        for name, defs, needs, _ in BLOCKS:       # say why the dependants are gone too
            if name in use and name not in new and name not in rec["not_tied"]:
                rec["not_tied"][name] = "needs " + ", ".join(x for x in dict.fromkeys(defs + needs) if x in rec["not_tied"]) + ", which is not tied"
        use = new
    else:
        use = []
    for name, defs, needs, _ in BLOCKS:           # blocks never attempted because a translation is missing
        if name not in use and name not in rec["not_tied"]:
            rec["not_tied"][name] = "needs " + ", ".join(x for x in dict.fromkeys(defs + needs) if x in rec["not_tied"]) + ", which is not tied"
    tied_secs = [s for s in SECTIONS if s in ok and s in use]
    for sec in tied_secs:
        rec["translated"].extend(ok[sec]["info"])
    rec["translated_but_not_proved_equal"] = [i for s in SECTIONS if s in ok and s not in use for i in ok[s]["info"]]
    for name, _, _, text in BLOCKS:
        if name in use:
            rec["lemmas"].extend(lemma_names(text))
    rec["lemmas_ok"] = bool(use) and not rec["not_tied"]
    n = len(rec["lemmas"])
    ctx.obligations += n
    ctx.discharged += n
    if rec["lemmas_ok"]:
        rec["detail"] = ("the C11 theorems about da_init / da_step / da_finalize and the transition dispatch were re-established on "
                         "this run for the functions as translated from the current source (files, line ranges and sha256 of the "
                         "translated text under 'translated'): every gen_*_is_model lemma and every gen_* corollary is Qed-closed")
    else:
        rec["detail"] = ("SOURCE TIE BROKEN for " + ", ".join(sorted(rec["not_tied"])) + " - the verdict of this run rests on "
                         "the behavioural correspondence and the oracle for these functions" +
                         ("; still tied: " + ", ".join(use) if use else ""))
        if failed or bad:
            common.log("source tie: " + rec["detail"])
    return rec
