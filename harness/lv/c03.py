"""C03 - the state-passing model interface (gs.LieselInterface / lsl.GooseModel, Dict-, Dataclass- and
NamedTupleInterface) is pure and equals direct assignment.

Graph cases: random REAL liesel models (generator of C01, Python-int node values, optional user-supplied
log-probability nodes, a family with a node and a variable sharing a name).  An interface is created on the
model (possibly after operations on the model, e.g. auto_update switched off) and a sequence of
update_state / extract_position / log_prob calls is made on a pool of model states (the model's own states,
earlier results, the same state object several times, failed calls in between), interleaved with operations
on the user's model.  Coq re-runs Iface.update_state etc. on the same sequence (vm_compute, Qed).
The oracle reads the property literally: result = from-scratch values of (state inputs overlaid with the
position) = what a fresh copy of the real model reaches by direct assignment + update() = what a fresh
interface returns; extract gives back the position; log_prob = model log_prob; nothing is mutated.
Node values include Python singletons (True, False, 0, 1), distributions have per-observation (vector) or summed
log-probs (c01's LP encoding), some Calc nodes are a harness subclass that keeps extra state information
(NodeState.extra; compared by the oracle only).
Flat cases: dict / dataclass (plain, init=False field, non-idempotent __post_init__) / named tuple.
JIT cases: array-valued models, eager vs jax.jit vs jax.vmap (tested, not proved).
"""
from __future__ import annotations

import copy
import json
import random
import time
import warnings

from . import common
from . import c01
from .common import lst, blit, natlit, zlit
from .c01 import PG, apply_fs

HEADER = """From Coq Require Import List ZArith Bool.
Import ListNotations.
From LV Require Import Base.ListAux Graph.Graph Graph.Iface Graph.CorrC01 Graph.CorrC03.
Open Scope Z_scope.
"""

NO_KEY = "no_such_key"


# ---------------------------------------------------------------------------------------------
# real models
# ---------------------------------------------------------------------------------------------
def digest(v):
    """the extra state information an ExtraCalc node keeps next to its value"""
    return (int(v) * 31 + 7) % c01.P


_EXTRA_CLS = []


def extra_calc_class():
    """a Calc subclass that carries extra information in its state (NodeState.extra, liesel's documented
    extension point): a digest of the value, computed by update(), saved / loaded through the state property"""
    if _EXTRA_CLS:
        return _EXTRA_CLS[0]
    from liesel.model.nodes import Calc, NodeState

    class ExtraCalc(Calc):
        def __init__(self, *a, **kw):
            self._digest = None
            super().__init__(*a, **kw)

        def update(self):
            super().update()
            self._digest = digest(self._value)
            return self

        @property
        def state(self):
            return NodeState(self.value, self.outdated, self._digest)

        @state.setter
        def state(self, state):
            self._value = state.value
            self._outdated = state.outdated
            self._digest = state.extra

    _EXTRA_CLS.append(ExtraCalc)
    return ExtraCalc


class Real3(c01.Real):
    """c01.Real plus (a) user-supplied log-prob / log-lik / log-prior nodes (spec["user"] = {"prob": item index, ...}),
    (b) Calc items realised by a node subclass with extra state information (spec["extra"] = [item indices]),
    (c) a hand-built family in which a node and a variable share a name (spec["custom"] == "shared").
    Node values may be Python singletons (True / False / 0 / 1): a bool is shown as the integer it is."""

    def __init__(self, spec, order=None, order_seed=0):
        import logging
        import liesel.model as lsl
        logging.getLogger("liesel").setLevel(logging.ERROR)
        self.fsmap = {}
        if spec.get("custom") == "shared":
            self._build_shared(spec, order, order_seed)
            return
        if spec.get("custom") in ("pairA", "pairB"):
            self._build_pair(spec, order, order_seed)
            return
        user = spec.get("user") or {}
        extra = {f"n{i}" for i in spec.get("extra") or []}
        if not user and not extra:
            super().__init__(spec, order, order_seed)
            return
        orig_gb, orig_calc = lsl.GraphBuilder, lsl.Calc

        class GB(orig_gb):
            def build_model(gb, copy=False):
                byname = {n.name: n for n in gb.nodes}
                for role, idx in user.items():
                    setattr(gb, f"log_{role}_node", byname[f"n{idx}"])
                return orig_gb.build_model(gb, copy)

        def calc_factory(fn, *a, _name="", **kw):
            cls = extra_calc_class() if _name in extra else orig_calc
            return cls(fn, *a, _name=_name, **kw)

        lsl.GraphBuilder = GB
        lsl.Calc = calc_factory
        try:
            super().__init__(spec, order, order_seed)
        finally:
            lsl.GraphBuilder, lsl.Calc = orig_gb, orig_calc

    def _fs_of(self, name, d):
        if name in self.fsmap:
            return self.fsmap[name]
        if self.spec.get("custom"):
            return ["sum"] if name.startswith("_model_") else ["id"]
        return super()._fs_of(name, d)

    def _build_shared(self, spec, order, order_seed):
        """node "x" and variable "x" (value node "x_value"); Calc node "c" and strong variable "c" (value node
        "c_value"): the key "x" / "c" names the NODE (node name first).  "sw" holds a Python singleton (True, ...),
        "d" keeps extra state information, the distribution of "w" has a per-observation (vector) log-prob."""
        import liesel.model as lsl
        self.lsl = lsl
        self.spec = spec
        self.log = []
        self.logging = False
        self.group_fs = {}
        v = spec["vals"]
        f = spec["fs"]
        dspec = {"per_obs": True, "vec": True, "split": spec.get("split", 7)}
        self.dist_spec = {"w_log_prob": dspec}

        def fn(fs):
            return lambda *a: apply_fs(fs, list(a))

        def dist(fs):
            class HDist:
                def __init__(self, *a):
                    self.vals = list(a)

                def log_prob(self, at):
                    t = apply_fs(fs, self.vals + [at])
                    return c01.LP([t - dspec["split"], dspec["split"]])
            return HDist

        x = lsl.Value(v[0], _name="x")
        vx = lsl.Var(v[1], name="x")
        sw = lsl.Value(spec.get("switch", 1), _name="sw")
        c = lsl.Calc(fn(f[0]), x, vx, sw, _name="c")
        vc = lsl.Var(v[2], name="c")
        d = extra_calc_class()(fn(f[1]), vc, c, _name="d")
        w = lsl.Var(v[3], lsl.Dist(dist(f[2]), d), name="w")
        w.parameter = True
        e = lsl.Var(lsl.Calc(fn(f[3]), w, x), name="e")
        self.fsmap = {"c": f[0], "d": f[1], "w_log_prob": f[2], "e_value": f[3]}
        gb = lsl.GraphBuilder(to_float32=False)
        gb.add(x, vx, c, vc, d, w, e)
        self.model = gb.build_model()
        self._extract(order, order_seed)

    def _build_pair(self, spec, order, order_seed):
        """two models in which the same key resolves differently:
        pairA: variables "scale", "loc" with the default value nodes "scale_value", "loc_value";
        pairB: variable "scale" whose value node the user named "scale_param", an unrelated node "scale_value",
               a NODE named "loc" (and, optionally, an unrelated node "loc_value")"""
        import liesel.model as lsl
        self.lsl = lsl
        self.spec = spec
        self.log = []
        self.logging = False
        self.group_fs = {}
        self.dist_spec = {}
        v = spec["vals"]
        f = spec["fs"]

        def fn(fs):
            return lambda *a: apply_fs(fs, list(a))

        def dist(fs):
            class HDist:
                def __init__(self, *a):
                    self.vals = list(a)

                def log_prob(self, at):
                    return apply_fs(fs, self.vals + [at])
            return HDist

        z = lsl.Value(v[2], _name="z")
        if spec["custom"] == "pairA":
            scale = lsl.Var(v[0], name="scale")
            loc = lsl.Var(v[1], name="loc")
            ins = [scale, loc, z]
        else:
            scale = lsl.Var(lsl.Value(v[0], _name="scale_param"), name="scale")
            loc = lsl.Value(v[1], _name="loc")
            ins = [scale, loc, z, lsl.Value(v[4], _name="scale_value")]
            if spec.get("loc_value"):
                ins.append(lsl.Value(v[5], _name="loc_value"))
        m = lsl.Calc(fn(f[0][:2] + [f[0][2][:len(ins)]]), *ins, _name="m")
        w = lsl.Var(v[3], lsl.Dist(dist(f[1]), m), name="w")
        w.parameter = True
        self.fsmap = {"m": f[0][:2] + [f[0][2][:len(ins)]], "w_log_prob": f[1]}
        gb = lsl.GraphBuilder(to_float32=False)
        gb.add(w)
        self.model = gb.build_model()
        self._extract(order, order_seed)

    def canon(self, name, v):
        """canonical integer of what node `name` shows (in the model or in a model state)"""
        d = getattr(self, "dist_spec", {}).get(name)
        if d is not None:
            v = c01.canon_lp(v, d)
        if isinstance(v, bool):
            v = int(v)
        return v

    def canon_value(self, k):
        v = self.nodes[k].value if self.spec.get("custom") else super().canon_value(k)
        return self.canon(self.order[k], v)


SINGLETONS = [True, True, False, 0, 1]


def shared_spec(rnd):
    def fs(n):
        return ["aff", rnd.randint(0, 999), [rnd.randint(1, 9) for _ in range(n)]]
    return {"custom": "shared", "items": [], "vals": [rnd.randint(-50, 50) for _ in range(4)],
            "fs": [fs(3), fs(2), fs(2), fs(2)], "switch": rnd.choice(SINGLETONS), "split": rnd.randint(2, 9)}


def pair_specs(rnd):
    def fs(n):
        return ["aff", rnd.randint(0, 999), [rnd.randint(1, 9) for _ in range(n)]]
    common = {"items": [], "fs": [fs(5), fs(2)]}
    a = dict(common, custom="pairA", vals=[rnd.randint(-50, 50) for _ in range(6)])
    b = dict(common, custom="pairB", vals=[rnd.randint(-50, 50) for _ in range(6)], loc_value=rnd.random() < 0.5)
    return a, b


def make_pair(rnd):
    """the two cases of a pair of models whose interfaces are used alternately in one session"""
    sa, sb = pair_specs(rnd)
    if rnd.random() < 0.5:
        sa, sb = sb, sa          # which model's interface is used first
    args = []
    for spec in (sa, sb):
        real = Real3(spec, None, rnd.randrange(2 ** 30))
        info = Info(real)
        keys = [k for k in ("scale", "loc", "z", "w") if k in info.kid]
        steps = []
        npool = 1
        for _ in range(rnd.randint(2, 4)):
            ks = rnd.sample(keys, rnd.randint(1, len(keys)))
            if "scale" not in ks and "loc" not in ks:
                ks.append(rnd.choice(["scale", "loc"]))
            pos = [[info.kid[k], rnd.randint(-99, 99)] for k in ks]
            steps.append(["update", pos, rnd.randrange(npool)])
            npool += 1
            steps.append(["extract", [info.kid[k] for k in ks], npool - 1])
            if rnd.random() < 0.4:
                steps.append(["extract", [info.kid[k] for k in keys], rnd.randrange(npool)])
        args.append({"spec": spec, "pre": [], "steps": steps, "order": real.order, "iface_kind": "liesel"})
    try:
        cases = drive_pair(args[0], args[1])
    except Exception as ex:
        import traceback
        msg = str(ex) if isinstance(ex, Anomaly) else (
            f"driving two models through their interfaces alternately raises {ex!r} at " + traceback.format_exc().strip().splitlines()[-3].strip())
        cases = [{"kind": "graph", "anomaly": msg, "spec": x["spec"], "order": x["order"], "pre": [], "steps": x["steps"],
                  "iface_kind": "liesel", "partner": args[1 - j], "pair_first": j == 0} for j, x in enumerate(args)]
    for c in cases:
        c["scenario"] = "two_models"
        c["flavour"] = "pair"
    return cases


def key_table(real):
    """numbers for the strings used as position keys: all node names, all variable names, one unknown name"""
    m = real.model
    names = sorted(set(m.nodes) | set(m.vars)) + [NO_KEY]
    kid = {n: i for i, n in enumerate(names)}
    nmap = sorted((kid[n], real.pos[n]) for n in m.nodes)
    vmap = sorted((kid[vn], real.pos[v.value_node.name]) for vn, v in m.vars.items())
    return names, nmap, vmap


class Anomaly(Exception):
    pass


def view_of(real, st):
    """what a model state dict shows, in graph order: [value-or-None, outdated]"""
    out = []
    if set(st) != set(real.order):
        raise Anomaly(f"model state has keys {sorted(set(st) ^ set(real.order))} too many / missing")
    for name in real.order:
        ns = st[name]
        v = ns.value
        if hasattr(v, "args") and hasattr(v, "kwargs"):
            raise Anomaly(f"state of transient node {name} carries a value")
        v = real.canon(name, v)
        if v is not None and (not isinstance(v, int) or isinstance(v, bool)):
            raise Anomaly(f"state of node {name} shows a non-integer value {v!r}")
        fl = ns.outdated
        if not isinstance(fl, bool):
            raise Anomaly(f"state of node {name} shows a non-bool flag {fl!r}")
        out.append([None if v is None else int(v), fl])
    return out


def extras_of(real, st):
    """NodeState.extra of every node, in graph order (None for the node classes shipped with liesel)"""
    return [getattr(st[name], "extra", None) for name in real.order]


def freeze(st):
    return tuple(sorted((k, repr(v.value), repr(v.outdated), repr(getattr(v, "extra", None))) for k, v in st.items()))


def make_iface(kind, model):
    import liesel.goose as gs
    if kind == "goose_alias":
        import liesel.model as lsl
        with warnings.catch_warnings():
            warnings.simplefilter("ignore")
            return lsl.GooseModel(model)
    return gs.LieselInterface(model)


def drive(spec, pre, steps, order=None, order_seed=0, iface_kind="liesel"):
    """build the real model, create the interface, apply the steps; returns the case dict"""
    g = _drive_gen(spec, pre, steps, order, order_seed, iface_kind)
    try:
        while True:
            next(g)
    except StopIteration as fin:
        return fin.value


def drive_pair(a, b):
    """two models, one interface each, in one session, used ALTERNATELY (a's interface is created first, then b's,
    then a step of a, a step of b, ...); a, b = dicts with spec / pre / steps / order / iface_kind.
    Returns the two case dicts; each names its partner, so that a replay can repeat the interleaving."""
    gens = [_drive_gen(x["spec"], x["pre"], x["steps"], x.get("order"), 0, x.get("iface_kind", "liesel")) for x in (a, b)]
    res = [None, None]
    live = [True, True]
    while any(live):
        for j, g in enumerate(gens):
            if live[j]:
                try:
                    next(g)
                except StopIteration as fin:
                    res[j] = fin.value
                    live[j] = False
    for j, (me, other) in enumerate(((a, b), (b, a))):
        res[j]["partner"] = {k: other.get(k) for k in ("spec", "pre", "steps", "order", "iface_kind")}
        res[j]["partner"]["order"] = res[1 - j]["order"]
        res[j]["pair_first"] = j == 0
    return res


def _drive_gen(spec, pre, steps, order=None, order_seed=0, iface_kind="liesel"):
    real = Real3(spec, order, order_seed)
    m = real.model
    names, nmap, vmap = key_table(real)
    pre_err = []
    for op in pre:
        _, err = real.apply(op, [])
        pre_err.append(err)
    base = {"kind": "graph", "spec": spec, "order": real.order, "kinds": real.kinds, "ins": real.ins, "fs": real.fs,
            "names": names, "nmap": [list(x) for x in nmap], "vmap": [list(x) for x in vmap],
            "lp": real.pos["_model_log_prob"], "pre": pre, "iface_kind": iface_kind}
    init_vals, _ = c01.Real.observe(real) if not pre else (None, None)
    # ext0 = input values right after the build: re-build to read them if pre-operations were applied
    if pre:
        r0 = Real3(spec, real.order)
        init_vals, _ = r0.observe()
    base["ext0"] = [v if k == "V" else 0 for v, k in zip(init_vals, real.kinds)]
    created_before = (freeze(m.state), m.auto_update, [bool(nd.outdated) for nd in real.nodes])
    iface = make_iface(iface_kind, m)
    if (freeze(m.state), m.auto_update, [bool(nd.outdated) for nd in real.nodes]) != created_before:
        base["create_mut"] = "creating the interface modified the user's model (state before / after differ)"
    yield
    state0 = m.state
    pool = [state0]
    base["state0"] = view_of(real, state0)
    base["extra0"] = extras_of(real, state0)
    ecls = extra_calc_class()
    base["extra_nodes"] = [k for k, nd in enumerate(real.nodes) if isinstance(nd, ecls)]
    direct = None            # a fresh copy of the real model for direct assignment
    out_steps = []
    obs = []
    for st in steps:
        st = list(st)
        pool_before = [freeze(s) for s in pool]
        model_before = (freeze(m.state), m.auto_update)
        ob = {}
        if st[0] in ("update", "reput"):
            si = min(st[2], len(pool) - 1)
            src = pool[si]
            if st[0] == "reput":          # get-put: put back what extract_position returns for these keys
                try:
                    p = iface.extract_position([names[k] for k in st[1]], src)
                    pos = [[k, p[names[k]]] for k in st[1]]
                except Exception:
                    pos = []
                if any(v is None for _, v in pos):
                    pos = [[k, v] for k, v in pos if v is not None]
                ob["reput"] = True
            else:
                pos = [list(x) for x in st[1]]
            st = ["update", pos, si]
            pd = {names[k]: v for k, v in pos}
            try:
                r = iface.update_state(pd, src)
                ob["raised"] = False
            except Exception as ex:
                r = None
                ob["raised"] = True
                ob["exc"] = type(ex).__name__
            if r is not None:
                ob["view"] = view_of(real, r)
                ob["extra"] = extras_of(real, r)
                ob["new_object"] = r is not src
                pool.append(r)
                # put-get and log-prob on the result
                try:
                    xp = iface.extract_position(list(pd), r)
                    ob["xp"] = [[k, int(xp[names[k]]) if isinstance(xp[names[k]], bool) else xp[names[k]]] for k, _ in pos]
                except Exception as ex:
                    ob["xp"] = "raised " + type(ex).__name__
                ob["lp"] = real.canon("_model_log_prob", iface.log_prob(r))
                srcv = view_of(real, src)
                if not any(f for _, f in srcv):
                    # (1) a fresh interface (no earlier calls) on the same arguments
                    fresh = make_iface(iface_kind, m)
                    try:
                        fr = fresh.update_state(pd, src)
                        ob["fresh"] = view_of(real, fr)
                        ob["fresh_extra"] = extras_of(real, fr)
                    except Exception as ex:
                        ob["fresh"] = "raised " + type(ex).__name__
                    # (2) direct assignment on a fresh copy of the real model, then update()
                    if direct is None:
                        direct = Real3(spec, real.order)
                    dm = direct.model
                    dm.auto_update = bool(len(out_steps) % 2)      # the result must not depend on it
                    try:
                        for k, (v, _) in enumerate(srcv):
                            if real.kinds[k] == "V":
                                dm.nodes[real.order[k]].value = v
                        for key, v in pd.items():
                            if key in dm.nodes:
                                dm.nodes[key].value = v
                            else:
                                dm.vars[key].value = v
                        dm.update()
                        ob["direct"] = view_of(direct, dm.state)
                        ob["direct_extra"] = extras_of(direct, dm.state)
                        ob["direct_lp"] = dm.log_prob
                    except Exception as ex:
                        ob["direct"] = "raised " + repr(ex)
            else:
                ob["view"] = []
        elif st[0] == "extract":
            si = min(st[2], len(pool) - 1)
            st = ["extract", list(st[1]), si]
            try:
                p = iface.extract_position([names[k] for k in st[1]], pool[si])
                ob["raised"] = False
                ob["vals"] = [real.canon(names[k] if names[k] in m.nodes else (m.vars[names[k]].value_node.name if names[k] in m.vars else ""),
                                         p[names[k]]) for k in st[1]]
                if any(v is not None and (not isinstance(v, int) or isinstance(v, bool)) for v in ob["vals"]):
                    raise Anomaly(f"extract_position returns non-integer values {ob['vals']!r}")
            except Anomaly:
                raise
            except Exception as ex:
                ob["raised"] = True
                ob["exc"] = type(ex).__name__
                ob["vals"] = []
        elif st[0] == "lp":
            si = min(st[1], len(pool) - 1)
            st = ["lp", si]
            v = real.canon("_model_log_prob", iface.log_prob(pool[si]))
            if v is not None and (not isinstance(v, int) or isinstance(v, bool)):
                raise Anomaly(f"log_prob returns {v!r}")
            ob["v"] = v
        elif st[0] == "model":
            _, err = real.apply(st[1], [])
            ob["raised"] = err
            model_before = None        # the user's model is meant to change here
        elif st[0] == "save":
            s = m.state
            pool.append(s)
            ob["raised"] = False
            ob["view"] = view_of(real, s)
            ob["extra"] = extras_of(real, s)
        else:
            raise ValueError(st)
        # non-mutation of the caller's states and of the user's model (test, DESIGN 4.5)
        for j, fz in enumerate(pool_before):
            if freeze(pool[j]) != fz:
                ob["mut_state"] = f"model state #{j} handed to / kept by the caller was modified by the call"
        if model_before is not None and (freeze(m.state), m.auto_update) != model_before:
            ob["mut_model"] = "the user's original model was modified by the interface call"
        out_steps.append(st)
        obs.append(ob)
        yield
    base["steps"] = out_steps
    base["obs"] = obs
    return base


def drive_safe(spec, pre, steps, order, kind="liesel"):
    """drive(); anything the interface / model raises outside a call that is allowed to raise is a failing input"""
    try:
        return drive(spec, pre, steps, order, iface_kind=kind)
    except Exception as ex:
        import traceback
        msg = str(ex) if isinstance(ex, Anomaly) else (
            f"driving the model through the interface raises {ex!r} at " + traceback.format_exc().strip().splitlines()[-3].strip())
        return {"kind": "graph", "anomaly": msg, "spec": spec, "order": order, "pre": pre, "steps": steps, "iface_kind": kind}


# ---------------------------------------------------------------------------------------------
# step generator
# ---------------------------------------------------------------------------------------------
SCENARIOS = ["same_state_twice", "chain", "by_var_name", "alias", "errors", "empty_pos", "auto_off_internal",
             "outdated_state", "user_lp", "interleaved", "getput", "shared_name", "goose_alias", "singleton_values",
             "extra_state", "two_models", "random"]


class Info:
    def __init__(self, real):
        self.names, nmap, vmap = key_table(real)
        self.kid = {n: i for i, n in enumerate(self.names)}
        self.nmap, self.vmap = dict(nmap), dict(vmap)
        self.kinds = real.kinds
        self.order = real.order
        self.pg = PG(real.kinds, real.ins, real.fs)
        ecls = extra_calc_class()
        self.extra_nodes = [k for k, nd in enumerate(real.nodes) if isinstance(nd, ecls)]
        self.var_of_pos = {}          # value node position -> variable name
        for vn, v in real.model.vars.items():
            self.var_of_pos.setdefault(real.pos[v.value_node.name], vn)

    def resolve(self, k):
        return self.nmap.get(k, self.vmap.get(k))

    def valid(self, pos):
        return all(self.resolve(k) is not None and self.kinds[self.resolve(k)] == "V" for k, _ in pos)


def gen_steps(rnd, info: Info, scenario):
    n = len(info.kinds)
    V = [k for k in range(n) if info.kinds[k] == "V"]
    Vd = [k for k in V if info.pg.desc[k]] or V
    nonV = [k for k in range(n) if info.kinds[k] != "V"]
    weak = [kid for kid, p in info.vmap.items() if info.kinds[p] != "V" and kid not in info.nmap]
    pre, steps = [], []
    npool = [1]

    def val():
        if rnd.random() < 0.08:
            return rnd.choice(SINGLETONS)       # Python singletons as assigned values
        return rnd.randint(-99, 99)

    def key_for(p, prefer_var=0.4):
        """a key naming Value node p: its node name or the name of its variable"""
        vn = info.var_of_pos.get(p)
        if vn is not None and info.kid[vn] not in info.nmap and rnd.random() < prefer_var:
            return info.kid[vn]
        return info.kid[info.order[p]]

    def rand_pos(lo=1, hi=3, exclude=(), prefer_var=0.4):
        pool_ = [p for p in (Vd if rnd.random() < 0.8 else V) if p not in exclude] or [p for p in V if p not in exclude] or V
        k = min(len(pool_), rnd.randint(lo, hi))
        return [[key_for(p, prefer_var), val()] for p in rnd.sample(pool_, k)]

    def upd(pos, si, follow=True):
        steps.append(["update", pos, si])
        if info.valid(pos):
            npool[0] += 1
            new = npool[0] - 1
            if follow and rnd.random() < 0.6:
                steps.append(["extract", [k for k, _ in pos], new])
            if follow and rnd.random() < 0.5:
                steps.append(["lp", new])
            return new
        return si

    def anystate():
        return rnd.randrange(npool[0])

    if scenario == "same_state_twice":
        pa = rand_pos(2, 3)
        ra = {info.resolve(k) for k, _ in pa}
        pb = rand_pos(1, 1, exclude=ra)
        s = anystate()
        upd(pa, s)
        upd(pb, s)
        if rnd.random() < 0.5:
            upd(pa, s)
        if rnd.random() < 0.5:
            upd([], s)
    elif scenario == "chain":
        s = 0
        for _ in range(rnd.randint(2, 5)):
            s = upd(rand_pos(1, 2), s)
    elif scenario == "by_var_name":
        for _ in range(rnd.randint(1, 3)):
            upd(rand_pos(1, 3, prefer_var=1.0), anystate())
    elif scenario == "alias":
        both = [p for p in V if p in info.var_of_pos and info.kid[info.var_of_pos[p]] not in info.nmap]
        if both:
            p = rnd.choice(both)
            a = [info.kid[info.order[p]], val()]
            b = [info.kid[info.var_of_pos[p]], val()]
            pos = [a, b] if rnd.random() < 0.5 else [b, a]
            if rnd.random() < 0.5:
                pos += rand_pos(1, 1, exclude={p})
            upd(pos, anystate())
        upd(rand_pos(), anystate())
    elif scenario == "errors":
        r = rnd.random()
        good = rand_pos(1, 2)
        if r < 0.3:
            bad = [[info.kid[NO_KEY], val()]]
        elif r < 0.6 and nonV:
            bad = [[info.kid[info.order[rnd.choice(nonV)]], val()]]
        elif r < 0.8 and weak:
            bad = [[rnd.choice(weak), val()]]
        else:
            bad = [[info.kid[NO_KEY], val()]]
        upd(good + bad if rnd.random() < 0.7 else bad + good, 0)      # assigns part of the position, then raises
        upd(rand_pos(1, 1, exclude={info.resolve(k) for k, _ in good}), 0)   # the next call must not see the leftovers
        steps.append(["extract", [bad[0][0]] + [k for k, _ in good], 0])
        if rnd.random() < 0.5:
            steps.append(["extract", [info.kid[info.order[rnd.choice(nonV)]]] if nonV else [], 0])
    elif scenario == "empty_pos":
        upd([], 0)
        upd(rand_pos(), npool[0] - 1)
        upd([], npool[0] - 1)
    elif scenario == "auto_off_internal":
        pre += [["auto", False]]
        if rnd.random() < 0.5:
            pre += [["assign", rnd.choice(Vd), val(), "node"], ["update", []]]
        for _ in range(rnd.randint(1, 3)):
            upd(rand_pos(1, 3), anystate())
    elif scenario == "outdated_state":
        # documented limit: a model state with outdated nodes handed to update_state
        pre += [["auto", False], ["assign", rnd.choice(Vd), val(), "node"]]
        if rnd.random() < 0.5:
            pre += [["auto", True]]
        upd(rand_pos(1, 2), 0)
        upd(rand_pos(1, 2), npool[0] - 1)
    elif scenario == "interleaved":
        for _ in range(rnd.randint(2, 4)):
            r = rnd.random()
            if r < 0.5:
                steps.append(["model", ["assign", rnd.choice(Vd), val(), rnd.choice(["node", "var"])]])
            elif r < 0.65:
                steps.append(["model", ["auto", rnd.random() < 0.5]])
            elif r < 0.8:
                steps.append(["model", ["update", []]])
            if rnd.random() < 0.6:
                steps.append(["save"])
                npool[0] += 1
            upd(rand_pos(1, 2), anystate())
    elif scenario == "getput":
        s = upd(rand_pos(1, 2), 0) if rnd.random() < 0.5 else 0
        keys = [key_for(p) for p in rnd.sample(V, min(len(V), rnd.randint(1, 3)))]
        steps.append(["extract", keys, s])
        steps.append(["reput", keys, s])
        npool[0] += 1
    elif scenario == "goose_alias":
        if rnd.random() < 0.5:
            pre += [["auto", False]]
        upd(rand_pos(1, 2), 0)
    elif scenario == "extra_state" and info.extra_nodes:
        # a node with extra state information: first recomputed by a call, then calls that do not touch its inputs
        e = rnd.choice(info.extra_nodes)
        A = [p for p in V if p in info.pg.anc[e]]
        B = [p for p in V if p not in info.pg.anc[e]]

        def pos_in(ps, k=1):
            ps = rnd.sample(ps, min(len(ps), k))
            return [[key_for(p), val()] for p in ps]
        if B and rnd.random() < 0.5:
            upd(pos_in(B), 0)                       # the node is not recomputed: its extra comes from the given state
        if A:
            s1 = upd(pos_in(A, rnd.randint(1, 2)), 0)
            if B:
                upd(pos_in(B), 0)                   # must not show the extra computed by the previous call
                upd(pos_in(B), s1)                  # chained: extra of s1
            upd([], rnd.choice([0, s1]))
    else:      # user_lp, shared_name, random: differ in the model, not in the steps
        pass
    # random tail
    for _ in range(rnd.randint(1, 3) if steps else rnd.randint(2, 5)):
        r = rnd.random()
        if r < 0.6:
            upd(rand_pos(1, 3), anystate())
        elif r < 0.75:
            ks = [rnd.randrange(len(info.names)) for _ in range(rnd.randint(1, 3))]
            steps.append(["extract", ks, anystate()])
        elif r < 0.85:
            steps.append(["lp", anystate()])
        elif r < 0.93:
            steps.append(["model", ["assign", rnd.choice(Vd), val(), "node"]])
        else:
            steps.append(["save"])
            npool[0] += 1
    return pre, steps


def make_case(rnd, quick, scenario, flavour):
    if scenario == "two_models":
        return make_pair(rnd)[1]
    for _try in range(100):
        if scenario == "shared_name":
            spec = shared_spec(rnd)
        else:
            nitems = rnd.randint(2, 7) if quick else rnd.choice([rnd.randint(2, 8), rnd.randint(6, 14)])
            spec = c01.gen_spec(rnd, nitems, flavour, per_obs=True)   # per-observation (vector) and summed log-probs
            # Python singletons as node values (a switch stored in a Value / Data node or a strong variable)
            holders = [it for it in spec["items"] if it["k"] == "value" or (it["k"] == "var" and not it["weak"])]
            if holders and (scenario == "singleton_values" or rnd.random() < 0.3):
                chosen = rnd.sample(holders, min(len(holders), rnd.randint(1, 2)))
                for j, it in enumerate(chosen):
                    it["v"] = True if (j == 0 and scenario == "singleton_values") else rnd.choice(SINGLETONS)
            # Calc nodes that keep extra state information (NodeState.extra)
            calcs = [i for i, it in enumerate(spec["items"]) if it["k"] == "calc"]
            if scenario == "extra_state" and not calcs:
                continue
            if calcs and (scenario == "extra_state" or rnd.random() < 0.2):
                spec["extra"] = sorted(rnd.sample(calcs, min(len(calcs), rnd.randint(1, 2))))
            if scenario == "user_lp" or (scenario == "random" and rnd.random() < 0.2):
                cand = [i for i, it in enumerate(spec["items"]) if it["k"] in ("calc", "tcalc", "value")]
                if not cand:
                    continue
                roles = rnd.choice([["prob"], ["prob"], ["prob", "lik"], ["prob", "lik", "prior"], ["lik"]])
                spec["user"] = {r: rnd.choice(cand) for r in roles}
        oseed = rnd.randrange(2 ** 30)
        try:
            real = Real3(spec, None, oseed)
        except c01.GraphAnomaly:
            continue          # C01's subject
        except Exception as ex:
            if type(ex).__name__ in ("NetworkXUnfeasible", "NetworkXError"):
                continue
            raise
        info = Info(real)
        pre, steps = gen_steps(rnd, info, scenario)
        kind = "goose_alias" if scenario == "goose_alias" else "liesel"
        case = drive_safe(spec, pre, steps, real.order, kind)
        case["scenario"] = scenario
        case["flavour"] = flavour
        return case
    raise RuntimeError("could not generate a buildable graph description")


# ---------------------------------------------------------------------------------------------
# oracle for graph cases: the property, read literally on the observations
# ---------------------------------------------------------------------------------------------
def check_graph(c):
    """returns None or (step index, message)"""
    if c.get("anomaly"):
        return (-1, c["anomaly"])
    kinds, order, names = c["kinds"], c["order"], c["names"]
    pg = PG(kinds, c["ins"], c["fs"])
    n = pg.n
    nmap = {k: p for k, p in c["nmap"]}
    vmap = {k: p for k, p in c["vmap"]}

    def resolve(k):
        return nmap.get(k, vmap.get(k))

    def good(view):
        if any(f for _, f in view):
            return False
        sc = pg.scratch([v for v, _ in view])
        return all(kinds[k] == "T" or view[k][0] == sc[k] for k in range(n))

    def show(view):
        return {order[k]: v for k, (v, _) in enumerate(view) if kinds[k] != "T"}

    pool = [c["state0"]]
    epool = [c.get("extra0")]
    if c.get("create_mut"):
        return (-1, c["create_mut"])

    def extras_msg(call, got, want, whose):
        k = next(k for k in range(n) if got[k] != want[k])
        return (f"{call}: the returned state carries extra state information {got[k]} for node {order[k]}; {whose} {want[k]}")
    for si, (st, ob) in enumerate(zip(c["steps"], c["obs"])):
        where = f"step {si}"
        if ob.get("mut_state"):
            return (si, f"{where}: {ob['mut_state']}")
        if ob.get("mut_model"):
            return (si, f"{where}: {ob['mut_model']}")
        if st[0] == "update":
            pos, src = st[1], pool[st[2]]
            pd = {names[k]: v for k, v in pos}
            call = f"{where}: update_state({pd}, state#{st[2]})"
            if ob["raised"]:
                continue
            view = ob["view"]
            pool.append(view)
            epool.append(ob.get("extra"))
            if not good(src):
                continue          # documented precondition: the given state must be up to date
            for k in range(n):
                if kinds[k] == "T" and view[k][0] is not None:
                    return (si, f"{call}: transient node {order[k]} carries a value in the returned state")
            res = [resolve(k) for k, _ in pos]
            if any(r is None or kinds[r] != "V" for r in res):
                return (si, f"{call}: a key that names no assignable node was accepted")
            ext = [v for v, _ in src]
            for r, (_, v) in zip(res, pos):
                ext[r] = v
            sc = pg.scratch(ext)
            for k in range(n):
                if kinds[k] != "T" and view[k][0] != sc[k]:
                    return (si, f"{call} returns {order[k]} = {view[k][0]}; assigning these values directly and fully "
                                f"updating the model gives {sc[k]}  (state#{st[2]} = {show(src)})")
            bad = [order[k] for k in range(n) if view[k][1]]
            if bad:
                return (si, f"{call}: the returned state flags {bad} as outdated")
            d = ob.get("direct")
            if isinstance(d, str):
                return (si, f"{call}: direct assignment on a fresh copy of the model {d}")
            if d is not None and d != view:
                k = next(k for k in range(n) if d[k] != view[k])
                return (si, f"{call} returns {order[k]} = {view[k]}; a fresh copy of the model after direct assignment + "
                            f"update() shows {d[k]}")
            fr = ob.get("fresh")
            if fr is not None and fr != view:
                return (si, f"{call}: the result depends on earlier calls - a freshly created interface returns "
                            f"{fr if isinstance(fr, str) else show(fr)}, this one {show(view)}")
            # extra state information (NodeState.extra of node subclasses): oracle only, not in the Coq model
            ex = ob.get("extra")
            if ex is not None:
                if ob.get("direct_extra") is not None and ex != ob["direct_extra"]:
                    return (si, extras_msg(call, ex, ob["direct_extra"], "a fresh copy of the model after direct assignment + update() has"))
                if ob.get("fresh_extra") is not None and ex != ob["fresh_extra"]:
                    return (si, extras_msg(call, ex, ob["fresh_extra"], "the result depends on earlier calls - a freshly created interface returns"))
                for k in c.get("extra_nodes", []):
                    if ex[k] != digest(view[k][0]):
                        return (si, f"{call}: the returned state carries extra state information {ex[k]} for node {order[k]} "
                                    f"(value {view[k][0]}); the model itself has {digest(view[k][0])}")
            # put-get
            last = {}
            for r, (_, v) in zip(res, pos):
                last[r] = v
            want = [[k, last[r]] for r, (k, _) in zip(res, pos)]
            if ob.get("xp") != want:
                return (si, f"{call}: extracting the same keys from the result gives {ob.get('xp')}, put was {want}")
            if ob.get("lp") is None or ob["lp"] != ob.get("direct_lp", ob["lp"]) or ob["lp"] != sc[c["lp"]]:
                return (si, f"{call}: interface log_prob of the result is {ob.get('lp')}, the model's log-probability at these "
                            f"values is {ob.get('direct_lp', sc[c['lp']])}")
            if ob.get("reput") and (view != src or (ex is not None and epool[st[2]] is not None and ex != epool[st[2]])):
                return (si, f"{call}: putting back the extracted position changed the state")
        elif st[0] == "save":
            pool.append(ob["view"])
            epool.append(ob.get("extra"))
        elif st[0] == "lp":
            src = pool[st[1]]
            if good(src) and ob["v"] is None:
                return (si, f"{where}: log_prob(state#{st[1]}) returns None for an up-to-date model state")
            if ob["v"] != src[c["lp"]][0]:
                return (si, f"{where}: log_prob(state#{st[1]}) = {ob['v']}, the state's _model_log_prob entry is {src[c['lp']][0]}")
        elif st[0] == "extract":
            src = pool[st[2]]
            if not ob["raised"]:
                for k, v in zip(st[1], ob["vals"]):
                    r = resolve(k)
                    if r is None:
                        return (si, f"{where}: extract_position accepts the unknown key {names[k]}")
                    if v != src[r][0]:
                        return (si, f"{where}: extract_position gives {names[k]} = {v}, the state holds {src[r][0]}")
    return None


# ---------------------------------------------------------------------------------------------
# flat interfaces
# ---------------------------------------------------------------------------------------------
FLAT_KINDS = ["dict", "dataclass", "dataclass_noinit", "dataclass_postinit", "namedtuple"]


def flat_make(kind, fields, values):
    """a state object of the given kind holding values[k] in field f{fields[k]}"""
    import dataclasses
    from typing import NamedTuple
    names = [f"f{k}" for k in fields]
    if kind == "dict":
        return dict(zip(names, values))
    if kind == "namedtuple":
        NT = NamedTuple("State", [(nm, int) for nm in names])
        return NT(*values)
    if kind == "dataclass":
        DC = dataclasses.make_dataclass("State", [(nm, int) for nm in names])
        return DC(*values)
    if kind == "dataclass_noinit":
        # the last field is not an __init__ argument (init=False); it is set after construction
        fl = [(nm, int) for nm in names[:-1]] + [(names[-1], int, dataclasses.field(default=0, init=False))]
        DC = dataclasses.make_dataclass("State", fl)
        o = DC(*values[:-1])
        setattr(o, names[-1], values[-1])
        return o
    if kind == "dataclass_postinit":
        # __post_init__ is not idempotent: it rescales the first field
        def post(self):
            setattr(self, names[0], getattr(self, names[0]) * 2 + 1)
        DC = dataclasses.make_dataclass("State", [(nm, int) for nm in names], namespace={"__post_init__": post})
        o = DC(*values)
        setattr(o, names[0], values[0])
        return o
    raise ValueError(kind)


def flat_read(kind, obj):
    import dataclasses
    if kind == "dict":
        return sorted([int(k[1:]), v] for k, v in obj.items())      # a dict is compared up to key order
    if kind == "namedtuple":
        return [[int(k[1:]), getattr(obj, k)] for k in obj._fields]
    return [[int(f.name[1:]), getattr(obj, f.name)] for f in dataclasses.fields(obj)]


def flat_iface(kind):
    import liesel.goose as gs
    lp = lambda s: 0
    if kind == "dict":
        return gs.DictInterface(lp)
    if kind == "namedtuple":
        return gs.NamedTupleInterface(lp)
    return gs.DataclassInterface(lp)


def flat_case(kind, fields, values, op):
    obj = flat_make(kind, fields, values)
    before = flat_read(kind, obj)
    iface = flat_iface(kind)
    c = {"kind": "flat", "flat": kind, "fields": fields, "values": values, "op": op, "state": before}
    if op[0] == "update":
        pd = {f"f{k}": v for k, v in op[1]}
        try:
            r = iface.update_state(pd, obj)
            c["after"] = flat_read(kind, r)
            c["same_type"] = type(r) is type(obj)
            try:
                xp = iface.extract_position(list(pd), r)
                c["xp"] = [[k, xp[f"f{k}"]] for k, _ in op[1]]
            except Exception as ex:
                c["xp"] = "raised " + type(ex).__name__
        except Exception as ex:
            c["after"] = None
            c["exc"] = type(ex).__name__
    else:
        try:
            p = iface.extract_position([f"f{k}" for k in op[1]], obj)
            c["vals"] = [p[f"f{k}"] for k in op[1]]
        except Exception as ex:
            c["vals"] = None
            c["exc"] = type(ex).__name__
    c["input_after"] = flat_read(kind, obj)
    isint = lambda v: isinstance(v, int) and not isinstance(v, bool)
    if (c.get("after") and not all(isint(v) for _, v in c["after"])) or (c.get("vals") and not all(isint(v) for v in c["vals"])):
        c["bad_values"] = True
    return c


def gen_flat(rnd, n):
    cases = []
    for i in range(n):
        kind = FLAT_KINDS[i % len(FLAT_KINDS)]
        nf = rnd.randint(2, 5)
        fields = rnd.sample(range(12), nf)
        values = [rnd.randint(-99, 99) for _ in fields]
        r = rnd.random()
        pick = lambda lo, hi: rnd.sample(fields, min(nf, rnd.randint(lo, hi)))
        if r < 0.55:
            op = ["update", [[k, rnd.randint(-99, 99)] for k in pick(0, 3)]]
            if kind == "dataclass_noinit" and rnd.random() < 0.4:
                op = ["update", [[fields[-1], rnd.randint(-99, 99)]] + [[k, rnd.randint(-99, 99)] for k in pick(0, 1) if k != fields[-1]]]
        elif r < 0.7:
            unknown = rnd.choice([k for k in range(14) if k not in fields])
            pos = [[k, rnd.randint(-99, 99)] for k in pick(0, 2)]
            pos.insert(rnd.randint(0, len(pos)), [unknown, rnd.randint(-99, 99)])
            op = ["update", pos]
        elif r < 0.9:
            op = ["extract", pick(0, 3)]
        else:
            unknown = rnd.choice([k for k in range(14) if k not in fields])
            op = ["extract", pick(0, 2) + [unknown]]
        c = flat_case(kind, fields, values, op)
        c["scenario"] = "flat." + kind
        cases.append(c)
    return cases


def check_flat(c):
    st = c["state"]
    have = {k for k, _ in st}
    nm = f"{c['flat']} state {dict((f'f{k}', v) for k, v in st)}"
    if c["input_after"] != st:
        return f"{nm}: the input state was modified by {c['op']}: now {c['input_after']}"
    if c["op"][0] == "update":
        pos = c["op"][1]
        unknown = [k for k, _ in pos if k not in have]
        if c["after"] is None:
            if not unknown:
                return f"{nm}: update_state({pos}) raises {c.get('exc')} although every key is a field"
            return None
        if unknown and c["flat"] != "dict":
            return f"{nm}: update_state({pos}) accepts the unknown field f{unknown[0]}"
        want = [[k, dict(pos).get(k, v)] for k, v in st] + [[k, v] for k, v in pos if k not in have]
        if c["flat"] == "dict":
            want = sorted(want)
        if c["after"] != want:
            return (f"{nm}: update_state({dict((f'f{k}', v) for k, v in pos)}) returns {c['after']}; the state with exactly "
                    f"these fields replaced is {want}")
        if not c.get("same_type"):
            return f"{nm}: update_state returns an object of another type"
        if c.get("xp") != [[k, v] for k, v in pos]:
            return f"{nm}: extract_position on the result of update_state({pos}) gives {c.get('xp')}"
    else:
        keys = c["op"][1]
        if c["vals"] is None:
            if all(k in have for k in keys):
                return f"{nm}: extract_position({keys}) raises {c.get('exc')}"
            return None
        if any(k not in have for k in keys):
            return f"{nm}: extract_position({['f%d' % k for k in keys]}) accepts an unknown key and returns {c['vals']}"
        if c["vals"] != [dict(st)[k] for k in keys]:
            return f"{nm}: extract_position({keys}) = {c['vals']}"
    return None


# ---------------------------------------------------------------------------------------------
# eager == jit == vmap on array-valued models (tested, not proved; DESIGN 4.4)
# ---------------------------------------------------------------------------------------------
SWITCHES = {"True": True, "False": False, "1": 1, "0": 0, "str": "on", "empty_tuple": (), "None": None}


def jit_model(variant, vals, switch=None):
    import jax.numpy as jnp
    import liesel.model as lsl
    import tensorflow_probability.substrates.jax.distributions as tfd
    b0 = lsl.param(vals[0], lsl.Dist(tfd.Normal, loc=0.0, scale=10.0), name="b0")
    b1 = lsl.param(vals[1], lsl.Dist(tfd.Normal, loc=0.0, scale=10.0), name="b1")
    x = lsl.obs(jnp.linspace(-1.0, 1.0, 6), name="x")
    if variant == 3:
        # a plain Python switch (a singleton object: True, 1, "on", (), None ...) stored in a model variable selects
        # whether an offset enters the predictor; per-observation log-likelihood vector
        sw = lsl.Var(SWITCHES[switch], name="use_offset")

        def predictor(b0, b1, x, flag):
            mu = b0 + b1 * x
            if flag is None or isinstance(flag, tuple):
                return mu
            if isinstance(flag, str):
                return mu + (0.5 if flag == "on" else 0.0)
            return mu + jnp.where(flag, 0.5, 0.0)
        mu = lsl.Var(lsl.Calc(predictor, b0, b1, x, sw), name="mu")
    else:
        mu = lsl.Var(lsl.Calc(lambda b0, b1, x: b0 + b1 * x, b0, b1, x), name="mu")
    if variant in (0, 3):
        sigma = lsl.param(vals[2], name="sigma")
    else:
        ls = lsl.param(vals[2], lsl.Dist(tfd.Normal, loc=0.0, scale=3.0), name="log_sigma")
        sigma = lsl.Var(lsl.Calc(jnp.exp, ls), name="sigma")
    y = lsl.obs(jnp.array(vals[3:9]), lsl.Dist(tfd.Normal, loc=mu, scale=sigma), name="y")
    roots = [y]
    if variant == 2:
        # a generated quantity on which no distribution depends
        roots.append(lsl.Var(lsl.Calc(lambda m: m.sum() * 3.0, mu), name="pred"))
    return lsl.GraphBuilder().add(*roots).build_model()


def jit_case(variant, vals, positions, switch=None):
    import jax
    import jax.numpy as jnp
    import numpy as np
    import liesel.goose as gs

    def plain(v):
        if v is None or isinstance(v, (str, tuple)):
            return v
        return np.asarray(v).tolist()

    def num(stt):
        return {k: plain(v.value) for k, v in stt.items() if v.value is not None}

    def flags(stt):
        return {k: bool(np.asarray(v.outdated)) for k, v in stt.items()}

    def same(a, b):
        if isinstance(a, (str, tuple)) or isinstance(b, (str, tuple)):
            return a == b
        a, b = np.asarray(a, dtype=float), np.asarray(b, dtype=float)
        return a.shape == b.shape and np.allclose(a, b, rtol=2e-5, atol=1e-5)        # shapes are part of the state

    def diff(a, b):
        return sorted(k for k in set(a) | set(b) if k not in a or k not in b or not same(a[k], b[k]))

    def shapes(a, ks):
        return {k: (list(np.shape(a[k])) if k in a and not isinstance(a[k], (str, tuple)) else "?") for k in ks}

    model = jit_model(variant, vals, switch)
    before = (num(model.state), flags(model.state), model.auto_update)
    iface = gs.LieselInterface(model)
    st = model.state
    keys = list(positions[0])
    traced = switch != "str"            # a str is not a valid JAX type (neither as argument nor as result): eager only
    eager = [iface.update_state({k: jnp.float32(v) for k, v in p.items()}, st) for p in positions]
    if traced:
        jitted = jax.jit(iface.update_state)
        jres = [jitted({k: jnp.float32(v) for k, v in p.items()}, st) for p in positions]
        batch = {k: jnp.array([p[k] for p in positions], dtype=jnp.float32) for k in keys}
        vres = jax.vmap(lambda p: iface.update_state(p, st))(batch)
    else:
        jres, vres = eager, None
    again = [iface.update_state({k: jnp.float32(v) for k, v in p.items()}, st) for p in positions]   # eager after tracing
    after = (num(model.state), flags(model.state), model.auto_update)
    # direct assignment on an independent model
    direct = jit_model(variant, vals, switch)
    dres = []
    for p in positions:
        direct.auto_update = False
        for k, v in p.items():
            direct.vars[k].value = jnp.float32(v)
        direct.update()
        dres.append(num(direct.state))

    out = {"kind": "jit", "variant": variant, "switch": switch, "vals": vals, "positions": positions,
           "scenario": f"jit.variant{variant}" + (f".switch_{switch}" if switch else ""),
           "model_unchanged": not diff(before[0], after[0]) and before[1:] == after[1:], "problems": []}
    for i, p in enumerate(positions):
        e = num(eager[i])
        if any(flags(eager[i]).values()):
            out["problems"].append(f"position {p}: eager result has outdated nodes")
        bad = diff(e, dres[i])
        if bad:
            out["problems"].append(f"position {p}: update_state differs from direct assignment + update() on nodes {bad} "
                                   f"(shapes {shapes(e, bad)} vs {shapes(dres[i], bad)} in the model itself)")
        if diff(e, num(jres[i])):
            out["problems"].append(f"position {p}: jax.jit(update_state) differs from the eager result on {diff(e, num(jres[i]))}")
        if any(flags(jres[i]).values()):
            out["problems"].append(f"position {p}: jitted result has outdated nodes")
        v = e if vres is None else {k: (np.asarray(s.value)[i].tolist() if not isinstance(s.value, (str, tuple)) else s.value)
                                    for k, s in vres.items() if s.value is not None}
        vb = [k for k in diff(e, v) if not (k in e and k in v and not isinstance(e[k], (str, tuple))
                                            and np.allclose(np.asarray(e[k], dtype=float), np.asarray(v[k], dtype=float), rtol=2e-5, atol=1e-5))]
        if vb:      # vmap broadcasts the entries that do not depend on the position: values only
            out["problems"].append(f"position {p}: jax.vmap(update_state) differs from the eager result on {vb}")
        if diff(e, num(again[i])):
            out["problems"].append(f"position {p}: eager call after tracing differs from the eager call before")
        lp = iface.log_prob(eager[i])
        if lp is None or not np.allclose(float(lp), float(np.sum(dres[i]["_model_log_prob"])), rtol=2e-5, atol=1e-5):
            out["problems"].append(f"position {p}: interface log_prob {lp} differs from model log_prob {dres[i]['_model_log_prob']}")
        xp = iface.extract_position(keys, eager[i])
        if any(not np.allclose(float(xp[k]), np.float32(p[k])) for k in keys):
            out["problems"].append(f"position {p}: extract_position gives {xp}")
    return out


def gen_jit(rnd, quick):
    cases = []
    others = [k for k in SWITCHES if k != "True"]
    plan = [(0, None), (2, None), (3, "True"), (3, rnd.choice(others))] if quick else \
           [(0, None), (1, None), (2, None)] + [(3, k) for k in SWITCHES]
    for variant, switch in plan:
        vals = [rnd.randint(-8, 8) / 4 for _ in range(2)] + [rnd.randint(1, 8) / 4] + [rnd.randint(-12, 12) / 4 for _ in range(6)]
        keys = ["b0", "b1"] if variant != 1 else ["b0", "log_sigma"]
        if variant == 3 and rnd.random() < 0.5:
            keys = ["b1", "sigma"]
        positions = [{k: (rnd.randint(1, 8) / 4 if k == "sigma" else rnd.randint(-8, 8) / 4) for k in keys} for _ in range(3)]
        cases.append(jit_case_safe(variant, vals, positions, switch))
    return cases


def jit_case_safe(variant, vals, positions, switch=None):
    try:
        return jit_case(variant, vals, positions, switch)
    except Exception as ex:
        import traceback
        return {"kind": "jit", "variant": variant, "switch": switch, "vals": vals, "positions": positions,
                "scenario": f"jit.variant{variant}" + (f".switch_{switch}" if switch else ""), "model_unchanged": True,
                "problems": [f"eager / jit / vmap calls on the array-valued model raise {ex!r} at "
                             + traceback.format_exc().strip().splitlines()[-3].strip()]}


# ---------------------------------------------------------------------------------------------
# corpus
# ---------------------------------------------------------------------------------------------
def corpus_cases():
    out = []
    # x -> a -> b (generated quantity, feeds no distribution); y ; same state twice with different keys; chained
    spec = {"items": [{"k": "value", "v": 2, "data": False},
                      {"k": "var", "weak": False, "role": "par", "v": 3,
                       "dist": {"ins": [0], "kw": [], "kwn": [], "fs": ["aff", 4, [3, 5]], "transient": False}},
                      {"k": "calc", "ins": [1], "kw": [], "kwn": [], "fs": ["aff", 3, [2]]},
                      {"k": "calc", "ins": [2, 0], "kw": [], "kwn": [], "fs": ["aff", 7, [4, 5]]}]}
    real = Real3(spec, None, 0)
    info = Info(real)
    kx, kxv, ky = info.kid["v1"], info.kid["v1_value"], info.kid["n0"]
    steps = [["update", [[kx, 10], [ky, 20]], 0], ["update", [[ky, 5]], 0], ["extract", [kx, ky], 2], ["lp", 2],
             ["update", [[kxv, 8]], 1], ["update", [[kxv, 1], [kx, 2]], 0], ["extract", [kxv, kx], 4],
             ["update", [[info.kid[NO_KEY], 1]], 0], ["update", [[ky, 6]], 0], ["update", [], 3]]
    for pre in ([], [["auto", False]]):
        c = drive_safe(spec, pre, steps, real.order)
        c["scenario"] = "corpus"
        c["flavour"] = "corpus"
        out.append(c)
    # user-supplied log-prob node (repair 3a71d35)
    spec2 = {"items": [{"k": "value", "v": 4, "data": False},
                       {"k": "calc", "ins": [0], "kw": [], "kwn": [], "fs": ["aff", 1, [3]]}], "user": {"prob": 1, "lik": 1}}
    real = Real3(spec2, None, 0)
    info = Info(real)
    c = drive_safe(spec2, [], [["update", [[info.kid["n0"], 9]], 0], ["lp", 1], ["lp", 0]], real.order)
    c["scenario"] = "corpus"
    c["flavour"] = "corpus"
    out.append(c)
    return out


# ---------------------------------------------------------------------------------------------
# run_standard interface
# ---------------------------------------------------------------------------------------------
def generate(ctx):
    import logging
    logging.getLogger("liesel").setLevel(logging.ERROR)
    warnings.simplefilter("ignore")
    rnd = random.Random(ctx.seed)
    ncases = 280 if ctx.quick else 6000
    cases = corpus_cases()
    flavours = ["mixed", "vars", "transient", "vars", "mixed", "plain"]
    i = 0
    while len(cases) < ncases:
        scenario = SCENARIOS[i % len(SCENARIOS)]
        flavour = flavours[(i // len(SCENARIOS)) % len(flavours)]
        if scenario in ("by_var_name", "alias") and flavour == "plain":
            flavour = "vars"
        if scenario == "two_models":
            cases.extend(make_pair(rnd))
        else:
            cases.append(make_case(rnd, ctx.quick, scenario, flavour))
        i += 1
    ncalls = 0
    distinct = set()
    for c in cases:
        ctx.hist("scenario." + c["scenario"])
        if c.get("anomaly"):
            ctx.hist("anomaly")
            continue
        n = len(c["kinds"])
        ctx.hist("nodes." + ("<=8" if n <= 8 else "9-13" if n <= 13 else "14-24" if n <= 24 else ">=25"))
        if c["spec"].get("user"):
            ctx.hist("model.user_log_prob_nodes")
        if c.get("extra_nodes"):
            ctx.hist("model.node_with_extra_state")
        items = c["spec"].get("items") or []
        if any(it.get("v") is True for it in items) or c["spec"].get("switch") is True:
            ctx.hist("model.node_value_is_True")
        if any(isinstance(it.get("v"), bool) or it.get("v") in (0, 1) for it in items):
            ctx.hist("model.node_value_is_singleton(bool/0/1)")
        dists = [it["dist"] for it in items if it.get("dist")] + [it for it in items if it["k"] in ("dist", "tdist")]
        if any(d.get("vec") and d.get("per_obs", True) for d in dists) or c["spec"].get("custom"):
            ctx.hist("model.per_obs_vector_log_prob")
        if any(d.get("vec") and not d.get("per_obs", True) for d in dists):
            ctx.hist("model.summed_vector_log_prob")
        if c["pre"] and ["auto", False] in c["pre"]:
            ctx.hist("model.auto_update_off_when_interface_created")
        seen_src = {}
        views = [c["state0"]]
        for st, ob in zip(c["steps"], c["obs"]):
            ncalls += 1
            ctx.hist("call." + st[0] + (".raises" if ob.get("raised") else ""))
            if st[0] in ("update", "save") and not ob.get("raised"):
                views.append(ob["view"])
            if st[0] == "update":
                if any(f for _, f in views[st[2]]):
                    ctx.hist("update.on_outdated_state(documented limit)")
                keyset = frozenset(k for k, _ in st[1])
                if st[2] in seen_src and not keyset >= seen_src[st[2]]:
                    ctx.hist("update.same_state_again_with_other_keys")
                seen_src[st[2]] = seen_src.get(st[2], frozenset()) | keyset
                if any(k in dict(map(tuple, c["vmap"])) and k not in dict(map(tuple, c["nmap"])) for k, _ in st[1]):
                    ctx.hist("update.key_is_variable_name")
                if not st[1]:
                    ctx.hist("update.empty_position")
                if ob.get("reput"):
                    ctx.hist("update.get_put")
        distinct.add(json.dumps([c["kinds"], c["ins"], c["pre"], c["steps"]]))
    flat = gen_flat(rnd, 150 if ctx.quick else 3000)
    for c in flat:
        ctx.hist("scenario." + c["scenario"])
        ctx.hist("flat." + c["op"][0] + (".raises" if (c.get("after", 0) is None or c.get("vals", 0) is None) else ""))
        distinct.add(json.dumps([c["flat"], c["state"], c["op"]]))
    jit = gen_jit(rnd, ctx.quick)
    for c in jit:
        ctx.hist("scenario." + c["scenario"])
    ctx.count(ncalls + len(flat) + sum(len(c["positions"]) for c in jit), len(distinct))
    ctx.cov["rule"] = ("one evaluation = one interface call on the real code (update_state / extract_position / log_prob / "
                       "model operation / flat-interface call / eager+jit+vmap triple) with its full result compared; distinct = "
                       "distinct (graph, pre-operations, call sequence) resp. (flat kind, state, call); forced scenario strata in round robin")
    for c in cases[:1] + cases[3:5]:
        if not c.get("anomaly"):
            ctx.sample({"kinds": "".join(c["kinds"]), "pre": c["pre"],
                        "steps": [[s[0]] + ([{c["names"][k]: v for k, v in s[1]}, s[2]] if s[0] == "update" else s[1:]) for s in c["steps"][:6]]})
    ctx.tested_not_proved += [
        "eager == jax.jit == jax.vmap results of update_state, and eager calls after tracing (XLA; array-valued models, tolerance 2e-5)",
        "non-mutation of the caller's model states and of the user's original model (aliasing; deep snapshots before/after every call)",
        "deepcopy fidelity of Model._copy_computational_model (the private copy behaves like the model: compared call by call)",
        "DictInterface / DataclassInterface / NamedTupleInterface against the overlay model on dict, dataclass (plain, init=False "
        "field, non-idempotent __post_init__) and named-tuple states; object identity / type preservation",
        "the deprecated alias lsl.GooseModel is driven like gs.LieselInterface (stratum goose_alias)",
        "independence from OTHER interface objects of the process (the model has one interface; C03_history_independent covers its own "
        "earlier calls): stratum two_models - two models in which the same key resolves to different nodes (variable with a default-named "
        "vs user-named value node plus an unrelated node of the default name; a variable name that is a node name in the other model), "
        "one interface each, used alternately, every call compared with the model, direct assignment, a fresh interface and put-get",
        "extra state information (NodeState.extra of a harness Calc subclass that overrides the state property) is not in the Coq "
        "model: the extras of every returned state are compared by the oracle with direct assignment on a fresh copy of the real "
        "model, with a freshly created interface and with the digest of the node's value",
        "node values that are Python singletons (True / False / 0 / 1 in the integer graphs, additionally 'on' / () / None in the "
        "array-valued family) and per-observation (vector) vs summed log-probs: a bool is compared as the integer it is, a "
        "per-observation vector through c01.canon_lp (wrong shape = a value no node function produces); shapes in the array-valued family",
    ]
    ctx.assume += [
        "wf g: positions are a topological order of the node graph, Value nodes have no inputs (checked per case by wfb)",
        "C03_update_state_spec / C03_equals_direct_assignment / C03_auto_update_irrelevant / C03_update_extract / C03_log_prob: the given "
        "model state is complete, coherent and up to date (good_state) - the precondition the code documents; "
        "C03_history_independent, C03_internal_only_auto, C03_extract_update hold for every state",
        "node functions are deterministic functions of their argument values",
    ]
    allc = cases + flat + jit
    nshr = 0
    for c in allc:
        if nshr >= 3:
            break
        if c["kind"] == "graph" and not c.get("anomaly") and oracle(c):
            try:
                c["shrunk"] = shrink(c)
            except Exception as ex:
                common.log("shrink failed:", repr(ex))
            nshr += 1
    return allc


def oracle(c):
    if c["kind"] == "flat":
        return check_flat(c)
    if c["kind"] == "jit":
        if not c["model_unchanged"]:
            return "the user's model was modified by interface calls (array-valued model)"
        return "; ".join(c["problems"][:3]) or None
    r = check_graph(c)
    if r:
        extra = ""
        if c.get("partner"):
            extra = (f"  [in one session with an interface for ANOTHER model ({c['partner']['spec'].get('custom')}), the two used alternately, "
                     f"{'this one first' if c.get('pair_first') else 'the other one first'}]")
        return f"{r[1]}  [model: {describe(c)}]{extra}"
    return None


def describe(c):
    if not c.get("order") or not c.get("kinds"):
        return json.dumps({"spec": c.get("spec"), "pre": c.get("pre"), "steps": c.get("steps")})[:1500]
    return "; ".join(f"{nm}:{k}{[c['order'][i] for i in ins] if ins else ''}" for nm, k, ins in zip(c["order"], c["kinds"], c["ins"]))


def shrink(c):
    """drop steps while the oracle still fails on the real code"""
    if c.get("partner"):
        return None          # the failure may need the interleaving with the other model: replayed as a pair
    r = check_graph(c)
    steps = [list(s) for s in c["steps"]]
    if r and r[0] >= 0:
        steps = steps[:r[0] + 1]

    def fails(steps, pre):
        cc = drive(c["spec"], pre, steps, c["order"], iface_kind=c.get("iface_kind", "liesel"))
        rr = check_graph(cc)
        return (rr[1], cc) if rr else None

    got = fails(steps, c["pre"])
    if not got:
        return None
    pre = c["pre"]
    i = 0
    while i < len(steps) - 1:
        s = steps[i]
        cand = steps[:i] + steps[i + 1:]
        makes = s[0] in ("update", "save")        # may append to the pool
        if makes:
            # pool index this step created (if it succeeded): number of successful pool-appending steps before + 1
            idx = 1 + sum(1 for t, o in zip(got[1]["steps"][:i], got[1]["obs"][:i]) if t[0] in ("update", "save") and not o.get("raised"))
            created = not got[1]["obs"][i].get("raised")
            if created:
                def ref(t):
                    return t[2] if t[0] in ("update", "extract") else t[1] if t[0] == "lp" else None
                if any(ref(t) == idx for t in cand[i:]):
                    i += 1
                    continue
                new = []
                for t in cand:
                    t = list(t)
                    if t[0] in ("update", "extract") and t[2] > idx and t in cand[i:]:
                        t[2] -= 1
                    elif t[0] == "lp" and t[1] > idx and t in cand[i:]:
                        t[1] -= 1
                    new.append(t)
                cand = new
        g2 = fails(cand, pre)
        if g2:
            steps, got = cand, g2
        else:
            i += 1
    if pre:
        g2 = fails(steps, [])
        if g2:
            pre, got = [], g2
    cc = got[1]
    return {"spec": c["spec"], "order": c["order"], "pre": pre, "steps": cc["steps"], "iface_kind": c.get("iface_kind", "liesel"),
            "why": got[0],
            "calls": [[s[0]] + ([{cc["names"][k]: v for k, v in s[1]}, f"state#{s[2]}"] if s[0] == "update" else
                                [[cc["names"][k] for k in s[1]], f"state#{s[2]}"] if s[0] == "extract" else s[1:]) for s in cc["steps"]]}


# ---- emission ------------------------------------------------------------------------------------
def ozlit(v):
    return "None" if v is None else f"(Some {zlit(v)})"


def view_lit(view):
    return lst(f"({ozlit(v)}, {blit(f)})" for v, f in view)


def pos_lit(pos):
    return lst(f"({natlit(k)}, {zlit(v)})" for k, v in pos)


def step_lit(st, ob):
    if st[0] == "update":
        return f"(OUpdate {pos_lit(st[1])} {natlit(st[2])}, BState {blit(ob['raised'])} {view_lit(ob['view'])})"
    if st[0] == "extract":
        return f"(OExtract {lst(natlit(k) for k in st[1])} {natlit(st[2])}, BPos {blit(ob['raised'])} {lst(ozlit(v) for v in ob['vals'])})"
    if st[0] == "lp":
        return f"(OLogProb {natlit(st[1])}, BLp {ozlit(ob['v'])})"
    if st[0] == "model":
        return f"(OModel {c01.op_lit(st[1])}, BModel {blit(ob['raised'])})"
    return f"(OSave, BState false {view_lit(ob['view'])})"


def case_lit(c):
    g = lst(c01.node_lit(k, i, f) for k, i, f in zip(c["kinds"], c["ins"], c["fs"]))
    nm = f"(mkNames {lst(f'({natlit(a)}, {natlit(b)})' for a, b in c['nmap'])} {lst(f'({natlit(a)}, {natlit(b)})' for a, b in c['vmap'])})"
    steps = lst(step_lit(st, ob) for st, ob in zip(c["steps"], c["obs"]))
    return (f"(mkC3 {g}\n   {nm}\n   {natlit(c['lp'])} {lst(zlit(v) for v in c['ext0'])}\n   {lst(c01.op_lit(o) for o in c['pre'])}\n   "
            f"{view_lit(c['state0'])}\n   {steps})")


def flat_lit(c):
    st = pos_lit(c["state"])
    if c["op"][0] == "update":
        op = f"(FUpdate {blit(c['flat'] != 'dict')} {pos_lit(c['op'][1])})"
        after = "None" if c["after"] is None else f"(Some {pos_lit(c['after'])})"
        return f"(mkFC {st} {op} {after} None)"
    op = f"(FExtract {lst(natlit(k) for k in c['op'][1])})"
    vals = "None" if c["vals"] is None else f"(Some {lst(zlit(v) for v in c['vals'])})"
    return f"(mkFC {st} {op} None {vals})"


def emit(ctx, cases):
    shards = []
    per = 100
    good = [i for i, c in enumerate(cases) if c["kind"] == "graph" and not c.get("anomaly")]
    for k in range(0, len(good), per):
        idxs = good[k:k + per]
        defs = [f"Definition c{j} : c03case :=\n  {case_lit(cases[i])}." for j, i in enumerate(idxs)]
        txt = HEADER + "\n".join(defs) + f"""
Definition cases : list c03case := {lst(f'c{j}' for j in range(len(idxs)))}.
Lemma shard_ok : forallb agrees3 cases = true.
Proof. vm_compute. reflexivity. Qed.
"""
        shards.append((ctx.new_shard(txt), idxs))
    flat = [i for i, c in enumerate(cases) if c["kind"] == "flat" and not c.get("bad_values")]
    for k in range(0, len(flat), 500):
        idxs = flat[k:k + 500]
        txt = HEADER + f"""Definition fcases : list flatcase := {lst(flat_lit(cases[i]) for i in idxs)}.
Lemma flat_ok : forallb flat_agrees fcases = true.
Proof. vm_compute. reflexivity. Qed.
"""
        shards.append((ctx.new_shard(txt), idxs))
    return shards


def diagnose(ctx, path, idxs, cases):
    src = open(path).read()
    bad = []
    if "Lemma shard_ok" in src:
        txt = src.split("Lemma shard_ok")[0] + "Eval vm_compute in (map verdict3 cases).\n"
        ok, out = ctx.coq_eval(txt)
        vs = common.parse_nat_list(out)
        for j, v in enumerate(vs):
            if v != 0 and j < len(idxs):
                what = {1: "graph not well-formed", 2: "_model_log_prob position out of range",
                        3: "model.state at interface creation differs"}.get(v, f"step {v - 4} differs from the model")
                cases[idxs[j]]["model_disagreement"] = what
                bad.append(idxs[j])
    else:
        txt = src.split("Lemma flat_ok")[0] + "Eval vm_compute in (failing flat_agrees fcases).\n"
        ok, out = ctx.coq_eval(txt)
        for j in common.parse_nat_list(out):
            if j < len(idxs):
                cases[idxs[j]]["model_disagreement"] = "flat overlay model differs"
                bad.append(idxs[j])
    return bad


def klass(c):
    return None


def search(ctx, disagreeing):
    """model and code disagree, but no sampled call sequence violates the property: more sequences on the
    disagreeing models, then a widened random search"""
    rnd = random.Random(ctx.seed + 1)
    found = []
    t_end = float(__import__('os').environ.get('LV_C03_SEARCH_S', 90 if ctx.quick else 300))
    t0 = time.time()
    for c in disagreeing:
        if c.get("kind") != "graph" or c.get("anomaly"):
            continue
        real = Real3(c["spec"], c["order"])
        info = Info(real)
        for _ in range(30):
            pre, steps = gen_steps(rnd, info, rnd.choice(SCENARIOS[:11]))
            cc = drive(c["spec"], pre, steps, c["order"], iface_kind=c.get("iface_kind", "liesel"))
            r = oracle(cc)
            if r:
                s = shrink(cc) or {"spec": cc["spec"], "order": cc["order"], "pre": pre, "steps": cc["steps"], "why": r}
                s["kind"] = "graph"
                found.append(s)
                break
        if found or time.time() - t0 > t_end:
            break
    k = 0
    while not found and time.time() - t0 < t_end:
        cc = make_case(rnd, True, SCENARIOS[k % len(SCENARIOS)], rnd.choice(["mixed", "transient", "vars"]))
        k += 1
        r = oracle(cc)
        if r:
            s = (None if cc.get("anomaly") else shrink(cc)) or {"spec": cc["spec"], "order": cc.get("order"), "pre": cc.get("pre"),
                                                                 "steps": cc.get("steps"), "why": r}
            s["kind"] = "graph"
            found.append(s)
    return found


def replay(rp) -> int:
    import logging
    logging.getLogger("liesel").setLevel(logging.ERROR)
    warnings.simplefilter("ignore")
    body = rp["replay"]
    c = body.get("case", body)
    if isinstance(c, dict) and c.get("shrunk"):
        c = c["shrunk"]
    if not isinstance(c, dict) or not ("spec" in c or c.get("kind") in ("flat", "jit")):
        ds = body.get("disagreeing_cases") or []
        if not ds:
            print("replay file names no concrete input (broken lemma only):", body.get("broken"))
            return 0
        c = ds[0]
    kind = c.get("kind", "graph")
    other = None
    try:
        if kind == "flat":
            cc = flat_case(c["flat"], c["fields"], c["values"], c["op"])
            print({k: cc.get(k) for k in ("flat", "state", "op", "after", "vals", "xp", "exc", "input_after")})
        elif kind == "jit":
            cc = jit_case_safe(c["variant"], c["vals"], c["positions"], c.get("switch"))
            print({k: cc.get(k) for k in ("variant", "switch", "vals", "positions", "problems", "model_unchanged")})
        else:
            if c.get("partner"):
                me = {k: c.get(k) for k in ("spec", "pre", "steps", "order", "iface_kind")}
                pair = drive_pair(me, c["partner"]) if c.get("pair_first", True) else drive_pair(c["partner"], me)[::-1]
                cc, other = pair[0], pair[1]
                print("two models, one interface each, used alternately;", "this model first" if c.get("pair_first", True) else "the other model first")
            else:
                cc = drive(c["spec"], c["pre"], c["steps"], c.get("order"), iface_kind=c.get("iface_kind", "liesel"))
            print("nodes (position: name kind inputs):")
            for k, nme in enumerate(cc["order"]):
                print(f"  {k}: {nme} {cc['kinds'][k]} {cc['ins'][k]}")
            print("operations on the model before the interface is created:", cc["pre"])
            print("state#0:", cc["state0"])
            for st, ob in zip(cc["steps"], cc["obs"]):
                shown = [st[0]] + ([{cc["names"][k]: v for k, v in st[1]}, f"state#{st[2]}"] if st[0] == "update" else
                                   [[cc["names"][k] for k in st[1]], f"state#{st[2]}"] if st[0] == "extract" else st[1:])
                print(" ", shown, "->", {k: v for k, v in ob.items()})
    except Anomaly as ex:
        print("REPLAY FAILS:", ex)
        return 1
    except Exception as ex:
        print("REPLAY FAILS: building / driving the model raises", repr(ex))
        return 1
    r = oracle(cc)
    if not r and kind == "graph" and other is not None:
        r = oracle(other)
        if r:
            print("(the failing call is made through the OTHER model's interface)")
    if r:
        print("REPLAY FAILS:", r)
        return 1
    print("replay passes on the current tree")
    return 0
