"""C10 - sampling is reproducible; chains are independent; initial values are honoured.

Every case is one run of the real EngineBuilder / Engine (harness kernels of c10_kit: every call logs
the PRNG key it was handed; transitions are a key-driven integer random walk; jitter functions and
quantity generators expose their keys).

Correspondence (flavour D, two Qed-closed lemmas per shard):
  K. key flow: every call of the run that exposes its key (kernel methods through the kernel log,
     quantity generators through the stored quantities, jitter functions through the first stored
     sample) is decoded to a path of the splitting tree (exact uint32 equality with jax.random.split
     along the path, starting from the seed's key) and Coq certifies that the Gallina model of
     builder.py / engine.py / kernel_sequence.py hands exactly that path to exactly that call, and
     that the model has no further call except those the run cannot expose (thinned-out quantities).
  S. states: Coq evaluates the model engine (set_initial_values, jitter, vmapped kernels, thinning) on
     the random-walk world with the same initial values and certifies that the stored trajectory of
     every chain equals the one the real engine stored (first sample = jitter_c(init_c) included).
Direct oracle (the property read literally on the observations): all keys of a run pairwise distinct;
first stored sample = supplied initial value after the jitter the jitter function itself reports;
identical rerun bit-identical; int seed = PRNGKey(seed); other chains bit-identical when one chain's
initial value is perturbed; replicated state = the same state supplied per chain; a valid configuration
does not raise.
"""
from __future__ import annotations

import copy
import json
import random

from . import common
from .common import blit, lst, natlit, zlit

HEADER = """From Coq Require Import List ZArith NArith Bool Arith.
Import ListNotations.
From LV Require Import Base.ListAux Goose.Epoch Goose.Keys Goose.Builder Goose.CorrC10.
Close Scope Z_scope.
Open Scope nat_scope.
"""

SIDE: dict = {}        # case id -> heavy observations (not written into replays)
DIAG: dict = {}        # case id -> diagnostic text from Coq


# ------------------------------------------------------------------------------------------------
# configurations
# ------------------------------------------------------------------------------------------------
def base_cfg(**kw):
    c = dict(seed_kind="int", seed=1, nch=2, nker=1, nqg=0, sched=[[0, 1, 1], [4, 2, 1]], via="builder",
             chunk=None, jit=None, init_mode="replicate", init=[[3, 4]], eseed=None, builds=1, pre_init=None, jit_pre=None)
    c.update(kw)
    return c


def corpus():
    out = []
    # 1: per-chain initial values (the path of defect F2), jitter on a subset in non-alphabetical order
    out.append(("per_chain+jitter_subset", base_cfg(seed=7, nch=3, nker=2, nqg=1,
                sched=[[0, 1, 1], [1, 4, 2], [4, 4, 1]], jit=["x", "p1"], init_mode="per_chain",
                init=[[5, 6, 7], [15, 16, 17], [25, 26, 27]])))
    # 2: one replicated state, no jitter
    out.append(("replicate+nojitter", base_cfg(seed=0, nch=2, nker=1, nqg=0, sched=[[0, 1, 1], [4, 2, 1]],
                init=[[3, 4]])))
    # 3: replicated state, jitter on everything, two generators, warm-up then posterior
    out.append(("replicate+jitter_all", base_cfg(seed=42, nch=2, nker=2, nqg=2,
                sched=[[0, 1, 1], [3, 2, 1], [4, 2, 1]], jit=["p0", "p1", "x"], init=[[100, 200, 300]])))
    # 4: public Engine constructor, chunk 1, slow adaptation (tune) and two posterior epochs
    out.append(("engine_ctor_chunk1", base_cfg(seed=5, nch=2, nker=2, nqg=1, via="engine", chunk=1,
                sched=[[0, 1, 1], [2, 2, 1], [4, 3, 1], [4, 1, 1]], init_mode="per_chain",
                init=[[1, 2, 3], [4, 5, 6]])))
    # 5: chunk does not divide a duration: _sample_for_duration raises
    out.append(("engine_ctor_chunk_not_dividing", base_cfg(seed=5, nch=1, nker=1, nqg=0, via="engine", chunk=2,
                sched=[[0, 1, 1], [1, 4, 1], [4, 3, 1]], init_mode="per_chain", init=[[1, 2]])))
    # 6: per-chain states for the wrong number of chains
    out.append(("per_chain_wrong_count", base_cfg(seed=3, nch=2, nker=1, nqg=0, init_mode="per_chain",
                init=[[1, 2], [3, 4], [5, 6]])))
    # 7: an arbitrary key as seed, a single chain, per-chain argument with one row
    out.append(("key_seed_single_chain", base_cfg(seed_kind="key", seed=[123456789, 4000000000], nch=1, nker=1,
                nqg=1, sched=[[0, 1, 1], [1, 2, 1], [4, 4, 2]], jit=["p0"], init_mode="per_chain", init=[[9, 8]])))
    # 8: only the initial-values epoch
    out.append(("init_epoch_only", base_cfg(seed=11, nch=2, nker=1, nqg=1, sched=[[0, 1, 1]], jit=["x"],
                init=[[50, 60]])))
    # 9: an empty jitter dictionary (the jitter key is split into zero keys)
    out.append(("empty_jitter_dict", base_cfg(seed=2, nch=2, nker=1, nqg=0, jit=[], init=[[7, 8]])))
    # 10: the largest int32 seed, three kernels, thinning in warm-up and posterior
    out.append(("seed_maxint+thinning", base_cfg(seed=2 ** 31 - 1, nch=2, nker=3, nqg=1,
                sched=[[0, 1, 1], [1, 4, 4], [4, 4, 2]], jit=["p2", "p0"], init_mode="per_chain",
                init=[[0, 9972, 1, 2], [9972, 0, 2, 1]])))
    # 11: build() called twice on one builder with jitter functions set: the second engine is run
    out.append(("build_twice+jitter", base_cfg(seed=42, nch=2, nker=2, nqg=1, sched=[[0, 1, 1], [3, 2, 1], [4, 2, 1]],
                jit=["p1", "x"], init_mode="per_chain", init=[[100, 200, 300], [400, 500, 600]], builds=2)))
    # 12: set_engine_seed with an integer (pair: the corresponding PRNG key)
    out.append(("set_engine_seed_int", base_cfg(seed=7, nch=3, nker=2, nqg=1, sched=[[0, 1, 1], [1, 2, 1], [4, 2, 1]],
                jit=["x", "p0"], init_mode="per_chain", init=[[5, 6, 7], [15, 16, 17], [25, 26, 27]],
                eseed=["int", 99])))
    # 13: builder reuse: other initial values are set and built first, then the real ones (replicated)
    out.append(("builder_reuse", base_cfg(seed=9, nch=2, nker=1, nqg=0, sched=[[0, 1, 1], [4, 2, 1]], jit=["p0"],
                init=[[70, 80]], pre_init={"mode": "per_chain", "init": [[1, 2], [3, 4]]})))
    # 14, 15: set_jitter_fns called more than once: the last call wins, None clears
    out.append(("jitter_then_none", base_cfg(seed=13, nch=2, nker=1, nqg=0, sched=[[0, 1, 1], [4, 2, 1]],
                jit_pre=[["p0", "x"]], jit=None, init_mode="per_chain", init=[[10, 20], [30, 40]])))
    out.append(("jitter_replaced", base_cfg(seed=14, nch=2, nker=2, nqg=0, sched=[[0, 1, 1], [4, 2, 1]],
                jit_pre=[["p0"], None], jit=["x", "p1"], init=[[10, 20, 30]])))
    # 16, 17: integer seeds outside [0, 2**32): the root key is jax.random.PRNGKey(seed) as jax computes it
    out.append(("seed_minus_one", base_cfg(seed=-1, nch=1, nker=1, nqg=0, sched=[[0, 1, 1], [4, 2, 1]], jit=["p0"],
                init=[[5, 6]])))
    out.append(("seed_2**32+5", base_cfg(seed=2 ** 32 + 5, nch=2, nker=1, nqg=1, sched=[[0, 1, 1], [1, 2, 1], [4, 2, 1]],
                jit=["x"], init=[[5, 6]])))
    return out


BOUNDARY_SEEDS = [2 ** 31 - 1, 2 ** 31, 2 ** 32 - 1, 2 ** 32, 2 ** 32 + 5, 2 ** 40 + 7, -1, -2 ** 31]


def thorough_extra():
    """thorough tier: every boundary seed as constructor seed and as set_engine_seed argument"""
    out = []
    for k, s in enumerate(BOUNDARY_SEEDS):
        out.append(("boundary_seed_%d" % s, base_cfg(seed=s, nch=1 + k % 2, nker=1, nqg=k % 2, sched=[[0, 1, 1], [4, 2, 1]],
                    jit=["p0"], init=[[5, 6]])))
    for k, s in enumerate(BOUNDARY_SEEDS[3:7]):
        out.append(("boundary_engine_seed_%d" % s, base_cfg(seed=3, nch=2, nker=1, nqg=0, sched=[[0, 1, 1], [4, 2, 1]],
                    jit=["x"], init=[[5, 6]], eseed=["int", s])))
    return out


def rand_sched(rnd, max_epochs):
    unit = rnd.choice([1, 1, 2, 2, 3])
    n = rnd.randint(1, max_epochs)
    n_post = rnd.randint(0, min(2, n))
    tys = sorted(rnd.choice([1, 2, 3]) for _ in range(n - n_post)) if rnd.random() < 0.5 else \
        [rnd.choice([1, 2, 3]) for _ in range(n - n_post)]
    tys += [4] * n_post
    s = [[0, 1, 1]]
    for ty in tys:
        d = unit * rnd.randint(1, 3)
        divs = [t for t in range(1, d + 1) if d % t == 0]
        th = (rnd.choice(divs) if ty == 4 else rnd.randint(1, d)) if rnd.random() < 0.4 else 1
        s.append([ty, d, th])
    return s


def rand_cfg(rnd, i):
    nch = rnd.choice([1, 2, 2, 3, 3, 4])
    nk = rnd.choice([1, 2, 2, 3])
    nq = rnd.choice([0, 1, 1, 2])
    sched = rand_sched(rnd, 4)
    names = [f"p{k}" for k in range(nk)] + ["x"]
    r = rnd.random()
    if r < 0.25:
        jit = None
    else:
        sub = [n for n in names if rnd.random() < 0.6]
        rnd.shuffle(sub)
        jit = sub
    mode = rnd.choice(["replicate", "per_chain", "per_chain"])
    rows = 1 if mode == "replicate" else nch
    init = [[rnd.choice([0, 1, 9972, rnd.randint(0, 9972), rnd.randint(-50, 50)]) for _ in names] for _ in range(rows)]
    if rnd.random() < 0.5:
        sk, seed = "int", rnd.choice([0, 1, rnd.randint(0, 2 ** 31 - 1), rnd.randint(0, 1000), rnd.choice(BOUNDARY_SEEDS)])
    else:
        sk, seed = "key", [rnd.randint(0, 2 ** 32 - 1), rnd.randint(0, 2 ** 32 - 1)]
    cfg = base_cfg(seed_kind=sk, seed=seed, nch=nch, nker=nk, nqg=nq, sched=sched, jit=jit, init_mode=mode, init=init)
    if rnd.random() < 0.2:
        pre = []
        for _ in range(rnd.randint(1, 2)):
            sub = [n for n in names if rnd.random() < 0.5]
            rnd.shuffle(sub)
            pre.append(rnd.choice([None, sub, sub]))
        cfg["jit_pre"] = pre
    r = rnd.random()
    if r < 0.2:
        cfg["builds"] = 2
    elif r < 0.4:
        cfg["eseed"] = rnd.choice([["int", rnd.randint(0, 10 ** 6)], ["ctor"],
                                   ["key", [rnd.randint(0, 2 ** 32 - 1), rnd.randint(0, 2 ** 32 - 1)]]])
    elif r < 0.5:
        pm = rnd.choice(["replicate", "per_chain"])
        cfg["pre_init"] = {"mode": pm, "init": [[rnd.randint(0, 9972) for _ in names]
                                                for _ in range(1 if pm == "replicate" else nch)]}
    if rnd.random() < 0.2 and len(sched) > 1:
        cfg.update(via="engine", jit=None, init_mode="per_chain", builds=1, pre_init=None, jit_pre=None,
                   init=[[rnd.randint(0, 9972) for _ in names] for _ in range(nch)])
        import math
        g = math.gcd(*[e[1] for e in sched[1:]])
        cfg["chunk"] = rnd.choice([d for d in range(1, g + 1) if g % d == 0])
    return cfg


def stratum(cfg):
    parts = [cfg["via"], cfg["init_mode"], "seed:" + cfg["seed_kind"],
             "jitter:" + ("none" if cfg["jit"] is None else ("empty" if not cfg["jit"] else
                          ("all" if len(cfg["jit"]) == cfg["nker"] + 1 else "subset")))]
    if cfg.get("eseed"):
        parts.append("set_engine_seed:" + cfg["eseed"][0])
    if cfg.get("builds", 1) > 1:
        parts.append("build() twice" + ("+jitter" if cfg["jit"] else ""))
    if cfg.get("pre_init"):
        parts.append("builder reuse after set_initial_values+build")
    if cfg.get("jit_pre"):
        parts.append("set_jitter_fns repeated, last:" + ("None" if cfg["jit"] is None else "dict"))
    if cfg["seed_kind"] == "int" and not (0 <= int(cfg["seed"]) < 2 ** 31 - 1):
        parts.append("int seed at / outside the int32 range")
    if any(e[0] in (1, 2) for e in cfg["sched"]) and any(e[0] == 4 for e in cfg["sched"]) and cfg["nch"] >= 2:
        parts.append("tuning history reaches end_warmup (>= 2 chains)")
    return parts


# ------------------------------------------------------------------------------------------------
# one run -> case
# ------------------------------------------------------------------------------------------------
def expected_chunk(cfg):
    from . import c10_kit as kit
    return kit.builder_chunk(cfg) if cfg["via"] == "builder" else int(cfg["chunk"])


def expect_raise(cfg):
    """why the documented behaviour of this configuration is an exception (None: it must run)"""
    from . import c10_kit as kit
    if cfg["init_mode"] == "per_chain" and len(cfg["init"]) != cfg["nch"]:
        return "initial states for %d chains, %d chains configured" % (len(cfg["init"]), cfg["nch"])
    if kit.py_events(cfg, expected_chunk(cfg)) is None:
        return "a duration is not a multiple of the jitted duration"
    return None


def init_row(cfg, c):
    return cfg["init"][0] if cfg["init_mode"] == "replicate" else cfg["init"][c]


def judge(cfg, obs):
    """the property read literally on one run's observations -> None | str"""
    from . import c10_kit as kit
    why = expect_raise(cfg)
    if obs["error"] is not None:
        if why is None:
            what = "per-chain" if cfg["init_mode"] == "per_chain" else "replicated"
            return (f"a valid configuration with {what} initial values raised {obs['error']}: "
                    f"{obs.get('message', '')[:160]} - no chain is started from its supplied initial value")
        return None
    if why is not None:
        return None          # the model says it raises; the Coq lemma reports the disagreement
    names = kit.pos_names(cfg)
    if obs["chains"] != cfg["nch"]:
        return f"{obs['chains']} chains stored, {cfg['nch']} configured"
    # first stored sample = supplied initial value after the configured jitter
    for c in range(cfg["nch"]):
        first = obs["stored"][c][0]
        row = init_row(cfg, c)
        for j, nm in enumerate(names):
            v, k0, k1, e, t = first[j]
            if cfg["jit"] is not None and nm in cfg["jit"]:
                if (k0, k1) == (-1, -1) and v == row[j]:
                    return (f"chain {c}: first stored sample of {nm} is the un-jittered initial value {v}: the "
                            f"configured jitter function was not applied (its key slots are untouched)")
                want = row[j] + kit.d_jit((k0 & 0xFFFFFFFF, k1 & 0xFFFFFFFF))
                if v != want or e != -1:
                    return (f"chain {c}: first stored sample of {nm} is {v}, the supplied initial value {row[j]} "
                            f"after the jitter of the key the jitter function received is {want}")
            elif [v, k0, k1, e, t] != [row[j], -1, -1, -1, -1]:
                return (f"chain {c}: first stored sample of {nm} is {[v, k0, k1, e, t]}, the supplied initial "
                        f"value (no jitter configured for it) is {[row[j], -1, -1, -1, -1]}")
    # every call in every chain and iteration receives a distinct key
    seen = {}
    for (lab, kw, where) in kit.observed_calls(cfg, obs):
        if kw in seen and seen[kw] != lab:
            return (f"the {kit.METH_NAME[lab[1]]} call {describe(lab)} and the {kit.METH_NAME[seen[kw][1]]} call "
                    f"{describe(seen[kw])} received the same PRNG key {list(kw)}")
        if kw in seen:
            return f"the call {describe(lab)} was observed twice with key {list(kw)}"
        seen[kw] = lab
    # ... and no key handed to a call is split again (its children would be correlated with it)
    kids = kit.split_children(cfg, expected_chunk(cfg), list(seen))
    for kw, lab in seen.items():
        if kw in kids:
            par, n, i = kids[kw]
            return (f"the PRNG key {list(par)} handed to the {kit.METH_NAME[seen[par][1]]} call {describe(seen[par])} "
                    f"was also split: the {kit.METH_NAME[lab[1]]} call {describe(lab)} received "
                    f"jax.random.split(key, {n})[{i}] = {list(kw)}")
    return None


def describe(lab):
    return f"(chain {lab[0]}, index {lab[2]}, epoch {lab[3]}, time_in_epoch {lab[4]})"


def compare_runs(cfg_a, obs_a, cfg_b, obs_b, chains=None):
    """bit-for-bit comparison of everything two runs expose (restricted to the given chains)"""
    obs_a, obs_b = json.loads(json.dumps(obs_a)), json.loads(json.dumps(obs_b))
    if obs_a["error"] or obs_b["error"]:
        if obs_a["error"] != obs_b["error"]:
            return f"one run raised {obs_a['error']}, the other {obs_b['error']}"
        return None
    cs = range(cfg_a["nch"]) if chains is None else chains
    for c in cs:
        if obs_a["stored"][c] != obs_b["stored"][c]:
            t = next(i for i, (x, y) in enumerate(zip(obs_a["stored"][c], obs_b["stored"][c])) if x != y) \
                if len(obs_a["stored"][c]) == len(obs_b["stored"][c]) else -1
            return f"stored positions of chain {c} differ (first at stored index {t})"
        for g in range(len(obs_a["quants"])):
            if obs_a["quants"][g][c] != obs_b["quants"][g][c]:
                return f"generated quantities of chain {c} differ"
        if (obs_a["logs"] is None) != (obs_b["logs"] is None):
            return "kernel logs differ"
        if obs_a["logs"] is not None and obs_a["logs"][c] != obs_b["logs"][c]:
            return f"kernel calls / keys of chain {c} differ"
    return None


KINDS = ["rerun", "seed_equiv", "perturb", "replicate_equiv", "build_twice", "eseed_equiv", "eseed_ctor", "reuse",
         "jit_script"]


def pair_variants(cfg, i, rnd):
    """metamorphic partner of a configuration: [(kind, partner cfg, chains to compare)]; kind number i is
    taken if it applies to the configuration, otherwise the next one that does"""
    from . import c10_kit as kit
    bld = cfg["via"] == "builder"
    es = cfg.get("eseed")
    ok = {"rerun": True, "seed_equiv": cfg["seed_kind"] == "int", "perturb": cfg["nch"] >= 2,
          "replicate_equiv": cfg["init_mode"] == "replicate" and bld,
          "build_twice": bld,
          "eseed_equiv": bld and es is not None and es[0] == "int",
          "eseed_ctor": bld and es is None,
          "reuse": bld, "jit_script": bld}
    n = len(KINDS)
    kind = next(KINDS[(i + d) % n] for d in range(n) if ok[KINDS[(i + d) % n]]) if i % n else "rerun"
    p = copy.deepcopy(cfg)
    chains = None
    if kind == "seed_equiv":
        p["seed_kind"], p["seed"] = "key", kit.root_key(cfg)
    elif kind == "perturb":
        if p["init_mode"] == "replicate":
            p["init_mode"], p["init"] = "per_chain", [list(cfg["init"][0]) for _ in range(cfg["nch"])]
        j = rnd.randrange(cfg["nch"])
        p["init"][j] = [v + 1000 + 7 * k for k, v in enumerate(p["init"][j])]
        p["perturbed_chain"] = j
        chains = [c for c in range(cfg["nch"]) if c != j]
    elif kind == "replicate_equiv":
        p["init_mode"], p["init"] = "per_chain", [list(cfg["init"][0]) for _ in range(cfg["nch"])]
    elif kind == "build_twice":
        p["builds"] = 2 if cfg.get("builds", 1) == 1 else 1
    elif kind == "eseed_equiv":
        p["eseed"] = ["key", kit.engine_root_key(cfg)]
    elif kind == "eseed_ctor":
        p["eseed"] = ["ctor"]
    elif kind == "jit_script":
        # the same final jitter configuration reached directly / through earlier set_jitter_fns calls
        p["jit_pre"] = None if cfg.get("jit_pre") else [kit.pos_names(cfg), None][: 1 + (cfg["nch"] % 2)]
    elif kind == "reuse" and cfg.get("pre_init"):
        p["pre_init"] = None
    elif kind == "reuse":
        names = kit.pos_names(cfg)
        p["pre_init"] = {"mode": "per_chain", "init": [[(17 * c + 3 * k + 1) % 9973 for k in range(len(names))]
                                                       for c in range(cfg["nch"])]}
    return [(kind, p, chains)]


PAIR_TEXT = {
    "rerun": "two runs with identical seed, model, kernels and schedule differ: ",
    "seed_equiv": "the run with the integer seed and the run with jax.random.PRNGKey(seed) differ: ",
    "perturb": "perturbing the initial value of chain %s changed another chain: ",
    "replicate_equiv": "one replicated state and the same state supplied per chain give different runs: ",
    "build_twice": "the engine of a second build() on the same builder differs from the engine of the first build(): ",
    "eseed_equiv": "set_engine_seed(int) and set_engine_seed(jax.random.PRNGKey(int)) give different runs: ",
    "eseed_ctor": "handing the builder's own engine_seed back through set_engine_seed changes the run: ",
    "reuse": "a builder on which other initial values were set and built before gives a different engine for the "
             "same final initial values: ",
    "jit_script": "the run differs from the run in which only the last set_jitter_fns call is made (the last call "
                  "must win, None must clear): ",
    "process_rerun": "the same configuration run in a fresh interpreter process (PYTHONHASHSEED=%s) differs: ",
}

HASHSEEDS_QUICK = ["1", "2"]
HASHSEEDS_THOROUGH = ["1", "2", "3", "4"]
PROCESS_CFG_INDEX = 2          # corpus entry run again in fresh processes: three jitter functions


def make_case(ctx, cid, name, cfg, pair=None):
    from . import c10_kit as kit
    pub = {k: v for k, v in cfg.items() if k != "perturbed_chain"}
    import time
    t0 = time.time()
    obs = kit.run_config(pub)
    common.log(f"C10 run {cid} {name}: {time.time() - t0:.1f}s" + (f" raised {obs['error']}" if obs["error"] else ""))
    case = {"id": cid, "name": name, "cfg": pub, "error": obs["error"], "message": obs.get("message"),
            "expect_raise": expect_raise(pub), "oracle": judge(pub, obs), "pair": None}
    SIDE[cid] = obs
    if pair is not None:
        kind, base_id, chains, base_case = pair
        base_obs = SIDE[base_id]
        diff = compare_runs(base_case["cfg"], base_obs, pub, obs, chains)
        case["pair"] = {"kind": kind, "with": base_case["cfg"], "chains": chains,
                        "perturbed_chain": cfg.get("perturbed_chain"), "diff": diff}
        if diff and not case["oracle"]:
            txt = PAIR_TEXT[kind]
            if kind == "perturb":
                txt = txt % cfg.get("perturbed_chain")
            case["oracle"] = txt + diff
    for s in stratum(pub):
        ctx.hist(s)
    ctx.hist("nch=%d" % pub["nch"])
    ctx.hist("nker=%d" % pub["nker"])
    ctx.hist("nqg=%d" % pub["nqg"])
    ctx.hist("epochs=%d" % len(pub["sched"]))
    if any(e[2] > 1 for e in pub["sched"]):
        ctx.hist("thinning>1")
    if obs["error"]:
        ctx.hist("raised:" + obs["error"])
    if pair is not None:
        ctx.hist("pair:" + pair[0])
    return case


def generate(ctx):
    import time
    common.log(f"C10 generate starts at {time.time() - ctx.t0:.0f}s")
    rnd = random.Random(ctx.seed)
    cases = []
    n_rand = 2 if ctx.quick else 60
    n_pairs_rand = 1 if ctx.quick else 30
    ncorp = len(corpus())
    todo = [(nm, cfg) for nm, cfg in corpus()] + [("random%03d" % i, rand_cfg(rnd, i)) for i in range(n_rand)]
    if not ctx.quick:
        todo += thorough_extra()
    from . import c10_kit as kit0
    pname, pcfg0 = corpus()[PROCESS_CFG_INDEX]
    procs = [(hs, kit0.spawn_run(pcfg0, hs)) for hs in (HASHSEEDS_QUICK if ctx.quick else HASHSEEDS_THOROUGH)]
    process_base = None
    # corpus index -> partner kinds (indices into KINDS)
    pair_for = {0: [0, 2], 1: [6], 2: [3], 9: [2], 10: [4], 11: [5], 12: [7], 13: [8], 14: [8], 15: [1], 16: [1]}
    for idx, (nm, cfg) in enumerate(todo):
        cid = len(cases)
        case = make_case(ctx, cid, nm, cfg)
        cases.append(case)
        if idx == PROCESS_CFG_INDEX:
            process_base = case
        kinds = []
        if idx in pair_for:
            kinds = pair_for[idx]
        elif nm.startswith("boundary_seed"):
            kinds = [KINDS.index("seed_equiv")]
        elif nm.startswith("boundary_engine_seed"):
            kinds = [KINDS.index("eseed_equiv")]
        elif idx >= ncorp and (idx - ncorp) < n_pairs_rand * 2 and idx % 2 == 0:
            kinds = [1 + (idx // 2) % 8 if (idx // 2) % 9 else 0]      # rotate the partner kinds, every 9th a rerun
            # the builder strata get their own partner
            if cfg["via"] == "builder" and (cfg.get("eseed") or [None])[0] == "int":
                kinds = [KINDS.index("eseed_equiv")]
            elif cfg["via"] == "builder" and cfg.get("builds", 1) > 1:
                kinds = [KINDS.index("build_twice")]
            elif cfg["via"] == "builder" and cfg.get("pre_init"):
                kinds = [KINDS.index("reuse")]
            elif cfg["via"] == "builder" and cfg.get("jit_pre"):
                kinds = [KINDS.index("jit_script")]
        if case["error"] is not None:
            kinds = []
        for k in kinds:
            for (kind, pcfg, chains) in pair_variants(cfg, k, rnd):
                pid = len(cases)
                cases.append(make_case(ctx, pid, nm + "/" + kind, pcfg, (kind, cid, chains, case)))
    # the runs in fresh interpreter processes
    for hs, p in procs:
        obs = kit0.collect_run(p)
        cid = len(cases)
        SIDE[cid] = obs
        diff = compare_runs(pcfg0, SIDE[process_base["id"]], pcfg0, obs, None)
        case = {"id": cid, "name": f"{pname}/process_rerun", "cfg": pcfg0, "error": obs["error"],
                "message": obs.get("message"), "expect_raise": None, "oracle": judge(pcfg0, obs),
                "pair": {"kind": "process_rerun", "with": pcfg0, "chains": None, "perturbed_chain": hs,
                         "hashseed": hs, "diff": diff}}
        if diff and not case["oracle"]:
            case["oracle"] = PAIR_TEXT["process_rerun"] % hs + diff
        ctx.hist("pair:process_rerun")
        cases.append(case)
    ncalls = 0
    distinct = set()
    for c in cases:
        obs = SIDE[c["id"]]
        if not obs["error"]:
            from . import c10_kit as kit
            ncalls += len(kit.observed_calls(c["cfg"], obs))
        distinct.add(json.dumps([c["cfg"].get(k) for k in ("nch", "nker", "nqg", "sched", "via", "chunk", "jit", "init_mode",
                                                           "builds", "jit_pre")] + [(c["cfg"].get("eseed") or [None])[0],
                                                                         bool(c["cfg"].get("pre_init"))]))
    ctx.count(ncalls + len(cases), len(distinct))
    ctx.hist("observed key-consuming calls", ncalls)
    ctx.cov["rule"] = ("distinct non-trivial cases = engine runs with pairwise different (chains, kernels, generators, "
                       "schedule, constructor, chunk, jitter dict, initial-value mode); evaluations = runs + calls "
                       "whose concrete key was decoded and compared with the model's path")
    for c in cases[:3]:
        ctx.sample({"name": c["name"], "cfg": c["cfg"], "error": c["error"],
                    "stored_first_chain": SIDE[c["id"]].get("stored", [[]])[0][:2]})
    ctx.assume += [
        "jax.random.split behaves like a free splitting tree (distinct paths give distinct keys): trusted; every run "
        "checks concrete pairwise distinctness of all observed keys and re-derives each key along the model's path",
        "jit = identity, lax.scan = left fold, vmap = map over chains (DESIGN 4.4)",
        "C10_first_sample: schedule valid and non-empty; C10_repaired_defined: chunk = gcd of the durations, "
        "per-chain states for exactly num_chains chains",
    ]
    ctx.tested_not_proved += [
        "bit-identical results of two identical runs (XLA runtime determinism): tested by rerunning configurations in the "
        "same process and in fresh interpreter processes with other PYTHONHASHSEED values",
        "int seed = PRNGKey(seed) end-to-end, replicated state = the same state per chain, other chains unchanged when "
        "one chain's initial value is perturbed: the theorems hold of the model; on the code they are tested by paired runs",
        "concrete distinctness of threefry keys derived along distinct paths (checked on all observed keys of every run)",
        "jitter keys / quantity-generator keys are observed through stored values only (thinned-out quantities are "
        "declared unobservable in the shard)",
        "hand-made multi-chain engine keys (set_engine_seed with an array of shape (chains, 2)) are not modelled",
    ]
    ctx.extra_tb = ["oracle: threefry (jax.random.split / PRNGKey) - the concrete key of a path and the numbers the "
                    "harness kernels compute from it are supplied per case by the harness",
                    "harness kernels, generators and jitter functions of harness/lv/c10_kit.py, enginekit.LoggingKernel"]
    return cases


# ------------------------------------------------------------------------------------------------
# emission
# ------------------------------------------------------------------------------------------------
def nlit(n):
    return f"0x{int(n):x}%N"


def nat(n):
    n = int(n)
    return natlit(n if 0 <= n < 5000 else 4999)


def sched_lit(s):
    return lst(f"({zlit(t)}, {zlit(d)}, {zlit(th)})%Z" for t, d, th in s)


def jit_lit(cfg):
    return "None" if cfg["jit"] is None else f"(Some {nat(len(cfg['jit']))})"


def decode_table(cfg):
    """concrete key -> (label, path) for every call of the configuration's key flow"""
    from . import c10_kit as kit
    from . import enginekit as ek
    ev = kit.py_events(cfg, expected_chunk(cfg))
    if ev is None:
        return None, None
    uses, splits = ev
    root = kit.root_key(cfg)
    tab = {}
    for lab, path in uses:
        tab[tuple(kit.concrete_key(cfg, path))] = (lab, path)
    return uses, tab


def k_case(cfg, obs):
    from . import c10_kit as kit
    chunk = expected_chunk(cfg)
    raised = obs["error"] is not None
    olist, ulist = [], []
    if not raised:
        uses, tab = decode_table(cfg)
        calls = kit.observed_calls(cfg, obs)
        seen = set()
        for lab, kw, where in calls:
            hit = tab.get(tuple(kw)) if tab is not None else None
            code = kit.encode(hit[1]) if hit else 0
            olist.append("(mkO %s %s %s %s %s %s)" % (nat(lab[0]), nat(lab[1]), nat(lab[2]), nat(lab[3]), nat(lab[4]), nlit(code)))
            seen.add(lab)
        # calls the run cannot expose: quantities of thinned-out iterations; init_state when nothing is sampled
        if uses is not None:
            for lab, path in uses:
                if lab in seen:
                    continue
                c, m, i, e, t = lab
                thin = cfg["sched"][e][2] if e < len(cfg["sched"]) else 1
                hidden = (m == kit.MQ and thin > 1 and t % thin != 0) or (m == kit.MI and obs["logs"] is None)
                if hidden:
                    ulist.append("(mkO %s %s %s %s %s 0%%N)" % (nat(c), nat(m), nat(i), nat(e), nat(t)))
    return "(mkCC %s %s %s %s %s %s %s %s %s %s)" % (nat(cfg["nch"]), jit_lit(cfg), nat(cfg["nker"]), nat(cfg["nqg"]),
                                                    nat(chunk), blit(kit.overridden(cfg)), sched_lit(cfg["sched"]),
                                                    blit(raised), lst(olist), lst(ulist))


def s_case(cfg, obs):
    from . import c10_kit as kit
    from . import enginekit as ek
    chunk = expected_chunk(cfg)
    raised = obs["error"] is not None
    names = kit.pos_names(cfg)
    tgt = [names.index(n) for n in (cfg["jit"] or [])]
    tbl = []
    ev = kit.py_events(cfg, chunk)
    if ev is not None and not raised:
        root = kit.root_key(cfg)
        for lab, path in ev[0]:
            if lab[1] == kit.MT:
                tbl.append("(%s, %s%%Z)" % (nlit(kit.encode(path)), zlit(kit.d_trans(kit.concrete_key(cfg, path)))))
            elif lab[1] == kit.MJ:
                tbl.append("(%s, %s%%Z)" % (nlit(kit.encode(path)), zlit(kit.d_jit(kit.concrete_key(cfg, path)))))

    def zl(vs):
        return "[" + "; ".join(zlit(v) for v in vs) + "]%Z"

    def init_lit(mode, rows):
        if mode == "replicate":
            return "(Replicate %s)" % zl(rows[0])
        return "(PerChain %s)" % lst(zl(r) for r in rows)

    # the builder calls of run_config, in its order
    ops = []
    es = cfg.get("eseed")
    if es is not None:
        if es[0] == "int":
            ops.append("(BSetEngineSeed (IntSeed 1%Z))")
        elif es[0] == "key":
            ops.append("(BSetEngineSeed (KeySeed (tagkey 1%Z)))")
        else:
            ops.append("(BSetEngineSeed (KeySeed (b_engine [])))")
    if cfg["via"] == "builder":
        def jd(js):
            return "None" if js is None else "(Some %s)" % lst(nat(names.index(n)) for n in js)

        for jp in cfg.get("jit_pre") or []:
            ops.append("(BSetJitter %s)" % jd(jp))
        if cfg["jit"] is not None or cfg.get("jit_pre"):
            ops.append("(BSetJitter %s)" % jd(cfg["jit"]))
        pre = cfg.get("pre_init")
        if pre is not None:
            ops += ["(BSetInit %s)" % init_lit(pre["mode"], pre["init"]), "BBuild"]
        ops.append("(BSetInit %s)" % init_lit(cfg["init_mode"], cfg["init"]))
        ops += ["BBuild"] * int(cfg.get("builds", 1))
    else:
        # public Engine constructor: seeds = split(builder.engine_seed, chains), the states as given
        ops += ["(BSetInit %s)" % init_lit(cfg["init_mode"], cfg["init"]), "BBuild"]
    stored = []
    if not raised:
        for seq in kit.stored_values(cfg, obs):
            stored.append(lst("(%s, %s, %s)" % (nat(e), nat(t), zl(v)) for e, t, v in seq))
    return "(mkSC %s %s %s %s %s %s %s %s %s %s)" % (
        nat(cfg["nch"]), lst(nat(t) for t in tgt), nat(cfg["nker"]), nat(cfg["nqg"]), nat(chunk),
        sched_lit(cfg["sched"]), lst(tbl), lst(ops), blit(raised), lst(stored))


def emit(ctx, cases):
    import time
    common.log(f"C10 emit starts at {time.time() - ctx.t0:.0f}s")
    shards = []
    per = 4
    for k in range(0, len(cases), per):
        idxs = list(range(k, min(k + per, len(cases))))
        krows, kidx, srows = [], [], []
        for i in idxs:
            c = cases[i]
            obs = SIDE[c["id"]]
            wrong_count = c["cfg"]["init_mode"] == "per_chain" and len(c["cfg"]["init"]) != c["cfg"]["nch"]
            if not wrong_count:        # the key-flow model does not see the initial values
                krows.append(k_case(c["cfg"], obs))
                kidx.append(i)
            srows.append(s_case(c["cfg"], obs))
        txt = HEADER + f"""
Definition kcases : list ccase := {lst(krows)}.
Definition scases : list scase := {lst(srows)}.
Lemma shard_ok_keys : forallb agrees kcases = true.
Proof. vm_compute. reflexivity. Qed.
Lemma shard_ok_states : forallb (s_agrees SivRepaired BuildPure) scases = true.
Proof. vm_compute. reflexivity. Qed.
"""
        p = ctx.new_shard(txt)
        SIDE[("kidx", p)] = kidx
        shards.append((p, idxs))
    common.log(f"C10 emit done at {time.time() - ctx.t0:.0f}s")
    return shards


def diagnose(ctx, path, idxs, cases):
    txt = open(path).read().split("Lemma shard_ok_keys")[0]
    txt += ("Eval vm_compute in (failing agrees kcases).\n"
            "Eval vm_compute in (failing (s_agrees SivRepaired BuildPure) scases).\n"
            "Eval vm_compute in (failing (s_agrees SivAsFound BuildPure) scases).\n"
            "Eval vm_compute in (failing (s_agrees SivRepaired BuildWritesJitter) scases).\n")
    ok, out = ctx.coq_eval(txt)
    blocks = out.split(" : list nat")
    lists = []
    for b in blocks[:4]:
        lists.append(common.parse_nat_list(b + " : list nat"))
    while len(lists) < 4:
        lists.append([])
    kbad, sbad, sfound_bad, swrites_bad = lists
    kidx = SIDE[("kidx", path)]
    bad = set()
    for j in kbad:
        if j < len(kidx):
            bad.add(kidx[j])
            DIAG.setdefault(kidx[j], []).append("key flow: the calls / keys of the run are not those of the model")
    for j in sbad:
        if j < len(idxs):
            bad.add(idxs[j])
            note = "states: the stored trajectory (or the raise) is not the one of the model engine"
            if j not in sfound_bad:
                note += "; it IS the behaviour of set_initial_values as found before the repair 317d8ca (defect F2)"
            elif j not in swrites_bad:
                note += "; it IS the behaviour of a build() that stores the jittered states back into the builder"
            DIAG.setdefault(idxs[j], []).append(note)
    # detail for the first key-flow disagreement
    if kbad and not DIAG.get("detail_done"):
        DIAG["detail_done"] = True
        j = kbad[0]
        t2 = open(path).read().split("Lemma shard_ok_keys")[0]
        t2 += f"Eval vm_compute in (firstn 5 (mismatches (nth {j} kcases (mkCC 0 None 0 0 0 false [] false [] [])))).\n"
        t2 += f"Eval vm_compute in (firstn 5 (missing (nth {j} kcases (mkCC 0 None 0 0 0 false [] false [] [])))).\n"
        ok2, out2 = ctx.coq_eval(t2)
        DIAG.setdefault(kidx[j] if j < len(kidx) else -1, []).append(
            "first mismatches (chain, method, index, epoch, time, observed path code, model path code) / model calls "
            "not observed: " + " ".join(out2.split())[:1500])
    return sorted(bad)


def oracle(case):
    return case["oracle"]


def klass(case):
    return None


def key_detail(case):
    """name the first call whose concrete key is not the one the model's path gives"""
    from . import c10_kit as kit
    obs = SIDE.get(case["id"])
    if obs is None or obs["error"]:
        return None
    uses, tab = decode_table(case["cfg"])
    if uses is None:
        return None
    by_label = {lab: path for lab, path in uses}
    from . import enginekit as ek
    root = kit.root_key(case["cfg"])
    for lab, kw, where in kit.observed_calls(case["cfg"], obs):
        path = by_label.get(lab)
        if path is None:
            return {"call": [kit.METH_NAME[lab[1]]] + list(lab), "observed_key": list(kw), "seen_in": where,
                    "model": "the model has no such call"}
        want = kit.concrete_key(case["cfg"], path)
        if list(kw) != want:
            hit = tab.get(tuple(kw))
            return {"call": [kit.METH_NAME[lab[1]]] + list(lab), "observed_key": list(kw), "seen_in": where,
                    "model_path": [list(p) for p in path], "model_key": want,
                    "observed_key_is_the_model_key_of": (list(hit[0]) if hit else "no call of the model")}
    seen = {lab for lab, _, _ in kit.observed_calls(case["cfg"], obs)}
    return {"missing_calls": [list(l) for l, _ in uses if l not in seen][:5]}


def search(ctx, disagreeing):
    """the disagreeing runs re-judged by the direct oracle, then their metamorphic partners"""
    from . import c10_kit as kit
    found = []
    rnd = random.Random(ctx.seed + 1)
    for case in disagreeing[:6]:
        r = case["oracle"]
        if r:
            found.append({"why": r, **pub_case(case)})
            continue
        if case["error"] is not None:
            continue
        base_obs = SIDE[case["id"]]
        for k in range(len(KINDS)):
            for (kind, pcfg, chains) in pair_variants(case["cfg"], k, rnd):
                pub = {a: b for a, b in pcfg.items() if a != "perturbed_chain"}
                obs = kit.run_config(pub)
                r = judge(pub, obs)
                if not r:
                    d = compare_runs(case["cfg"], base_obs, pub, obs, chains)
                    if d:
                        r = PAIR_TEXT[kind].replace("%s", str(pcfg.get("perturbed_chain"))) + d
                if r:
                    found.append({"why": r, "cfg": pub, "name": case["name"] + "/" + kind,
                                  "pair": {"kind": kind, "with": case["cfg"], "chains": chains,
                                           "perturbed_chain": pcfg.get("perturbed_chain")}})
                    break
            if found:
                break
        if found:
            break
    if not found:
        # no property failure: attach what exactly disagrees to the (no-failing-input) report
        for case in disagreeing[:3]:
            det = key_detail(case)
            ctx.broken.append("C10 %s: %s %s" % (case["name"], "; ".join(DIAG.get(case["id"], [])),
                                                 json.dumps(det) if det else ""))
    return found


def pub_case(case):
    return {"cfg": case["cfg"], "name": case["name"], "error": case["error"], "message": case["message"],
            "pair": case["pair"], "notes": DIAG.get(case["id"], [])}


# ------------------------------------------------------------------------------------------------
def replay(rp) -> int:
    from . import c10_kit as kit
    from . import enginekit as ek
    r = rp["replay"]
    case = r.get("case")
    if case is None and r.get("disagreeing_cases"):
        case = r["disagreeing_cases"][0]
    if case is None or "cfg" not in case:
        print("replay file names no concrete input (broken lemma only):", r.get("broken"))
        return 0
    cfg = case["cfg"]
    print("configuration:", json.dumps(cfg))
    obs = kit.run_config(cfg)
    print("run:", "raised " + obs["error"] + ": " + str(obs.get("message")) if obs["error"] else
          f"{obs['chains']} chains, {obs['n_stored']} stored samples; first stored sample of chain 0: {obs['stored'][0][0]}")
    res = judge(cfg, obs)
    pair = case.get("pair")
    if not res and pair and pair["kind"] == "process_rerun":
        obs0 = kit.run_config(cfg)
        for hs in sorted({pair.get("hashseed", "1"), "1", "2", "3"}):
            obs1 = kit.collect_run(kit.spawn_run(cfg, hs))
            d = compare_runs(cfg, obs0, cfg, obs1, None)
            if d:
                res = PAIR_TEXT["process_rerun"] % hs + d
                break
        pair = None
    if not res and pair:
        obs0 = kit.run_config(pair["with"])
        d = compare_runs(pair["with"], obs0, cfg, obs, pair.get("chains"))
        if d:
            res = PAIR_TEXT[pair["kind"]].replace("%s", str(pair.get("perturbed_chain"))) + d
    if not res and not obs["error"] and expect_raise(cfg) is None:
        # correspondence: keys along the model's paths
        uses, tab = decode_table(cfg)
        by_label = {lab: path for lab, path in uses}
        root = kit.root_key(cfg)
        for lab, kw, where in kit.observed_calls(cfg, obs):
            path = by_label.get(lab)
            if path is None or kit.concrete_key(cfg, path) != list(kw):
                res = (f"correspondence: the {kit.METH_NAME[lab[1]]} call {describe(lab)} received key {list(kw)}; "
                       f"the model's path gives {kit.concrete_key(cfg, path) if path else 'no such call'}")
                break
    if res:
        print("REPLAY FAILS:", res)
        return 1
    print("replay passes on the current tree")
    return 0
