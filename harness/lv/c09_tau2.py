"""C09, layer F, second model family: a P-spline model built by the real DistRegBuilder, sampled by the real Engine with
the built-in smoothing-parameter Gibbs kernel lsl.tau2_gibbs_kernel(group) placed AFTER kernels (disjoint blocks) that
change its hyperparameters a and b, and before / after a kernel on the spline coefficients.

    kernel on s_b  : b'  = 0.5 b + 3 + 0.25 tanh(sum beta)          (deterministic GibbsKernel of the harness)
    kernel on s_a  : a'  = 2 + 0.5 cos(3 a) + 0.1 tanh(b)           (deterministic GibbsKernel of the harness)
    tau2 kernel    : the real one; jax.random.gamma is patched in the harness process to return its concentration
                     argument, so the "draw" is the digest
                         tau2' = (b + beta' K beta / 2) / (a + rank / 2)
                     of the hyperparameters and coefficients of the state THE KERNEL RECEIVES
    beta kernel    : RW / IWLS / NUTS

Probe kernels after every kernel as in c09_float; the case has the same shape as a layer-F case (frame sets certified
by Coq; recomputation, threading and digest checks by the direct oracle).
"""
from __future__ import annotations

import time
from unittest import mock

import numpy as np

from .c09_float import extract, same, RTOL, ATOL


def b_update(xp, b, beta):
    return 0.5 * b + 3.0 + 0.25 * xp.tanh(xp.sum(beta))


def a_update(xp, a, b):
    return 2.0 + 0.5 * xp.cos(3.0 * a) + 0.1 * xp.tanh(b)


def build(cfg, nprobes=0, D=0):
    import jax.numpy as jnp
    import liesel.model as lsl
    import tensorflow_probability.substrates.jax.bijectors as tfb
    import tensorflow_probability.substrates.jax.distributions as tfd
    rng = np.random.default_rng(cfg["data_seed"])
    n, p = cfg["n"], cfg["p"]
    X = rng.normal(size=(n, p)).astype(np.float32)
    Dm = np.diff(np.eye(p), n=2, axis=0)
    K = (Dm.T @ Dm).astype(np.float32)
    y = rng.normal(size=n).astype(np.float32)
    drb = lsl.DistRegBuilder()
    drb.add_response(y, tfd.Normal)
    drb.add_predictor("loc", tfb.Identity)
    drb.add_predictor("scale", tfb.Exp)
    drb.add_np_smooth(X, K, a=2.0, b=1.5, predictor="loc", name="s")
    for j in range(nprobes):
        drb.add(lsl.Data(jnp.zeros(D, dtype=jnp.float32), _name=f"probe_{j}"))
    return drb.build_model(), lsl, K


def run_config(cfg):
    import logging
    import warnings
    logging.getLogger("liesel").setLevel(logging.ERROR)
    import jax
    import jax.numpy as jnp
    import liesel.goose as gs
    from liesel.goose.epoch import EpochConfig, EpochType
    t0 = time.time()
    seq = cfg["sequence"]            # e.g. ["b", "a", "tau2", "beta:rw"]
    m0, lsl, K = build(cfg)
    order0, kinds0, _ = extract(m0, lsl)
    tracked = [nm for nm, k in zip(order0, kinds0) if k != "T"]
    allnames = list(order0)
    sizes = [int(np.size(np.asarray(m0.nodes[nm].value))) for nm in tracked]
    D = sum(sizes) + len(allnames)
    model, lsl, K = build(cfg, len(seq), D)
    order, kinds, ins = extract(model, lsl)
    pos = {nm: i for i, nm in enumerate(order)}
    group = model.groups()["s"]
    model.auto_update = bool(cfg.get("auto_at_creation", True))
    with warnings.catch_warnings():
        warnings.simplefilter("ignore")
        iface = (lsl.GooseModel if cfg.get("iface") == "goose" else gs.LieselInterface)(model)
    rank = float(np.asarray(group["rank"].value))

    def probe_fn(j):
        def fn(key, ms):
            parts = [jnp.ravel(ms[nm].value).astype(jnp.float32) for nm in tracked]
            parts.append(jnp.stack([jnp.asarray(ms[nm].outdated) for nm in allnames]).astype(jnp.float32))
            return {f"probe_{j}": jnp.concatenate(parts)}
        return fn

    builder = gs.EngineBuilder(seed=cfg["seed"], num_chains=cfg["chains"])
    builder.set_model(iface)
    builder.set_initial_values(model.state)
    blocks = []
    for j, item in enumerate(seq):
        if item == "b":
            k = gs.GibbsKernel(["s_b"], lambda key, ms: {"s_b": b_update(jnp, ms["s_b_value"].value, ms["s_beta_value"].value)})
            blocks.append({"kind": "gibbs_b", "params": ["s_b"]})
        elif item == "a":
            k = gs.GibbsKernel(["s_a"], lambda key, ms: {"s_a": a_update(jnp, ms["s_a_value"].value, ms["s_b_value"].value)})
            blocks.append({"kind": "gibbs_a", "params": ["s_a"]})
        elif item == "tau2":
            k = lsl.tau2_gibbs_kernel(group)
            blocks.append({"kind": "tau2_gibbs", "params": ["s_tau2"]})
        else:
            kind = item.split(":")[1]
            if kind == "rw":
                k = gs.RWKernel(["s_beta"], initial_step_size=0.3)
            elif kind == "iwls":
                k = gs.IWLSKernel(["s_beta"], initial_step_size=0.5)
            else:
                k = gs.NUTSKernel(["s_beta"], max_treedepth=3, initial_step_size=0.05)
            blocks.append({"kind": kind, "params": ["s_beta"]})
        builder.add_kernel(k)
        builder.add_kernel(gs.GibbsKernel([f"probe_{j}"], probe_fn(j)))
    epochs = [EpochConfig(EpochType.INITIAL_VALUES, 1, 1, None)]
    for ety, dur in cfg["epochs"]:
        epochs.append(EpochConfig(getattr(EpochType, ety), dur, 1, None))
    builder.set_epochs(epochs)
    builder.show_progress = False
    # the gamma "draw" is its own concentration: the tau2 written is a digest of (a, b, rank, K, beta) as read by the kernel
    with mock.patch("jax.random.gamma", lambda key, a, *args, **kw: jnp.asarray(a, dtype=jnp.float32)):
        engine = builder.build()
        engine.sample_all_epochs()
    res = engine.get_results()
    samples = {k: np.asarray(v) for k, v in res.get_samples().items()}
    infos = res.transition_infos.combine_all().unwrap()
    kids_sorted = sorted(infos.keys())
    moved = {}
    for j, b in enumerate(blocks):
        inf = infos[kids_sorted[2 * j]]
        moved[j] = np.asarray(inf.position_moved).astype(bool) if b["kind"] in ("rw", "iwls") else None
    init_state = model.state
    init_vec = np.concatenate([np.ravel(np.asarray(init_state[nm].value, dtype=np.float32)) for nm in tracked]
                              + [np.asarray([bool(init_state[nm].outdated) for nm in allnames], dtype=np.float32)])
    T = samples["probe_0"].shape[1]
    offs = np.cumsum([0] + sizes)
    fkernels = [{"mh": b["kind"] in ("rw", "iwls"), "keys": [pos[p + "_value"] for p in b["params"]], "kind": b["kind"],
                 "params": b["params"]} for b in blocks]
    fsteps, steps_full = [], []
    for ch in range(cfg["chains"]):
        prev = init_vec
        for t in range(1, T):
            for j in range(len(blocks)):
                cur = samples[f"probe_{j}"][ch, t]
                changed = [pos[nm] for ti, nm in enumerate(tracked)
                           if not same(prev[offs[ti]:offs[ti + 1]], cur[offs[ti]:offs[ti + 1]])]
                mv = True if moved[j] is None else bool(moved[j][ch, t - 1])
                fsteps.append({"kernel": j, "moved": mv, "changed": sorted(changed)})
                steps_full.append({"chain": ch, "t": t, "kernel": j, "moved": mv, "pre": prev, "post": cur})
                prev = cur
    case = {"layer": "F", "family": "pspline", "cfg": cfg, "order": order, "kinds": kinds, "ins": ins, "tracked": tracked,
            "allnames": allnames, "sizes": sizes, "fkernels": fkernels, "fsteps": fsteps, "anomalies": []}
    case["direct"] = check(case, steps_full, model, K, rank, blocks)
    case["wall"] = round(time.time() - t0, 1)
    return case


def check(case, steps, model, K, rank, blocks):
    import jax.numpy as jnp
    tracked, allnames, sizes = case["tracked"], case["allnames"], case["sizes"]
    kinds = dict(zip(case["order"], case["kinds"]))
    offs = np.cumsum([0] + sizes)
    nt = int(offs[-1])

    def get(vec, nm):
        ti = tracked.index(nm)
        return vec[offs[ti]:offs[ti + 1]]

    shapes = {nm: np.shape(np.asarray(model.nodes[nm].value)) for nm in tracked}
    model.auto_update = False
    ndig = 0
    for s in steps:
        post, pre = s["post"], s["pre"]
        b = blocks[s["kernel"]]
        where = f"chain {s['chain']}, iteration {s['t']}, after kernel {s['kernel']} ({b['kind']} on {b['params']})"
        flags = post[nt:]
        if flags.any():
            return f"{where}: nodes {[nm for nm, f in zip(allnames, flags) if f]} are flagged outdated in the model state"
        for nm in tracked:
            if kinds[nm] == "V" and not nm.startswith("probe_"):
                model.nodes[nm].value = jnp.asarray(get(post, nm).reshape(shapes[nm]))
        model.update()
        for nm in tracked:
            if kinds[nm] == "C":
                ref = np.ravel(np.asarray(model.nodes[nm].value, dtype=np.float32))
                got = get(post, nm)
                if not np.allclose(got, ref, rtol=RTOL, atol=ATOL, equal_nan=True):
                    i = int(np.argmax(np.abs(got - ref)))
                    return f"{where}: stored {nm}[{i}] = {got[i]!r}, recomputed from the stored parameter values it is {ref[i]!r}"
        a0, b0 = np.float32(get(pre, "s_a_value")[0]), np.float32(get(pre, "s_b_value")[0])
        beta0 = get(pre, "s_beta_value")
        if b["kind"] == "gibbs_b":
            want = np.float32(b_update(np, b0, beta0))
            got = get(post, "s_b_value")[0]
            if not np.isclose(got, want, rtol=1e-5, atol=1e-6):
                return f"{where}: wrote b = {got!r}; computed from the state its predecessor left the write is {want!r}"
        if b["kind"] == "gibbs_a":
            want = np.float32(a_update(np, a0, b0))
            got = get(post, "s_a_value")[0]
            if not np.isclose(got, want, rtol=1e-5, atol=1e-6):
                return f"{where}: wrote a = {got!r}; computed from the state its predecessor left the write is {want!r}"
        if b["kind"] == "tau2_gibbs":
            q = float(beta0.astype(np.float64) @ K.astype(np.float64) @ beta0.astype(np.float64))
            want = (float(b0) + 0.5 * q) / (float(a0) + 0.5 * rank)
            got = float(get(post, "s_tau2_value")[0])
            ndig += 1
            if not np.isclose(got, want, rtol=1e-4, atol=1e-6):
                return (f"{where}: with the gamma draw forced to its concentration the kernel wrote tau2 = {got!r}; the state its "
                        f"predecessor left has a = {float(a0)!r}, b = {float(b0)!r}, rank = {rank}, beta'K beta = {q!r}, for which "
                        f"(b + beta'K beta/2) / (a + rank/2) = {want!r}")
    case["recomputations"] = len(steps)
    case["tau2_digests"] = ndig
    return None


CORPUS = [
    {"n": 12, "p": 4, "data_seed": 3, "seed": 21, "chains": 2, "iface": "liesel", "auto_at_creation": True,
     "sequence": ["b", "a", "tau2", "beta:rw"], "epochs": [["BURNIN", 3], ["POSTERIOR", 3]]},
    {"n": 10, "p": 5, "data_seed": 4, "seed": 22, "chains": 1, "iface": "goose", "auto_at_creation": False,
     "sequence": ["beta:iwls", "b", "tau2"], "epochs": [["FAST_ADAPTATION", 4], ["POSTERIOR", 4]]},
    {"n": 10, "p": 4, "data_seed": 5, "seed": 23, "chains": 2, "iface": "liesel", "auto_at_creation": False,
     "sequence": ["a", "beta:nuts", "tau2", "b"], "epochs": [["BURNIN", 4], ["POSTERIOR", 4]]},
    {"n": 14, "p": 6, "data_seed": 6, "seed": 24, "chains": 3, "iface": "goose", "auto_at_creation": True,
     "sequence": ["b", "tau2", "beta:rw", "a"], "epochs": [["BURNIN", 3], ["POSTERIOR", 5]]},
]


def generate(ctx):
    import json
    cfgs = [json.loads(json.dumps(c)) for c in (CORPUS[:1] if ctx.quick else CORPUS)]
    cases = []
    for cfg in cfgs:
        try:
            cases.append(run_config(cfg))
        except Exception as ex:
            import traceback
            cases.append({"layer": "F", "family": "pspline", "cfg": cfg, "anomaly": f"sampling this configuration raises {ex!r}: "
                          + " | ".join(traceback.format_exc().strip().splitlines()[-4:])})
    return cases
