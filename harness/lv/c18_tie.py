"""C18 source tie: Gallina definitions translated from the current Python source of
liesel/bijectors/algebraic_sigmoid.py, liesel/distributions/copulas.py and liesel/distributions/mvn_degen.py by
tools/py2gallina_c18.py, + Qed-closed lemmas that they are extensionally equal to the hand-written models
(coq/Analytic/Sigmoid.v, Copula.v, MvnDegen.v) + the main C18 theorems re-stated for the translated functions
(through the transfer theorems of coq/Analytic/GenC18Tie.v).  Never raises an alarm by itself: the caller
(c18.py) records the outcome in the evidence (coverage.source_tie) and keeps the behavioural correspondence and
the oracles for the verdict.
"""
from __future__ import annotations

import importlib.util
import os
import re

from . import common

TOOL = os.path.join(common.VERIF, "tools", "py2gallina_c18.py")

HEADER = """(* GENERATED on this run by tools/py2gallina_c18.py from the Python source under {root} - do not edit *)
From Coq Require Import Reals List Bool Arith Lra Lia.
From Coquelicot Require Import Coquelicot.
From LV Require Import Analytic.Sigmoid Analytic.SigmoidProofs Analytic.Copula Analytic.CopulaProofs
  Analytic.MvnDegen Analytic.MvnDegenProofs Analytic.GenC18Tie.
Import ListNotations.
Open Scope R_scope.
"""

# definition sections in the order they are written (names of tools/py2gallina_c18.py)
SECTIONS = ["sig_forward", "sig_inverse", "sig_forward_log_det_jacobian", "sig_inverse_log_det_jacobian", "copula",
            "rank", "log_pdet", "props", "log_prob", "from_penalty", "from_penalty_smooth"]
# a section's definitions mention those of ...
DEF_DEPS = {"props": ["rank", "log_pdet"], "log_prob": ["props"], "from_penalty": ["rank", "log_pdet"],
            "from_penalty_smooth": ["rank", "log_pdet"]}

# proof blocks: (name, definition sections needed, proof blocks needed, text)
BLOCKS = [
    ("sig_forward", ["sig_forward"], [], """
Lemma gen_asig_forward_is_model : forall x, gen_asig_forward x = asig x.
Proof. intros x. unfold gen_asig_forward, asig. tie18_real. Qed.

Theorem gen_asig_range : forall x, -1 < gen_asig_forward x < 1.
Proof. exact (tie_asig_range _ gen_asig_forward_is_model). Qed.
Theorem gen_asig_onto : forall y, -1 < y < 1 -> exists x, gen_asig_forward x = y.
Proof. exact (tie_asig_onto _ gen_asig_forward_is_model). Qed.
"""),
    ("sig_inverse", ["sig_inverse"], [], """
Lemma gen_asig_inverse_is_model : forall y, gen_asig_inverse y = asig_inv y.
Proof. intros y. unfold gen_asig_inverse, asig_inv. tie18_real. Qed.
"""),
    ("sig_roundtrip", [], ["sig_forward", "sig_inverse"], """
(* C18_asig_inverse for the two maps translated from the source *)
Theorem gen_asig_inverse_both :
  (forall x, gen_asig_inverse (gen_asig_forward x) = x)
  /\\ (forall y, -1 < y < 1 -> gen_asig_forward (gen_asig_inverse y) = y).
Proof. exact (tie_asig_inverse _ _ gen_asig_forward_is_model gen_asig_inverse_is_model). Qed.
Print Assumptions gen_asig_inverse_both.
"""),
    ("sig_fldj", ["sig_forward_log_det_jacobian"], ["sig_forward"], """
Lemma gen_asig_fldj_is_model : forall x, gen_asig_fldj x = asig_fldj x.
Proof. intros x. unfold gen_asig_fldj, asig_fldj. tie18_real. Qed.

(* C18_asig_fldj: the translated forward map has derivative asig_deriv > 0 and the translated fldj is its logarithm *)
Theorem gen_asig_fldj_log_deriv : forall x,
  is_derive gen_asig_forward x (asig_deriv x) /\\ 0 < asig_deriv x /\\ gen_asig_fldj x = ln (asig_deriv x).
Proof. exact (tie_asig_fldj _ _ gen_asig_forward_is_model gen_asig_fldj_is_model). Qed.
"""),
    ("sig_ildj", ["sig_inverse_log_det_jacobian"], ["sig_inverse"], """
Lemma gen_asig_ildj_is_model : forall y, gen_asig_ildj y = asig_ildj y.
Proof. intros y. unfold gen_asig_ildj, asig_ildj. tie18_real. Qed.

Theorem gen_asig_ildj_log_deriv : forall y, -1 < y < 1 ->
  is_derive gen_asig_inverse y (asig_inv_deriv y) /\\ 0 < asig_inv_deriv y
  /\\ gen_asig_ildj y = ln (asig_inv_deriv y).
Proof. exact (tie_asig_ildj _ _ gen_asig_inverse_is_model gen_asig_ildj_is_model). Qed.
"""),
    ("sig_contract", [], ["sig_inverse", "sig_fldj", "sig_ildj"], """
(* C18_asig_ildj_is_neg_fldj: the bijector contract between the three translated functions *)
Theorem gen_asig_ildj_is_neg_fldj : forall y, -1 < y < 1 ->
  gen_asig_ildj y = - gen_asig_fldj (gen_asig_inverse y).
Proof.
  exact (tie_asig_ildj_is_neg_fldj _ _ _ gen_asig_inverse_is_model gen_asig_fldj_is_model gen_asig_ildj_is_model).
Qed.
"""),
    ("copula_ctor", ["copula"], [], """
(* the validate_args guard as translated = the model's guard with the bounds of the repaired tree *)
Lemma gen_copula_ctor_is_model : forall v rhos, gen_copula_ctor v rhos = copula_ctor_batch (-1) 1 v rhos.
Proof. unfold gen_copula_ctor. tie18_guard. Qed.

Theorem gen_copula_ctor_batch_total : forall (validate : bool) rhos,
  List.Forall (fun r => -1 < r < 1) rhos -> gen_copula_ctor validate rhos = CtorOk.
Proof. exact (tie_copula_ctor_batch_total _ gen_copula_ctor_is_model). Qed.
"""),
    ("copula_tril", ["copula"], [], """
Lemma gen_copula_scale_tril_is_model : forall rho, gen_copula_scale_tril rho = ((1, 0), (rho, tril22 rho)).
Proof. intros rho. unfold gen_copula_scale_tril, tril22. tie18_real. Qed.
"""),
    ("copula_ctor_total", [], ["copula_ctor", "copula_tril"], """
(* C18_copula_ctor_total for the translated guard and scale factor *)
Theorem gen_copula_ctor_total : forall (validate : bool) rho, -1 < rho < 1 ->
  gen_copula_ctor validate [rho] = CtorOk /\\ 0 < snd (snd (gen_copula_scale_tril rho)).
Proof. exact (tie_copula_ctor_total _ _ gen_copula_ctor_is_model gen_copula_scale_tril_is_model). Qed.
"""),
    ("copula_log_prob", ["copula"], [], """
Lemma gen_copula_log_prob_is_model : forall q rho u v,
  gen_copula_log_prob q rho u v = copula_logpdf_uv q rho u v.
Proof.
  intros q rho u v. unfold gen_copula_log_prob. cbv zeta.
  apply tie_copula_compose. unfold tril22. tie18_real.
Qed.

(* C18_copula_closed_form_uv for the composition translated from the constructor *)
Theorem gen_copula_closed_form_uv : forall (qnorm : R -> R) rho u v, -1 < rho < 1 ->
  gen_copula_log_prob qnorm rho u v = copula_closed_form rho (qnorm u) (qnorm v).
Proof. exact (tie_copula_closed_form_uv _ gen_copula_log_prob_is_model). Qed.
Print Assumptions gen_copula_closed_form_uv.
"""),
    ("rank", ["rank"], [], """
Lemma gen_rank_is_model : forall n lam tol, gen_rank n lam tol = rank_of tol n lam.
Proof. intros n lam tol. unfold gen_rank, rank_of. cbv zeta. tie18_sum. Qed.
"""),
    ("log_pdet", ["log_pdet"], [], """
Lemma gen_log_pdet_is_model : forall n lam tol,
  gen_log_pdet n lam None tol = log_pdet_tol tol n lam
  /\\ forall r, gen_log_pdet n lam (Some r) tol = log_pdet_rank r n lam.
Proof.
  intros n lam tol. split; [ | intros r ]; unfold gen_log_pdet, log_pdet_tol, log_pdet_rank; cbv zeta; tie18_sum.
Qed.
"""),
    ("props", ["props"], ["rank", "log_pdet"], """
Lemma gen_prop_rank_is_model : forall d, gen_prop_rank d = d_rank d.
Proof.
  intros d. unfold gen_prop_rank, d_rank. destruct (rank_arg d); cbv zeta; rewrite ?gen_rank_is_model; reflexivity.
Qed.
Lemma gen_prop_log_pdet_is_model : forall d, gen_prop_log_pdet d = d_log_pdet d.
Proof.
  intros d. unfold gen_prop_log_pdet, d_log_pdet. destruct (lpd_arg d); cbv zeta;
  rewrite ?(proj2 (gen_log_pdet_is_model _ _ _)), ?gen_prop_rank_is_model; reflexivity.
Qed.
"""),
    ("log_prob", ["log_prob"], ["props"], """
(* _log_prob as translated, at the point / location with eigen-coordinates xq / lq *)
Lemma gen_log_prob_is_model : forall d xq lq, gen_log_prob d xq lq = logpdf d (fun i => xq i - lq i).
Proof.
  intros d xq lq. unfold gen_log_prob, logpdf. cbv zeta.
  rewrite ?gen_prop_rank_is_model, ?gen_prop_log_pdet_is_model.
  first [ reflexivity | tie18_real ].
Qed.

(* C18_mvn_range_gaussian / C18_mvn_nullspace_invariant for the translated _log_prob *)
Theorem gen_mvn_range_gaussian : forall n lam rk lp tol xq lq,
  0 <= tol -> ascending n lam -> gap tol n lam ->
  rank_consistent tol n lam rk -> lpd_consistent tol n lam lp ->
  gen_log_prob (ctor_prec n lam rk lp tol) xq lq = range_gaussian_logpdf n lam (fun i => xq i - lq i).
Proof. exact (tie_mvn_range_gaussian _ gen_log_prob_is_model). Qed.
Theorem gen_mvn_nullspace_invariant : forall d xq lq v, null_vector (dim d) (evals d) v ->
  gen_log_prob d (fun i => xq i + v i) lq = gen_log_prob d xq lq.
Proof. exact (tie_mvn_nullspace_invariant _ gen_log_prob_is_model). Qed.
"""),
    ("from_penalty", ["from_penalty"], ["rank", "log_pdet"], """
Lemma gen_from_penalty_is_model : forall n pen var rk lp,
  gen_from_penalty n pen var rk lp = from_penalty n pen var rk lp.
Proof.
  intros n pen var rk lp. unfold gen_from_penalty, from_penalty, pen_log_pdet, pen_rank, tol_default.
  destruct rk, lp; cbv zeta; rewrite ?(proj2 (gen_log_pdet_is_model _ _ _)), ?gen_rank_is_model;
  first [ reflexivity | f_equal; tie18_real ].
Qed.
"""),
    ("from_penalty_smooth", ["from_penalty_smooth"], ["rank", "log_pdet"], """
Lemma gen_from_penalty_smooth_is_model : forall n pen s rk lp,
  gen_from_penalty_smooth n pen s rk lp = from_penalty_smooth n pen s rk lp.
Proof.
  intros n pen s rk lp. unfold gen_from_penalty_smooth, from_penalty_smooth, pen_log_pdet, pen_rank, tol_default.
  destruct rk, lp; cbv zeta; rewrite ?(proj2 (gen_log_pdet_is_model _ _ _)), ?gen_rank_is_model;
  first [ reflexivity | f_equal; tie18_real ].
Qed.
"""),
    ("mvn_from_penalty", [], ["log_prob", "from_penalty"], """
(* C18_mvn_from_penalty_range_gaussian for the translated from_penalty and _log_prob *)
Theorem gen_mvn_from_penalty_range_gaussian : forall n pen var rk lp xq lq,
  0 < var -> ascending n pen -> gap tol_default n pen ->
  rank_consistent tol_default n pen rk -> lpd_consistent tol_default n pen lp ->
  gen_log_prob (gen_from_penalty n pen var rk lp) xq lq
  = range_gaussian_logpdf n (fun i => pen i / var) (fun i => xq i - lq i).
Proof. exact (tie_mvn_from_penalty_range_gaussian _ _ gen_log_prob_is_model gen_from_penalty_is_model). Qed.
"""),
    ("mvn_constructors", [], ["log_prob", "from_penalty", "from_penalty_smooth"], """
(* C18_mvn_from_penalty_family_agree, C18_mvn_smooth_is_inverse_variance, C18_mvn_constructors_agree for the three
   translated functions *)
Theorem gen_mvn_from_penalty_family_agree : forall n pen var rk lp rk' lp' xq lq, 0 < var -> ascending n pen ->
  rank_consistent tol_default n pen rk -> lpd_consistent tol_default n pen lp ->
  rank_consistent tol_default n pen rk' -> lpd_consistent tol_default n pen lp' ->
  gen_log_prob (gen_from_penalty n pen var rk lp) xq lq = gen_log_prob (gen_from_penalty n pen var None None) xq lq
  /\\ gen_log_prob (gen_from_penalty_smooth n pen (/ var) rk' lp') xq lq
     = gen_log_prob (gen_from_penalty n pen var None None) xq lq.
Proof.
  exact (tie_mvn_from_penalty_family_agree _ _ _ gen_log_prob_is_model gen_from_penalty_is_model
           gen_from_penalty_smooth_is_model).
Qed.
Theorem gen_mvn_smooth_is_inverse_variance : forall n pen s rk lp xq lq, 0 < s ->
  gen_log_prob (gen_from_penalty_smooth n pen s rk lp) xq lq = gen_log_prob (gen_from_penalty n pen (/ s) rk lp) xq lq.
Proof.
  exact (tie_mvn_smooth_is_inverse_variance _ _ _ gen_log_prob_is_model gen_from_penalty_is_model
           gen_from_penalty_smooth_is_model).
Qed.
Theorem gen_mvn_constructors_agree : forall n pen var rk lp rk' lp' xq lq,
  0 < var -> ascending n pen -> pen_gap n pen var ->
  rank_consistent tol_default n pen rk -> lpd_consistent tol_default n pen lp ->
  rank_consistent tol_default n (fun i => pen i / var) rk' ->
  lpd_consistent tol_default n (fun i => pen i / var) lp' ->
  let plain := gen_log_prob (ctor_prec n (fun i => pen i / var) None None tol_default) xq lq in
  gen_log_prob (gen_from_penalty n pen var rk lp) xq lq = plain
  /\\ gen_log_prob (gen_from_penalty_smooth n pen (/ var) rk lp) xq lq = plain
  /\\ gen_log_prob (ctor_prec n (fun i => pen i / var) rk' lp' tol_default) xq lq = plain.
Proof.
  exact (tie_mvn_constructors_agree _ _ _ gen_log_prob_is_model gen_from_penalty_is_model
           gen_from_penalty_smooth_is_model).
Qed.
Print Assumptions gen_mvn_from_penalty_family_agree.
"""),
]
BLOCK = {b[0]: b for b in BLOCKS}


def load_tool():
    spec = importlib.util.spec_from_file_location("py2gallina_c18", TOOL)
    mod = importlib.util.module_from_spec(spec)
    spec.loader.exec_module(mod)
    return mod


def lemma_names(txt):
    return re.findall(r"^(?:Lemma|Theorem|Corollary)\s+([A-Za-z0-9_']+)", txt, re.M)


def usable_blocks(defs, dropped):
    """blocks whose definitions are available and whose needed blocks are kept (BLOCKS is in dependency order)"""
    keep = []
    for name, need_defs, need_blocks, _ in BLOCKS:
        if name in dropped:
            continue
        if all(d in defs for d in need_defs) and all(b in keep for b in need_blocks):
            keep.append(name)
    return keep


def assemble(root, defs, keep):
    parts = [HEADER.format(root=root)]
    marks = []          # (first line, last line, kind, name)

    def add(txt, kind, name):
        start = sum(p.count("\n") + 1 for p in parts) + 1
        parts.append(txt)
        marks.append((start, sum(p.count("\n") + 1 for p in parts), kind, name))
    for sec in SECTIONS:
        if sec in defs:
            for i in defs[sec]["info"]:
                parts.append(f"(* {i['file']} : {i['function']}, lines {i['lines'][0]}-{i['lines'][1]}, sha256 {i['sha256']} *)")
            add(defs[sec]["text"], "def", sec)
    for name in keep:
        add(BLOCK[name][3], "proof", name)
    return "\n".join(parts) + "\n", marks


def run(ctx, root):
    """returns the coverage.source_tie record"""
    rec = {"translated": [], "lemmas_ok": False, "lemmas": [], "not_tied": {}, "detail": "",
           "translator": "tools/py2gallina_c18.py", "generated_file": "gen_c18.v (work directory, deleted after the run)"}
    try:
        res = load_tool().translate(root)
    except Exception as ex:       # the tie is optional evidence; never let it abort the check
        rec["detail"] = f"SOURCE TIE BROKEN: translator aborted: {type(ex).__name__}: {ex}"
        rec["not_tied"]["all"] = rec["detail"]
        return rec
    defs = {}
    for sec in SECTIONS:
        d = res.get(sec, {"error": "not translated"})
        if "error" in d:
            rec["not_tied"][sec] = "translator failed closed: " + d["error"]
        else:
            defs[sec] = d
    for sec in SECTIONS:        # a definition that mentions an untranslated one cannot be written
        if sec in defs and any(x not in defs for x in DEF_DEPS.get(sec, [])):
            rec["not_tied"][sec] = "needs the translation of " + ", ".join(x for x in DEF_DEPS[sec] if x not in defs)
            del defs[sec]
    dropped, failed, keep = set(), False, []
    for _ in range(len(BLOCKS) + len(SECTIONS) + 2):
        keep = usable_blocks(defs, dropped)
        if not keep:
            break
        txt, marks = assemble(root, defs, keep)
        path = ctx.new_shard(txt, "gen_c18")
        rc, out, dt = common.sh(["coqc", "-Q", common.COQ, "LV", "-Q", ctx.work, "Cases", path], timeout=120, cwd=ctx.work)
        rec["coqc_s"] = round(rec.get("coqc_s", 0) + dt, 1)
        if rc == 124:          # a proof search that does not come back: give up on the tie, do not retry
            rec["not_tied"]["all"] = "coqc did not finish within 120 s on the generated file"
            keep, failed = [], True
            break
        if rc == 0:
            ax = sorted(set(re.findall(r"^([A-Za-z_][A-Za-z0-9_.]*)\s*:", out, re.M)) - {"Axioms", "Warning", "File"})
            rec["print_assumptions"] = ("closed under the global context" if not ax else
                                        "standard-library axioms only: " + ", ".join(ax)
                                        if all(a.split(".")[0] in ("ClassicalDedekindReals", "FunctionalExtensionality", "Classical_Prop") for a in ax)
                                        else "UNEXPECTED: " + ", ".join(ax))
            break
        failed = True
        m = re.search(r"line (\d+), characters [0-9-]+:\s*\n\s*Error", out)      # not the lines of mere warnings
        ln = int(m.group(1)) if m else -1
        out = out[m.start():] if m else out
        hit = next(((k, n) for a, b, k, n in marks if a <= ln <= b), None)
        msg = " ".join(x for x in out.strip().split() if x)[-300:]
        if hit is None:
            rec["not_tied"]["all"] = "the generated file does not compile: " + msg
            keep = []
            break
        kind, name = hit
        if kind == "proof":
            names = lemma_names("\n".join(txt.split("\n")[:ln]))
            rec["not_tied"][name] = (f"lemma {names[-1] if names else '?'} does not check for the function as translated from "
                                     f"the current source: {msg}")
            dropped.add(name)
        else:
            rec["not_tied"][name] = "the translated definition does not type-check: " + msg
            defs.pop(name, None)
            for sec in SECTIONS:
                if sec in defs and name in DEF_DEPS.get(sec, []):
                    rec["not_tied"].setdefault(sec, f"needs the definitions of {name}")
                    del defs[sec]
    else:
        keep = []
    for name, need_defs, need_blocks, _ in BLOCKS:
        if name not in keep and name not in rec["not_tied"]:
            why = [d for d in need_defs if d not in defs] + [b for b in need_blocks if b not in keep]
            rec["not_tied"][name] = "needs " + ", ".join(why) if why else "not checked"
    seen = set()
    for name in keep:
        for d in BLOCK[name][1]:
            if d not in seen:
                seen.add(d)
                rec["translated"].extend(i for i in defs[d]["info"] if i not in rec["translated"])
        rec["lemmas"].extend(lemma_names(BLOCK[name][3]))
    rec["lemmas_ok"] = bool(keep) and not rec["not_tied"]
    n = len(rec["lemmas"])
    ctx.obligations += n
    ctx.discharged += n
    if rec["lemmas_ok"]:
        rec["detail"] = ("the C18 theorems about the algebraic sigmoid, the Gaussian copula (guard, scale factor, log_prob composition) and "
                         "the degenerate MVN (_rank, _log_pdet, rank / log_pdet, _log_prob, from_penalty, from_penalty_smooth; "
                         "eigen-coordinates, eigh an oracle) were re-established on this run for the functions as translated from the "
                         "current source (files, line ranges and sha256 of the translated text under 'translated'): every gen_*_is_model "
                         "lemma and every gen_* corollary is Qed-closed")
    else:
        rec["detail"] = ("SOURCE TIE BROKEN for " + ", ".join(sorted(rec["not_tied"])) + " - the verdict of this run rests on the "
                         "behavioural correspondence and the oracles for these functions" +
                         ("; still tied: " + ", ".join(keep) if keep else ""))
        common.log("source tie: " + rec["detail"])
    return rec
