"""C13 source tie: Gallina definitions translated from the current Python source of
liesel/model/distreg.py (tau2_gibbs_kernel: nested transition) and liesel/model/goose.py
(finite_discrete_gibbs_kernel: nested transition_fn and conditional_log_prob_fn) by tools/py2gallina_c13.py,
+ Qed-closed lemmas that they are extensionally equal to the hand-written models (coq/Analytic/Gibbs.v,
GibbsDiscrete.v) + the main C13 theorems re-stated for the translated functions.
Never raises an alarm by itself: the caller (c13.py) records the outcome in the evidence
(coverage.source_tie) and keeps the behavioural correspondence and the oracle for the verdict.
"""
from __future__ import annotations

import importlib.util
import os
import re

from . import common

TOOL = os.path.join(common.VERIF, "tools", "py2gallina_c13.py")

HEADER = """(* GENERATED on this run by tools/py2gallina_c13.py from the Python source under {root} - do not edit *)
From Coq Require Import Reals Lra List Bool Arith.
From Coquelicot Require Import Coquelicot.
Import ListNotations.
From LV Require Import Graph.Graph Graph.GraphProofs.
From LV Require Import Analytic.Gibbs Analytic.GibbsProofs Analytic.GibbsDiscrete Analytic.GibbsDiscreteProofs.
From LV Require Import Analytic.GenC13Tie.
"""

# definition sections (one per translated kernel) in the order they are written
SECTIONS = ["tau2", "discrete"]
SECTION_WRAP = {
    "tau2": ("Open Scope R_scope.", "Close Scope R_scope."),
    "discrete": ("Section GenFD.\nVariables (V F : Type) (interp : F -> list V -> V) (dflt : V) (g : graph F).", "End GenFD."),
}

# proof blocks: (name, definition sections needed, proof blocks needed, text)
BLOCKS = [
    ("tau2", ["tau2"], [], """
Lemma gen_tau2_transition_is_model : tau2_eq gen_tau2_transition.
Proof. intros Key gamma key a b r t beta K. unfold gen_tau2_transition. tie_tau2 gamma. Qed.
"""),
    ("cor_tau2", ["tau2"], ["tau2"], """
(* C13_tau2_conjugacy, C13_tau2_conjugacy_unique, C13_tau2_kernel_exact (with C13_draw_cdf_has_ig_density inside),
   C13_example_tau2 for the transition translated from the source *)
Theorem gen_tau2_conjugacy : forall (lgam : R -> R) (a b r lpd rest : R) (beta : list R) (K : list (list R)),
  exists conc scale,
    (forall Key gamma key t, gen_tau2_transition Key gamma key a b r t beta K = (scale / gamma key conc)%R)
    /\\ exists c, forall t, (0 < t)%R ->
         joint_tau2 lgam a b (quad_form beta K) r lpd rest t = (ig_logpdf lgam conc scale t + c)%R.
Proof. exact (tie_tau2_conjugacy gen_tau2_transition gen_tau2_transition_is_model). Qed.

Theorem gen_tau2_conjugacy_unique :
  forall (lgam : R -> R) (a b r lpd rest : R) (beta : list R) (K : list (list R)) (conc scale c' : R),
  (forall t, (0 < t)%R -> joint_tau2 lgam a b (quad_form beta K) r lpd rest t = (ig_logpdf lgam conc scale t + c')%R) ->
  forall Key gamma key t,
    gen_tau2_transition Key gamma key a b r t beta K = (b_gibbs b (quad_form beta K) / gamma key (a_gibbs a r))%R
    /\\ conc = a_gibbs a r /\\ scale = b_gibbs b (quad_form beta K).
Proof. exact (tie_tau2_conjugacy_unique gen_tau2_transition gen_tau2_transition_is_model). Qed.

Theorem gen_tau2_kernel_exact :
  forall (lgam : R -> R) (a b r lpd rest : R) (beta : list R) (K : list (list R)),
  (0 < b)%R -> (0 <= quad_form beta K)%R ->
  exists conc scale,
    (forall Key gamma key t, gen_tau2_transition Key gamma key a b r t beta K = (scale / gamma key conc)%R)
    /\\ forall FG : R -> R,
       (forall g, (0 < g)%R -> is_derive FG g (exp (gamma_logpdf lgam conc 1 g))) ->
       exists c, forall t, (0 < t)%R ->
         is_derive (fun t => (1 - FG (scale / t))%R) t
                   (exp (joint_tau2 lgam a b (quad_form beta K) r lpd rest t - c))
         /\\ forall Key (gamma : Key -> R -> R) key t0, (0 < gamma key conc)%R ->
              ((gen_tau2_transition Key gamma key a b r t0 beta K <= t)%R <-> (scale / t <= gamma key conc)%R).
Proof. exact (tie_tau2_kernel_exact gen_tau2_transition gen_tau2_transition_is_model). Qed.

Theorem gen_tau2_example :
  gen_tau2_transition unit (fun _ _ => / 2)%R tt 2 (/ 2) 2 1 ex_beta ex_K = (49 / 4)%R
  /\\ gen_tau2_transition unit (fun _ c => c) tt 2 (/ 2) 2 1 ex_beta ex_K = (49 / 24)%R.
Proof. exact (tie_tau2_example gen_tau2_transition gen_tau2_transition_is_model). Qed.
Print Assumptions gen_tau2_kernel_exact.
"""),
    ("cond", ["discrete"], [], """
Lemma gen_conditional_log_prob_fn_is_model : forall V F interp dflt g,
  cond_eq V F interp dflt g (gen_conditional_log_prob_fn V F interp dflt g).
Proof.
  intros V F interp dflt g v lp ll lpr m x. unfold gen_conditional_log_prob_fn. tie_cond.
Qed.
"""),
    ("trans", ["discrete"], ["cond"], """
Lemma gen_transition_fn_is_model : forall V F interp dflt g,
  trans_eq V F interp dflt g (gen_transition_fn V F interp dflt g).
Proof.
  intros V F interp dflt g v lp ll lpr Key categorical km key sn outcomes.
  unfold gen_transition_fn. cbv zeta.
  rewrite ?(vmap_ext _ _ outcomes (gen_conditional_log_prob_fn_is_model V F interp dflt g v lp ll lpr _)).
  tie_trans_close.
Qed.
"""),
    ("cor_cond", ["discrete"], ["cond"], """
(* C13_discrete_logits_from_scratch, C13_example_discrete, C13_example_discrete_needs_clean_state for the closure
   translated from the source *)
Theorem gen_discrete_logits_from_scratch : forall (V F : Type) (interp : F -> list V -> V) (dflt : V) (g : graph F),
  wf g -> forall (v lp ll lpr : nat) (km : mstate V) (sn : snap V) (nv : node F),
  clean_state V F interp dflt g sn -> auto km = false ->
  nth_error g v = Some nv -> kd nv = KValue -> (lp < length g)%nat ->
  forall o, gen_conditional_log_prob_fn V F interp dflt g v lp ll lpr (model_clear_outdated V (model_set_state V km sn)) o
            = Some (denote interp dflt g (upd (sn_vals sn) v o) lp).
Proof.
  intros V F interp dflt g W v lp ll lpr.
  exact (tie_logits_from_scratch V F interp dflt g W v lp ll lpr _ (gen_conditional_log_prob_fn_is_model V F interp dflt g)).
Qed.

Theorem gen_discrete_example :
  map (gen_conditional_log_prob_fn nat exf exi 0%nat exg 0 5 4 3 (model_clear_outdated nat (model_set_state nat ex_km ex_sn)))
      [0; 1; 2; 3]%nat = [Some 1; Some 22; Some 43; Some 64]%nat
  /\\ map (gen_conditional_log_prob_fn nat exf exi 0%nat exg 0 5 4 3 (model_clear_outdated nat (model_set_state nat ex_km ex_sn_stale)))
         [0; 1; 2]%nat = [Some 1; Some 22; Some 43]%nat.
Proof. exact (tie_discrete_example _ (gen_conditional_log_prob_fn_is_model nat exf exi 0%nat exg)). Qed.
"""),
    ("cor_trans", ["discrete"], ["cond", "trans"], """
(* C13_discrete_logits_from_scratch + C13_discrete_conditional + C13_discrete_weights_distribution and
   C13_discrete_draw_member for the transition translated from the source *)
Theorem gen_discrete_kernel_exact : forall (V F : Type) (interp : F -> list V -> V) (dflt : V) (g : graph F),
  wf g -> forall (v lp ll lpr : nat) (km : mstate V) (sn : snap V) (nv : node F) (outcomes : list V),
  clean_state V F interp dflt g sn -> auto km = false ->
  nth_error g v = Some nv -> kd nv = KValue -> (lp < length g)%nat ->
  let ls := map (fun o => denote interp dflt g (upd (sn_vals sn) v o) lp) outcomes in
  (forall Key categorical key,
     gen_transition_fn V F interp dflt g v lp ll lpr Key categorical km key sn outcomes
     = nth_error outcomes (categorical key ls))
  /\\ forall toR : V -> R,
       cat_weights (map toR ls) = full_conditional_spec V F interp dflt g v lp toR (sn_vals sn) outcomes
       /\\ (outcomes <> [] ->
           length (cat_weights (map toR ls)) = length outcomes
           /\\ List.Forall (fun w => (0 < w)%R) (cat_weights (map toR ls))
           /\\ sumR (cat_weights (map toR ls)) = 1%R).
Proof.
  intros V F interp dflt g W v lp ll lpr.
  exact (tie_kernel_exact V F interp dflt g W v lp ll lpr _ (gen_transition_fn_is_model V F interp dflt g)).
Qed.

Theorem gen_discrete_draw_member : forall (V F : Type) (interp : F -> list V -> V) (dflt : V) (g : graph F),
  wf g -> forall (v lp ll lpr : nat) (km : mstate V) (sn : snap V) (nv : node F) (outcomes : list V),
  clean_state V F interp dflt g sn -> auto km = false ->
  nth_error g v = Some nv -> kd nv = KValue -> (lp < length g)%nat ->
  forall Key (categorical : Key -> list V -> nat) key,
  (forall ls, length ls = length outcomes -> (categorical key ls < length outcomes)%nat) ->
  exists o, gen_transition_fn V F interp dflt g v lp ll lpr Key categorical km key sn outcomes = Some o /\\ In o outcomes.
Proof.
  intros V F interp dflt g W v lp ll lpr.
  exact (tie_draw_member V F interp dflt g W v lp ll lpr _ (gen_transition_fn_is_model V F interp dflt g)).
Qed.
Print Assumptions gen_discrete_kernel_exact.
"""),
]
BLOCK_FUNCS = {"tau2": "tau2_gibbs_kernel's transition", "cond": "finite_discrete_gibbs_kernel's conditional_log_prob_fn",
               "trans": "finite_discrete_gibbs_kernel's transition_fn"}


def load_tool():
    spec = importlib.util.spec_from_file_location("py2gallina_c13", TOOL)
    mod = importlib.util.module_from_spec(spec)
    spec.loader.exec_module(mod)
    return mod


def lemma_names(txt):
    return re.findall(r"^(?:Lemma|Theorem|Corollary)\s+([A-Za-z0-9_']+)", txt, re.M)


def sections(root):
    """translate; returns ({section: {"text", "info"}}, {section: reason it is not available})"""
    res = load_tool().translate(root)
    ok, bad = {}, {}
    for sec in SECTIONS:
        d = res.get(sec, {"error": "not translated"})
        if "error" in d:
            bad[sec] = "translator failed closed: " + d["error"]
        else:
            ok[sec] = d
    return ok, bad


def assemble(root, ok, use):
    """file text: the definitions of all translated sections, then the proof blocks in `use`"""
    parts = [HEADER.format(root=root)]
    defmarks, marks = [], []

    def nlines():
        return sum(p.count("\n") + 1 for p in parts)

    for sec in SECTIONS:
        if sec not in ok:
            continue
        start = nlines() + 1
        for i in ok[sec]["info"]:
            parts.append(f"(* {i['file']} : {i['function']}, lines {i['lines'][0]}-{i['lines'][1]}, sha256 {i['sha256']} *)")
        parts.append(SECTION_WRAP[sec][0])
        parts.append(ok[sec]["text"])
        parts.append(SECTION_WRAP[sec][1])
        defmarks.append((start, nlines(), sec))
    for name, _, _, text in BLOCKS:
        if name in use:
            start = nlines() + 1
            parts.append(text)
            marks.append((start, nlines(), name))
    return "\n".join(parts) + "\n", defmarks, marks


def usable(ok, dropped):
    use = []
    for name, defs, needs, _ in BLOCKS:
        if name in dropped:
            continue
        if all(d in ok for d in defs) and all(n in use for n in needs):
            use.append(name)
    return use


def why_gone(name, defs, needs, rec):
    return "needs " + ", ".join(x for x in dict.fromkeys(defs + needs) if x in rec["not_tied"]) + ", which is not tied"


def run(ctx, root):
    """returns the coverage.source_tie record"""
    rec = {"translated": [], "lemmas_ok": False, "lemmas": [], "not_tied": {}, "detail": "",
           "translator": "tools/py2gallina_c13.py", "generated_file": "gen_c13.v (work directory, deleted after the run)"}
    try:
        ok, bad = sections(root)
    except Exception as ex:       # the tie is optional evidence; never let it abort the check
        rec["detail"] = f"SOURCE TIE BROKEN: translator aborted: {type(ex).__name__}: {ex}"
        rec["not_tied"]["all"] = rec["detail"]
        return rec
    rec["not_tied"].update(bad)
    dropped = set()
    use = usable(ok, dropped)
    failed = False
    for _ in range(len(BLOCKS) + len(SECTIONS) + 1):
        if not use:
            break
        txt, defmarks, marks = assemble(root, ok, use)
        path = ctx.new_shard(txt, "gen_c13")
        rc, out, dt = common.sh(["coqc", "-Q", common.COQ, "LV", "-Q", ctx.work, "Cases", path], timeout=300, cwd=ctx.work)
        rec["coqc_s"] = round(rec.get("coqc_s", 0) + dt, 1)
        if rc == 0:
            ax = sorted(set(re.findall(r"^([A-Za-z_][A-Za-z0-9_.']*)\s*:", out, re.M)) - {"Axioms", "Warning"})
            extra = [a for a in ax if a not in common.REALS_AXIOMS]
            rec["print_assumptions"] = ("only the standard-library axioms behind Reals: " + ", ".join(ax)) if not extra else \
                ("ADDITIONAL assumptions: " + ", ".join(extra))
            break
        failed = True
        # the first located message may be a warning (Coquelicot's coercion path): take the one that is an error
        locs = re.findall(r'File "[^"]*", line (\d+), characters [-\d]+:\s*\n\s*(Error|Warning)', out)
        ln = next((int(l) for l, kind in locs if kind == "Error"), -1)
        at = out.find("\nError")
        msg = " ".join((out[at:] if at >= 0 else out).strip().split())[:300]
        sec = next((s for a, b, s in defmarks if a <= ln <= b), None)
        if sec is not None:        # a generated definition does not type-check: the section goes entirely
            ok.pop(sec, None)
            rec["not_tied"][sec] = f"the definitions generated for {sec} do not type-check: {msg}"
        else:
            blk = next((s for a, b, s in marks if a <= ln <= b), None)
            if blk is None:        # unknown position: give up on the last block
                blk = use[-1]
            upto = "\n".join(txt.split("\n")[:max(ln, 0)])
            names = lemma_names(upto)
            rec["not_tied"][blk] = (f"lemma {names[-1] if names else '?'} does not check for "
                                    f"{BLOCK_FUNCS.get(blk, 'the functions')} as translated from the current source: {msg}")
            dropped.add(blk)
        new = usable(ok, dropped)
        for name, defs, needs, _ in BLOCKS:       # say why the dependants are gone too
            if name in use and name not in new and name not in rec["not_tied"]:
                rec["not_tied"][name] = why_gone(name, defs, needs, rec)
        use = new
    else:
        use = []
    for name, defs, needs, _ in BLOCKS:           # blocks never attempted because a translation is missing
        if name not in use and name not in rec["not_tied"]:
            rec["not_tied"][name] = why_gone(name, defs, needs, rec)
    sec_block = {"tau2": "tau2", "discrete": "cond"}
    for sec in SECTIONS:
        if sec in ok and sec_block[sec] in use:
            rec["translated"].extend(ok[sec]["info"])
    rec["translated_but_not_proved_equal"] = [i for s in SECTIONS if s in ok and sec_block[s] not in use for i in ok[s]["info"]]
    for name, _, _, text in BLOCKS:
        if name in use:
            rec["lemmas"].extend(lemma_names(text))
    rec["lemmas_ok"] = bool(use) and not rec["not_tied"]
    n = len(rec["lemmas"])
    ctx.obligations += n
    ctx.discharged += n
    if rec["lemmas_ok"]:
        rec["detail"] = ("the C13 theorems about the transition of tau2_gibbs_kernel and about transition_fn / conditional_log_prob_fn of "
                         "finite_discrete_gibbs_kernel were re-established on this run for the functions as translated from the current "
                         "source (files, line ranges and sha256 of the translated text under 'translated'): every gen_*_is_model lemma and "
                         "every gen_* corollary is Qed-closed")
    else:
        rec["detail"] = ("SOURCE TIE BROKEN for " + ", ".join(sorted(rec["not_tied"])) + " - the verdict of this run rests on "
                         "the behavioural correspondence and the oracle for these functions" +
                         ("; still tied: " + ", ".join(use) if use else ""))
        if failed or bad:
            common.log("source tie: " + rec["detail"])
    return rec
