"""C19 - error and sample bookkeeping in results and summaries is exact.

Two streams of cases, both compared with the Coq model (Goose/ErrorLog.v) in Qed-closed shards and
judged by a direct oracle that reads the property literally from the scripted error tables:

* engine : a real liesel engine (EngineBuilder or the Engine constructor with another JIT chunk) runs
  harness kernels (lv/c19_kernel.py) that return, at global time t, the error code tab[chain][t] of a
  scripted table and write the stamp 1000*chain + t into their position key.
* synth  : a SamplingResults object is assembled through the public API of EpochChainManager
  (advance_epoch / append with irregular chunking) from the same kind of script; cheap, so that many
  error patterns, books (incl. undocumented codes) and schedules are covered.

Observed through public API only: get_error_log(False/True), Summary.error_summary,
Summary.error_df(per_chain=True/False), Summary.sample_info, get_samples, get_posterior_samples;
tests (not proved): to_arviz_inference_data (with/without warmup) and pkl_save/pkl_load.
"""
from __future__ import annotations

import json
import logging
import math
import os
import random
import tempfile
from fractions import Fraction

from . import common
from .common import blit, lst, natlit, qlit, strlit, zlit

HEADER = """From Coq Require Import String.
From Coq Require Import List Arith Bool ZArith QArith.
Import ListNotations.
Close Scope Q_scope.
Open Scope nat_scope.
From LV Require Import Base.ListAux Goose.ErrorLog Goose.CorrC19.
"""

POS_KEY = {"ka": "x", "kb": "y", "kc": "z"}
INIT = {"x": 500, "y": 600, "z": 700}
BITS = ["get_error_log(False)", "get_error_log(True)", "Summary (sample_info / error_summary / error_df)",
        "get_samples", "get_posterior_samples"]
_lib: dict = {}


# ------------------------------------------------------------------------------------------------
# books (kernel classes must be module level: SamplingResults is pickled with them)
# ------------------------------------------------------------------------------------------------
class BookP:
    error_book = {0: "no errors", 1: "P-one", 2: "P-two", 3: "P-three", 90: "P-ninety: nan acceptance prob"}


class BookQ:
    error_book = {0: "no errors", 1: "Q-one", 3: "Q-three"}          # code 2 is NOT documented


def lib():
    if _lib:
        return _lib
    import numpy as np
    import jax
    import jax.numpy as jnp
    import liesel.goose as gs
    from liesel.goose.chain import EpochChainManager
    from liesel.goose.engine import Engine, SamplingResults
    from liesel.goose.epoch import EpochConfig, EpochType
    from liesel.goose.kernel import DefaultTransitionInfo
    from liesel.goose.kernel_sequence import KernelSequence
    from liesel.experimental.arviz import to_arviz_inference_data
    from liesel.option import Option
    from . import c19_kernel as ck
    for name in ("liesel", "arviz", "jax"):
        logging.getLogger(name).setLevel(logging.ERROR)
    try:                                   # arviz logs through a private, unregistered Logger object
        import arviz
        arviz._log.setLevel(logging.ERROR)
    except Exception:
        pass
    _lib.update(np=np, jax=jax, jnp=jnp, gs=gs, ECM=EpochChainManager, Engine=Engine, SR=SamplingResults,
                EpochConfig=EpochConfig, EpochType=EpochType, DTI=DefaultTransitionInfo, KS=KernelSequence,
                to_arviz=to_arviz_inference_data, Option=Option, ck=ck)
    return _lib


def classes_of(spec):
    """kernel class (= error book) per kernel identifier.  spec["same_book"]: every kernel is of the SAME class, so
    several kernels of one run report the same (error code, message) pairs (two NUTS kernels for two blocks, ...)"""
    L = lib()
    if spec["kind"] == "engine":
        A, B = L["ck"].ScriptedKernelA, L["ck"].ScriptedKernelB
        return {"ka": A, "kb": A, "kc": A} if spec.get("same_book") else {"ka": A, "kb": B, "kc": A}
    return {"ka": BookP, "kb": BookP, "kc": BookP} if spec.get("same_book") else {"ka": BookP, "kb": BookQ, "kc": BookP}


def books_of(spec):
    return {k: dict(v.error_book) for k, v in classes_of(spec).items() if k in spec["kernels"]}


# ------------------------------------------------------------------------------------------------
# running the implementation
# ------------------------------------------------------------------------------------------------
def total_T(spec):
    return sum(d for _, d, _ in spec["sched"])


# positions: default float32 stamps 1000*chain + t + 1.  The dtype part of the tested ArviZ / pickle clause stores
# values a float32 cannot hold: float64 stamps + 2**-30 (under jax x64), int32 stamps above 2**24 (odd).
EPS64 = 2.0 ** -30
BIG32 = 2 ** 24 + 1


def pos_value(spec, c, t0):
    """scripted position of chain c after transition t0 (0-based), as an exact python number"""
    dt = spec.get("dtype")
    base = 1000 * c + t0 + 1
    return base + EPS64 if dt == "float64" else BIG32 + 2 * base if dt == "int32" else base


def init_value(spec, key, c):
    dt = spec.get("dtype")
    base = INIT[key] + c
    return base + EPS64 if dt == "float64" else BIG32 + 2 * base if dt == "int32" else base


def np_dtype(spec):
    np = lib()["np"]
    return {"float64": np.float64, "int32": np.int32}.get(spec.get("dtype"), np.float32)


def x64_context(spec):
    import contextlib
    if spec.get("dtype") == "float64":
        from jax.experimental import enable_x64
        return enable_x64()
    return contextlib.nullcontext()


def run_engine(spec):
    L = lib()
    np, jnp, gs, jax = L["np"], L["jnp"], L["gs"], L["jax"]
    C, T = spec["chains"], total_T(spec)
    dt = spec.get("dtype")
    jdt = {"float64": jnp.float64, "int32": jnp.int32}.get(dt, jnp.float32)
    state = {"cid": jnp.arange(C, dtype=jnp.int32)}
    for key in ("x", "y", "z"):
        state[key] = jnp.asarray([init_value(spec, key, c) for c in range(C)], dtype=jdt)
    stamp = None
    if dt == "float64":
        stamp = lambda cid, t: (1000 * cid + t).astype(jnp.float64) + EPS64
    elif dt == "int32":
        stamp = lambda cid, t: (BIG32 + 2 * (1000 * cid + t)).astype(jnp.int32)
    for kid in ("ka", "kb", "kc"):
        tab = spec["tabs"].get(kid) or [[0] * T for _ in range(C)]
        # the kernel indexes by EpochState.time; the initial-values epoch occupies time 0
        state["tab_" + kid] = jnp.asarray([[0] + list(r) for r in tab], dtype=jnp.int32)
    mk = classes_of(spec)
    kernels = [mk[k](POS_KEY[k], "tab_" + k, k, stamp) for k in spec["kernels"]]
    model = gs.DictInterface(lambda st: jnp.float32(0.0))
    all_cfgs = [L["EpochConfig"](L["EpochType"](int(t)), int(d), int(th), None) for t, d, th in spec["sched"]]
    hist = spec.get("history")
    n_first = int(hist["prefix"]) if hist else len(all_cfgs)
    cfgs = [L["EpochConfig"](L["EpochType"].INITIAL_VALUES, 1, 1, None)] + all_cfgs[:n_first]
    if spec.get("chunk") is None:
        b = gs.EngineBuilder(seed=int(spec.get("seed", 1)), num_chains=C)
        b.show_progress = False
        b.set_model(model)
        for k in kernels:
            b.add_kernel(k)
        b.set_initial_values(state, multiple_chains=True)
        b.set_epochs(cfgs)
        eng = b.build()
    else:
        for k in kernels:
            k.set_model(model)
        seeds = jax.random.split(jax.random.PRNGKey(int(spec.get("seed", 1))), C)
        eng = L["Engine"](seeds=seeds, model_states=state, kernel_sequence=L["KS"](kernels), epoch_configs=cfgs,
                          jitted_sample_duration=int(spec["chunk"]), model=model,
                          position_keys=[POS_KEY[k] for k in spec["kernels"]], show_progress=False)
    eng.sample_all_epochs()
    if not hist:
        return eng.get_results()
    # history: results are read, then further (posterior) epochs are appended and sampled, then the results are read
    # again - through the SAME results object or through a freshly obtained one
    first = eng.get_results()
    for what in hist.get("reads", []):
        try:
            if what == "samples":
                first.get_posterior_samples(), first.get_samples(), first.get_error_log(True), first.get_error_log(False)
            elif what == "summary":
                s0 = gs.Summary(first)
                s0.error_df(per_chain=True), s0.error_df(per_chain=False)
            elif what == "arviz":
                L["to_arviz"](first, include_warmup=False)
            elif what == "pickle":
                fd, path = tempfile.mkstemp(prefix="lv_c19_", suffix=".pkl")
                os.close(fd)
                try:
                    first.pkl_save(path)
                    L["SR"].pkl_load(path)
                finally:
                    os.remove(path)
        except Exception:
            pass                    # whatever the first read does is judged on the second read
    for cfg in all_cfgs[n_first:]:
        eng.append_epoch(cfg)
        eng.sample_next_epoch()
    return first if hist.get("read_through") == "same" else eng.get_results()


def run_synth(spec):
    L = lib()
    np = L["np"]
    C = spec["chains"]
    rnd = random.Random(int(spec.get("seed", 1)))
    pos, ti = L["ECM"](apply_thinning=True), L["ECM"]()
    init = L["EpochConfig"](L["EpochType"].INITIAL_VALUES, 1, 1, None)
    pos.advance_epoch(init)
    ti.advance_epoch(init)
    keys = [POS_KEY[k] for k in spec["kernels"]]
    ndt = np_dtype(spec)
    pos.append({key: np.asarray([[init_value(spec, key, c)] for c in range(C)], dtype=ndt) for key in keys})
    t = 0
    for ty, d, th in spec["sched"]:
        cfg = L["EpochConfig"](L["EpochType"](int(ty)), int(d), int(th), None)
        pos.advance_epoch(cfg)
        ti.advance_epoch(cfg)
        k = 0
        while k < d:
            n = min(d - k, rnd.randint(1, max(1, int(spec.get("chunk") or 3))))
            stamps = np.asarray([[pos_value(spec, c, u) for u in range(t + k, t + k + n)] for c in range(C)], dtype=ndt)
            pos.append({key: stamps.copy() for key in keys})
            ti.append({kid: L["DTI"](error_code=np.asarray(spec["tabs"][kid], dtype=np.int32)[:, t + k:t + k + n],
                                     acceptance_prob=np.ones((C, n), np.float32),
                                     position_moved=np.ones((C, n), np.int32)) for kid in spec["kernels"]})
            k += n
        t += d
    cls = classes_of(spec)
    O = L["Option"]
    return L["SR"](positions=pos, transition_infos=ti, generated_quantities=O(None), tuning_infos=O(None),
                   kernel_states=O(None), full_model_states=O(None),
                   kernel_classes=O({k: cls[k] for k in spec["kernels"]}),
                   kernels_by_pos_key=O({POS_KEY[k]: k for k in spec["kernels"]}))


def _ints(a):
    L = lib()
    arr = L["np"].asarray(a)
    out = arr.astype(L["np"].int64)
    if not L["np"].array_equal(out, arr):
        raise ValueError(f"non-integral stored value {arr!r}")
    return out.tolist()


def _num(v):
    """float of a data-frame cell; None for nan / inf"""
    f = float(v)
    return None if (math.isnan(f) or math.isinf(f)) else f


def _log(opt):
    if opt.is_none():
        return None
    d = opt.unwrap()
    return {kid: {"tr": _ints(k.transition), "codes": _ints(k.error_codes),
                  "ident": k.kernel_ident} for kid, k in sorted(d.items())}


def observe(spec, res):
    """all observations of one SamplingResults object, canonicalised (plain ints / floats / strings)"""
    L = lib()
    np, gs = L["np"], L["gs"]
    obs: dict = {}
    try:
        obs["log_all"] = _log(res.get_error_log(False))
    except RuntimeError as ex:
        obs["log_all"] = None
        obs["log_all_exc"] = type(ex).__name__
    obs["log_post"] = _log(res.get_error_log(True))
    obs["samples_all"] = {k: _ints(v) for k, v in sorted(res.get_samples().items())}
    try:
        obs["samples_post"] = {k: _ints(v) for k, v in sorted(res.get_posterior_samples().items())}
    except RuntimeError:
        obs["samples_post"] = None
    try:
        s = gs.Summary(res)
    except Exception as ex:          # RuntimeError (no posterior samples), KeyError (undocumented code), ...
        obs["summary"] = None
        obs["summary_exc"] = type(ex).__name__ + ": " + str(ex)[:120]
    else:
        info = s.sample_info
        errs = {}
        for kid, d in sorted(s.error_summary.items()):
            errs[kid] = [{"code": int(e.error_code), "msg": str(e.error_msg), "total": _ints(e.count_per_chain),
                          "post": None if e.count_per_chain_posterior is None else _ints(e.count_per_chain_posterior),
                          "key": int(k)} for k, e in d.items()]
        dfc = s.error_df(per_chain=True)
        dfa = s.error_df(per_chain=False)
        rows_c = [] if dfc.empty else [[str(r[0]), int(r[1]), str(r[2]), str(r[3]), int(r[4]), int(r[5]), _num(r[6])]
                                       for r in dfc.reset_index()[["kernel", "error_code", "error_msg", "phase", "chain", "count", "relative"]].values.tolist()]
        rows_a = [] if dfa.empty else [[str(r[0]), int(r[1]), str(r[2]), str(r[3]), int(r[4]), _num(r[5])]
                                       for r in dfa.reset_index()[["kernel", "error_code", "error_msg", "phase", "count", "relative"]].values.tolist()]
        # row / entry order is presentation, not bookkeeping: canonical order = (kernel, code, phase, chain)
        rank = {"warmup": 0, "posterior": 1}
        rows_c.sort(key=lambda r: (r[0], r[1], rank.get(r[3], 2), r[4]))
        rows_a.sort(key=lambda r: (r[0], r[1], rank.get(r[3], 2)))
        for kid in errs:
            errs[kid].sort(key=lambda e: e["code"])
        obs["summary"] = {"info": [float(info["num_chains"]), float(info["sample_size_per_chain"]), float(info["warmup_size_per_chain"])],
                          "errors": errs, "df_chain": rows_c, "df_agg": rows_a}
    # --- tests (not proved): ArviZ conversion and pickle round trip keep every stored sample -------------
    tests = {}
    try:
        if obs["samples_post"] is not None:
            idat = L["to_arviz"](res, include_warmup=False)
            tests["arviz_posterior"] = {k: _ints(idat.posterior[k].values) for k in obs["samples_post"]}
            tests["arviz_no_warmup_group"] = not hasattr(idat, "warmup_posterior")
            if any(t != 4 for t, _, _ in spec["sched"]):
                idw = L["to_arviz"](res, include_warmup=True)
                tests["arviz_w_posterior"] = {k: _ints(idw.posterior[k].values) for k in obs["samples_post"]}
                tests["arviz_w_warmup"] = {k: _ints(idw.warmup_posterior[k].values) for k in obs["samples_post"]}
    except Exception as ex:
        tests["arviz_exc"] = type(ex).__name__ + ": " + str(ex)[:160]
    fd, path = tempfile.mkstemp(prefix="lv_c19_", suffix=".pkl")
    os.close(fd)
    try:
        res.pkl_save(path)
        r2 = L["SR"].pkl_load(path)
        tests["pickle_samples"] = {k: _ints(v) for k, v in sorted(r2.get_samples().items())}
        try:
            tests["pickle_log_all"] = _log(r2.get_error_log(False))
        except RuntimeError:
            tests["pickle_log_all"] = None
        tests["pickle_log_post"] = _log(r2.get_error_log(True))
    except Exception as ex:
        tests["pickle_exc"] = type(ex).__name__ + ": " + str(ex)[:160]
    finally:
        os.remove(path)
    obs["tests"] = tests
    return obs


def _pack(a):
    arr = lib()["np"].asarray(a)
    return {"dtype": str(arr.dtype), "values": arr.tolist()}


def observe_dtype(spec, res):
    """tested clause only (wide dtypes): stored samples vs. ArviZ conversion vs. pickle round trip, values AND dtypes"""
    L = lib()
    ET = L["EpochType"]
    obs = {"stored_all": {k: _pack(v) for k, v in sorted(res.get_samples().items())},
           "stored_post": {k: _pack(v) for k, v in sorted(res.get_posterior_samples().items())},
           "stored_warm": {k: _pack(v) for k, v in sorted(res.positions.combine_filtered(
               lambda c: c.type != ET.POSTERIOR and c.type != ET.INITIAL_VALUES).unwrap().items())}}
    keys = list(obs["stored_post"])
    try:
        idat = L["to_arviz"](res, include_warmup=False)
        obs["arviz_posterior"] = {k: _pack(idat.posterior[k].values) for k in keys}
        idw = L["to_arviz"](res, include_warmup=True)
        obs["arviz_w_posterior"] = {k: _pack(idw.posterior[k].values) for k in keys}
        obs["arviz_w_warmup"] = {k: _pack(idw.warmup_posterior[k].values) for k in keys}
    except Exception as ex:
        obs["arviz_exc"] = type(ex).__name__ + ": " + str(ex)[:160]
    fd, path = tempfile.mkstemp(prefix="lv_c19_", suffix=".pkl")
    os.close(fd)
    try:
        res.pkl_save(path)
        r2 = L["SR"].pkl_load(path)
        obs["pickle_samples"] = {k: _pack(v) for k, v in sorted(r2.get_samples().items())}
        obs["pickle_log_all"] = _log(r2.get_error_log(False))
        obs["log_all"] = _log(res.get_error_log(False))
    except Exception as ex:
        obs["pickle_exc"] = type(ex).__name__ + ": " + str(ex)[:160]
    finally:
        os.remove(path)
    return obs


def _first_diff(got, want):
    """first position where two nested lists differ"""
    if isinstance(got, list) and isinstance(want, list):
        if len(got) != len(want):
            return f"length {len(got)} vs {len(want)}"
        for i, (g, w) in enumerate(zip(got, want)):
            d = _first_diff(g, w)
            if d:
                return f"[{i}]" + d
        return None
    return None if got == want else f": {got!r} instead of {want!r}"


def oracle_dtype(case):
    spec, obs = case["spec"], case["obs"]
    np = lib()["np"]
    C, dt = spec["chains"], spec["dtype"]
    keys = sorted(POS_KEY[k] for k in spec["kernels"])
    val = lambda c, t: float(pos_value(spec, c, t)) if dt == "float64" else pos_value(spec, c, t)
    ini = lambda k, c: float(init_value(spec, k, c)) if dt == "float64" else init_value(spec, k, c)
    want = {"stored_all": {k: [[ini(k, c)] + [val(c, t) for t in stored_indices(spec, lambda ty: True)] for c in range(C)] for k in keys},
            "stored_post": {k: [[val(c, t) for t in stored_indices(spec, lambda ty: ty == 4)] for c in range(C)] for k in keys},
            "stored_warm": {k: [[val(c, t) for t in stored_indices(spec, lambda ty: ty != 4)] for c in range(C)] for k in keys}}
    for grp, w in want.items():
        for k in keys:
            g = obs[grp].get(k)
            if g is None or g["dtype"] != dt or g["values"] != w[k]:
                return (f"stored samples ({grp}, key {k}) are not the scripted {dt} positions: dtype {g and g['dtype']}, "
                        f"first difference {g and _first_diff(g['values'], w[k])}")
    if "arviz_exc" in obs:
        return f"to_arviz_inference_data raised {obs['arviz_exc']} on {dt} samples"
    if "pickle_exc" in obs:
        return f"pkl_save / pkl_load raised {obs['pickle_exc']} on {dt} samples"
    for name, grp, call in (("arviz_posterior", "stored_post", "to_arviz_inference_data(include_warmup=False).posterior"),
                            ("arviz_w_posterior", "stored_post", "to_arviz_inference_data(include_warmup=True).posterior"),
                            ("arviz_w_warmup", "stored_warm", "to_arviz_inference_data(include_warmup=True).warmup_posterior"),
                            ("pickle_samples", "stored_all", "pkl_load(pkl_save(results)).get_samples()")):
        for k in keys:
            g, w = obs[name][k], obs[grp][k]
            if g["values"] != w["values"]:
                return (f"{call}[{k!r}] does not preserve the stored {w['dtype']} samples exactly (converted dtype {g['dtype']}): "
                        f"element {_first_diff(g['values'], w['values'])}")
            # dtype: identical, or a lossless widening (a narrowing / float<->int change cannot hold every stored value)
            if g["dtype"] != w["dtype"] and not np.can_cast(np.dtype(w["dtype"]), np.dtype(g["dtype"]), "safe"):
                return f"{call}[{k!r}] has dtype {g['dtype']}, the stored samples are {w['dtype']} (not a lossless conversion)"
    if obs["pickle_log_all"] != obs["log_all"] or obs["log_all"] != expected(spec)["log_all"]:
        return "pkl_save / pkl_load does not preserve the transition infos (error log differs)"
    return None


def run_case(spec):
    try:
        if spec.get("dtype"):
            with x64_context(spec):
                res = run_engine(spec) if spec["kind"] == "engine" else run_synth(spec)
                return {"spec": spec, "obs": observe_dtype(spec, res)}
        res = run_engine(spec) if spec["kind"] == "engine" else run_synth(spec)
        return {"spec": spec, "obs": observe(spec, res)}
    except Exception as ex:           # the implementation raised where no scripted run should: judged by the oracle
        import traceback
        return {"spec": spec, "obs": None, "error": type(ex).__name__ + ": " + str(ex)[:200],
                "traceback": traceback.format_exc()[-1500:]}


# ------------------------------------------------------------------------------------------------
# direct oracle: the property read literally on the scripted tables (independent of the Coq model)
# ------------------------------------------------------------------------------------------------
def phases(spec):
    """per global transition index: True = posterior"""
    out = []
    for ty, d, _ in spec["sched"]:
        out += [ty == 4] * d
    return out


def stored_indices(spec, want):
    """global transition indices whose position is stored, for the epochs with want(ty)"""
    out, t = [], 0
    for ty, d, th in spec["sched"]:
        if want(ty):
            out += [t + i for i in range(d) if th <= 1 or (1 + i) % th == 0]
        t += d
    return out


def expected(spec):
    C, ph = spec["chains"], phases(spec)
    T = len(ph)
    books = books_of(spec)
    kids = sorted(spec["kernels"])
    exp: dict = {}
    post_t = [t for t in range(T) if ph[t]]
    for mode, times in (("log_all", list(range(T))), ("log_post", post_t)):
        if (mode == "log_all" and T == 0) or (mode == "log_post" and not post_t):
            exp[mode] = None
            continue
        lg = {}
        for kid in kids:
            tab = spec["tabs"][kid]
            cols = [j for j, t in enumerate(times) if any(tab[c][t] != 0 for c in range(C))]
            lg[kid] = {"tr": cols, "codes": [[tab[c][times[j]] for j in cols] for c in range(C)], "ident": kid}
        exp[mode] = lg
    stamp = lambda c, t: 1000 * c + t + 1
    keys = sorted(POS_KEY[k] for k in spec["kernels"])
    st_all = stored_indices(spec, lambda ty: True)
    st_post = stored_indices(spec, lambda ty: ty == 4)
    st_warm = stored_indices(spec, lambda ty: ty != 4)
    exp["samples_all"] = {k: [[INIT[k] + c] + [stamp(c, t) for t in st_all] for c in range(C)] for k in keys}
    exp["samples_post"] = {k: [[stamp(c, t) for t in st_post] for c in range(C)] for k in keys} if post_t else None
    exp["samples_warm"] = {k: [[stamp(c, t) for t in st_warm] for c in range(C)] for k in keys}
    n_warm = sum(1 for p in ph if not p)
    undocumented = [(kid, v) for kid in kids for v in sorted({x for r in spec["tabs"][kid] for x in r}) if v != 0 and v not in books[kid]]
    if not post_t or T == 0 or undocumented:
        exp["summary"] = None
        exp["summary_why"] = ("no posterior epoch" if not post_t else f"code {undocumented[0][1]} of kernel {undocumented[0][0]} is not in its error book")
        return exp
    errors, rows_c, rows_a = {}, [], []
    size = {"warmup": n_warm, "posterior": len(st_post)}
    for kid in kids:
        tab = spec["tabs"][kid]
        codes = sorted({x for r in tab for x in r if x != 0})
        errors[kid] = []
        for v in codes:
            cnt = {"warmup": [sum(1 for t in range(T) if tab[c][t] == v and not ph[t]) for c in range(C)],
                   "posterior": [sum(1 for t in range(T) if tab[c][t] == v and ph[t]) for c in range(C)]}
            errors[kid].append({"code": v, "msg": books[kid][v], "total": [a + b for a, b in zip(cnt["warmup"], cnt["posterior"])],
                                "post": cnt["posterior"], "key": v})
            for phase in ("warmup", "posterior"):
                rel = [None if size[phase] == 0 else Fraction(n, size[phase]) for n in cnt[phase]]
                for c in range(C):
                    rows_c.append([kid, v, books[kid][v], phase, c, cnt[phase][c], rel[c]])
                rows_a.append([kid, v, books[kid][v], phase, sum(cnt[phase]), None if size[phase] == 0 else sum(rel) / C])
    exp["summary"] = {"info": [float(C), float(len(st_post)), float(n_warm)], "errors": errors, "df_chain": rows_c, "df_agg": rows_a}
    return exp


def _rows_equal(a, b):
    if len(a) != len(b):
        return False
    for x, y in zip(a, b):
        if x[:-1] != y[:-1]:
            return False
        if (x[-1] is None) != (y[-1] is None):
            return False
        if x[-1] is not None and abs(float(x[-1]) - float(y[-1])) > 1e-5 * max(1.0, abs(float(y[-1]))):
            return False
    return True


def _first_row_diff(got, want, names):
    for i in range(max(len(got), len(want))):
        g = got[i] if i < len(got) else None
        w = want[i] if i < len(want) else None
        if g is None or w is None or not _rows_equal([g], [w]):
            ws = None if w is None else [str(x) if isinstance(x, Fraction) else x for x in w]
            return f"row {i}: reported {dict(zip(names, g)) if g else None}, the scripted run has {dict(zip(names, ws)) if ws else None}"
    return "?"


def oracle(case):
    why = _oracle(case)
    h = case["spec"].get("history")
    if why and h:
        why = (f"after the history [sample {h['prefix']} epoch(s); read {'+'.join(h['reads']) or 'nothing'}; append and sample "
               f"{len(case['spec']['sched']) - h['prefix']} posterior epoch(s); read again through the {h['read_through']} results object]: " + why)
    return why


def _oracle(case):
    spec, obs = case["spec"], case["obs"]
    if obs is None:
        return f"running / reading the scripted run raised {case.get('error')}"
    if spec.get("dtype"):
        return oracle_dtype(case)
    exp = expected(spec)
    for mode, arg in (("log_all", "False"), ("log_post", "True")):
        if obs[mode] != exp[mode]:
            detail = ""
            if obs[mode] and exp[mode]:
                for kid in exp[mode]:
                    if obs[mode].get(kid) != exp[mode][kid]:
                        detail = f" kernel {kid}: logged transitions {obs[mode].get(kid, {}).get('tr')} codes {obs[mode].get(kid, {}).get('codes')}; " \
                                 f"scripted: transitions {exp[mode][kid]['tr']} codes {exp[mode][kid]['codes']}"
                        break
            return f"get_error_log(posterior_only={arg}) does not hold exactly the transitions with a non-zero code:{detail or ' ' + str(obs[mode])[:200] + ' vs ' + str(exp[mode])[:200]}"
    if obs["samples_all"] != exp["samples_all"]:
        return f"get_samples() is not the initial value followed by the thinned per-iteration positions: {str(obs['samples_all'])[:300]} expected {str(exp['samples_all'])[:300]}"
    if obs["samples_post"] != exp["samples_post"]:
        return f"get_posterior_samples() differs from the stored posterior iterations: {str(obs['samples_post'])[:300]} expected {str(exp['samples_post'])[:300]}"
    so, se = obs["summary"], exp["summary"]
    if (so is None) != (se is None):
        if so is None:
            return f"Summary(results) raised {obs.get('summary_exc')} although there are posterior samples and every code is documented"
        return f"Summary(results) did not raise although {exp['summary_why']}"
    if so is not None:
        if so["info"] != se["info"]:
            return (f"sample_info reports (num_chains, sample_size_per_chain, warmup_size_per_chain) = {so['info']}; "
                    f"stored: {se['info'][0]:.0f} chains x {se['info'][1]:.0f} posterior samples, {se['info'][2]:.0f} warmup transitions")
        if so["errors"] != se["errors"]:
            for kid in se["errors"]:
                if so["errors"].get(kid) != se["errors"][kid]:
                    return f"error_summary of kernel {kid} is {so['errors'].get(kid)}; the scripted transitions give {se['errors'][kid]}"
            return f"error_summary lists kernels {sorted(so['errors'])}, the run has {sorted(se['errors'])}"
        if not _rows_equal(so["df_chain"], se["df_chain"]):
            return "error_df(per_chain=True): " + _first_row_diff(so["df_chain"], se["df_chain"], ["kernel", "error_code", "error_msg", "phase", "chain", "count", "relative"])
        if not _rows_equal(so["df_agg"], se["df_agg"]):
            return "error_df(per_chain=False): " + _first_row_diff(so["df_agg"], se["df_agg"], ["kernel", "error_code", "error_msg", "phase", "count", "relative"])
    # tests: conversions keep all stored samples
    t = obs["tests"]
    if "arviz_exc" in t:
        return f"to_arviz_inference_data raised {t['arviz_exc']} although posterior" + (" and warmup" if "arviz_posterior" in t else "") + " samples are stored"
    if "pickle_exc" in t:
        return f"pkl_save / pkl_load raised {t['pickle_exc']}"
    if "arviz_posterior" in t:
        if t["arviz_posterior"] != exp["samples_post"] or not t["arviz_no_warmup_group"]:
            return f"to_arviz_inference_data(include_warmup=False) does not hold exactly the stored posterior samples: {str(t['arviz_posterior'])[:300]}"
    if "arviz_w_posterior" in t:
        if t["arviz_w_posterior"] != exp["samples_post"] or t["arviz_w_warmup"] != exp["samples_warm"]:
            return (f"to_arviz_inference_data(include_warmup=True) changes the stored samples: posterior {str(t['arviz_w_posterior'])[:200]} "
                    f"warmup {str(t['arviz_w_warmup'])[:200]} expected warmup {str(exp['samples_warm'])[:200]}")
    if t["pickle_samples"] != exp["samples_all"] or t["pickle_log_all"] != exp["log_all"] or t["pickle_log_post"] != exp["log_post"]:
        return "pkl_save / pkl_load does not preserve the stored samples / transition infos"
    return None


# ------------------------------------------------------------------------------------------------
# generators
# ------------------------------------------------------------------------------------------------
def mk_sched(rnd, n_warm, n_post, thin_w=False, thin_p=False, maxd=8, mult=1):
    s = []
    for _ in range(n_warm):
        ty = rnd.choice([1, 2, 3])
        th = rnd.choice([2, 3]) if thin_w and rnd.random() < 0.7 else 1
        d = mult * rnd.randint(max(1, -(-th // mult)), maxd)
        s.append([ty, max(d, th), th])
    for _ in range(n_post):
        th = rnd.choice([2, 3, 4]) if thin_p and rnd.random() < 0.7 else 1
        d = th * mult * rnd.randint(1, max(1, maxd // th))
        s.append([4, d, th])
    return s


def mk_tab(rnd, spec, pattern, codes):
    C, ph = spec["chains"], phases(spec)
    T = len(ph)
    dens = rnd.choice([0.1, 0.3, 0.6])
    tab = [[0] * T for _ in range(C)]
    for c in range(C):
        for t in range(T):
            hit = rnd.random() < dens
            if pattern == "none":
                hit = False
            elif pattern == "warmup_only":
                hit = hit and not ph[t]
            elif pattern == "posterior_only":
                hit = hit and ph[t]
            elif pattern == "dense":
                hit = True
            elif pattern == "one_chain":
                hit = hit and c == C - 1
            elif pattern == "boundary":
                # only the first / last transition of an epoch
                hit = False
            if hit:
                tab[c][t] = rnd.choice(codes)
    if pattern == "boundary":
        t = 0
        for _, d, _ in spec["sched"]:
            for tt in {t, t + d - 1}:
                c = rnd.randrange(C)
                tab[c][tt] = rnd.choice(codes)
            t += d
    return tab


PATTERNS = ["none", "warmup_only", "posterior_only", "both", "dense", "one_chain", "boundary"]


def random_spec(rnd, kind, idx, force=None, quick=True):
    force = force or {}
    pattern = force.get("pattern") or rnd.choice(PATTERNS)
    shape = force.get("shape") or rnd.choice(["std", "std", "std", "thin_post", "thin_warm", "thin_both", "multi_post", "post_only", "no_post"])
    C = force.get("chains") or rnd.choice([1, 2, 2, 3, 4])
    kernels = force.get("kernels") or rnd.choice([["ka"], ["ka", "kb"], ["kb", "ka"], ["kb"]])
    maxd = 7 if quick else 12
    chunk = None
    mult = 1
    if kind == "engine" and rnd.random() < 0.4:
        mult = rnd.choice([2, 3])
        chunk = rnd.choice([1, mult])
    if kind == "synth":
        chunk = rnd.choice([1, 2, 3, 5])
    nw = rnd.randint(1, 3)
    npst = rnd.randint(2, 3) if shape == "multi_post" else rnd.randint(1, 2)
    if shape == "post_only":
        nw = 0
    if shape == "no_post":
        npst = 0
    while True:
        sched = mk_sched(rnd, nw, npst, thin_w=shape in ("thin_warm", "thin_both"), thin_p=shape in ("thin_post", "thin_both", "multi_post"),
                         maxd=maxd, mult=mult)
        if sum(d for _, d, _ in sched) <= 60:
            break
    if chunk is not None and kind == "engine":
        g = 0
        for _, d, _ in sched:
            g = math.gcd(g, d)
        if g % chunk:
            chunk = 1
    spec = {"kind": kind, "name": f"{kind}-{idx}", "sched": sched, "chains": C, "kernels": list(kernels), "chunk": chunk,
            "seed": rnd.randint(1, 10 ** 6), "tabs": {}}
    for kid in kernels:
        if kind == "engine":
            codes = [1, 2, 3] + ([4] if force.get("undocumented") else [])
        else:
            codes = ([1, 2, 3, 90] if kid == "ka" else [1, 3]) + ([7 if kid == "ka" else 2] if force.get("undocumented") else [])
        pat = pattern if (kid == kernels[0] or rnd.random() < 0.6) else rnd.choice(PATTERNS)
        spec["tabs"][kid] = mk_tab(rnd, spec, pat, codes)
    if force.get("undocumented"):
        # make sure the undocumented code really occurs
        kid = kernels[-1]
        bad = 4 if kind == "engine" else (7 if kid == "ka" else 2)
        if total_T(spec):
            spec["tabs"][kid][rnd.randrange(C)][rnd.randrange(total_T(spec))] = bad
    spec["stratum"] = f"{kind}/{shape}/{pattern}" + ("/undocumented" if force.get("undocumented") else "")
    return spec


def load_corpus():
    out = []
    d = os.path.join(common.VERIF, "harness", "corpus")
    if os.path.isdir(d):
        for f in sorted(os.listdir(d)):
            if f.startswith("C19") and f.endswith(".json"):
                for s in json.load(open(os.path.join(d, f))):
                    out.append(s)
    return out


def fixed_specs():
    """small hand-made cases that always run first"""
    z = lambda n: [0] * n
    return [
        # the DESIGN probe: 5-epoch schedule, thinning in warmup and posterior, two kernels, two chains
        {"kind": "engine", "name": "fixed-probe", "stratum": "engine/fixed", "chains": 2, "kernels": ["ka", "kb"], "chunk": None, "seed": 1,
         "sched": [[1, 3, 1], [3, 4, 2], [4, 4, 2], [4, 2, 1]],
         "tabs": {"ka": [[3, 0, 1, 1, 1, 0, 1, 3, 0, 2, 0, 0, 2], [0, 0, 0, 3, 0, 3, 0, 0, 2, 1, 0, 1, 3]],
                  "kb": [[0, 1, 0, 0, 1, 3, 1, 1, 0, 0, 0, 0, 0], [2, 1, 1, 0, 2, 0, 0, 0, 2, 3, 3, 0, 2]]}},
        # an error in the LAST warmup transition and in the FIRST posterior transition, in different chains
        {"kind": "engine", "name": "fixed-boundary", "stratum": "engine/fixed", "chains": 2, "kernels": ["ka"], "chunk": 1, "seed": 2,
         "sched": [[1, 2, 1], [2, 3, 1], [4, 4, 1]],
         "tabs": {"ka": [[0, 0, 0, 0, 1, 0, 0, 0, 0], [0, 0, 0, 0, 0, 2, 0, 0, 0]]}},
        # same code in every chain at one transition, other codes in a single chain only
        {"kind": "synth", "name": "fixed-mask", "stratum": "synth/fixed", "chains": 3, "kernels": ["kb", "ka"], "chunk": 2, "seed": 3,
         "sched": [[1, 4, 1], [4, 6, 3]],
         "tabs": {"ka": [[1, 0, 0, 0, 0, 0, 90, 0, 0, 1], [1, 0, 0, 2, 0, 0, 0, 0, 0, 0], [1, 0, 0, 0, 0, 0, 0, 0, 3, 0]],
                  "kb": [z(10), z(10), [0, 0, 0, 0, 3, 0, 0, 0, 0, 3]]}},
        # posterior only schedule (warmup size 0 -> relative frequency nan), no errors in one kernel
        {"kind": "synth", "name": "fixed-postonly", "stratum": "synth/fixed", "chains": 2, "kernels": ["ka", "kb"], "chunk": 3, "seed": 4,
         "sched": [[4, 4, 2], [4, 3, 1]],
         "tabs": {"ka": [[1, 0, 2, 1, 0, 0, 1], [0, 0, 0, 3, 0, 0, 0]], "kb": [z(7), z(7)]}},
        # warmup only (no posterior epoch): Summary raises, posterior log is Option(None)
        {"kind": "engine", "name": "fixed-nopost", "stratum": "engine/fixed", "chains": 1, "kernels": ["kb"], "chunk": None, "seed": 5,
         "sched": [[1, 2, 1], [3, 2, 2]], "tabs": {"kb": [[0, 1, 0, 3]]}},
        # undocumented code
        {"kind": "synth", "name": "fixed-undoc", "stratum": "synth/fixed/undocumented", "chains": 1, "kernels": ["kb"], "chunk": 1, "seed": 6,
         "sched": [[1, 2, 1], [4, 2, 1]], "tabs": {"kb": [[0, 2, 0, 1]]}},
        # two kernels of the same class, both returning code 1 (same (code, message) pair), three chains
        {"kind": "synth", "name": "fixed-sameclass", "stratum": "synth/fixed/same-class-x2", "chains": 3, "kernels": ["ka", "kb"], "chunk": 2,
         "seed": 8, "same_book": True, "sched": [[3, 3, 1], [4, 4, 2]],
         "tabs": {"ka": [[1, 0, 0, 0, 1, 0, 0], [0, 0, 0, 0, 0, 2, 0], [0, 1, 0, 0, 0, 0, 0]],
                  "kb": [[0, 0, 0, 0, 0, 0, 0], [0, 0, 1, 1, 0, 0, 0], [0, 0, 0, 0, 0, 1, 2]]}},
        # history: Summary built after the first posterior epoch, a second posterior epoch (with errors) appended and
        # sampled, everything re-read through the SAME results object
        {"kind": "engine", "name": "fixed-history", "stratum": "history/fixed", "chains": 2, "kernels": ["ka"], "chunk": None, "seed": 9,
         "sched": [[3, 2, 1], [4, 4, 2], [4, 2, 1]], "history": {"prefix": 2, "reads": ["samples", "summary", "arviz"], "read_through": "same"},
         "tabs": {"ka": [[0, 1, 0, 0, 2, 0, 1, 3], [0, 0, 0, 0, 0, 0, 0, 2]]}},
        # no transition at all
        {"kind": "synth", "name": "fixed-notrans", "stratum": "synth/fixed", "chains": 2, "kernels": ["ka"], "chunk": 1, "seed": 7,
         "sched": [], "tabs": {"ka": [[], []]}},
    ]


SHAPES = ["std", "thin_post", "thin_warm", "multi_post", "post_only", "thin_both", "no_post", "std"]
KERNELS = [["ka"], ["ka", "kb"], ["kb", "ka"], ["kb"]]
CHAINS = [2, 1, 3, 4, 2, 3]


def retable(rnd, base, idx, pattern, undocumented=False):
    """same schedule / chains / kernels / chunking as ``base`` (the implementation's array shapes repeat, which
    keeps JAX's per-shape compilations low), new error tables"""
    spec = {k: (json.loads(json.dumps(v)) if k != "tabs" else {}) for k, v in base.items()}
    spec["name"] = f"{base['kind']}-{idx}"
    kernels, kind, C = spec["kernels"], spec["kind"], spec["chains"]
    books = books_of(spec)
    same = bool(spec.get("same_book"))
    for kid in kernels:
        codes = sorted(c for c in books[kid] if c != 0)
        pat = pattern if (same or kid == kernels[0] or rnd.random() < 0.6) else rnd.choice(PATTERNS)
        spec["tabs"][kid] = mk_tab(rnd, spec, pat, codes)
    if same and total_T(spec) and pattern != "none":
        # every kernel returns one common code somewhere (same (code, message) pair in several kernels), in
        # different chains / at different transitions
        common = rnd.choice(sorted(c for c in books[kernels[0]] if c != 0))
        ph = phases(spec)
        ok_t = [t for t in range(total_T(spec)) if pattern not in ("warmup_only", "posterior_only") or ph[t] == (pattern == "posterior_only")]
        for j, kid in enumerate(kernels):
            if ok_t:
                spec["tabs"][kid][C - 1 if pattern == "one_chain" else (j + rnd.randrange(C)) % C][rnd.choice(ok_t)] = common
    if undocumented and total_T(spec):
        kid = kernels[-1]
        bad = 2 if 2 not in books[kid] else (4 if kind == "engine" else 7)
        spec["tabs"][kid][rnd.randrange(C)][rnd.randrange(total_T(spec))] = bad
    shape = base["stratum"].split("/")[1]
    spec["stratum"] = (f"{kind}/{shape}/{pattern}" + ("/undocumented" if undocumented else "")
                       + (f"/same-class-x{len(kernels)}" if same else ""))
    return spec


def gen_specs(ctx, rnd, offset=0):
    """strata are forced by cycling: every schedule shape x chain count x kernel layout, and within each shape
    group every error pattern (none / warmup-only / posterior-only / both / dense / one chain / epoch boundaries)"""
    specs = [] if offset else load_corpus() + fixed_specs()
    quick = ctx.quick
    n_engine, n_groups, per_group = (14, 16, 5) if quick else (110, 100, 6)
    i = offset
    for g in range(n_groups):
        gg = g + offset
        base = random_spec(rnd, "synth", i, {"shape": SHAPES[gg % len(SHAPES)], "chains": CHAINS[gg % len(CHAINS)],
                                             "kernels": KERNELS[(gg // 2) % len(KERNELS)], "pattern": "none"}, quick)
        for v in range(per_group):
            specs.append(retable(rnd, base, i, PATTERNS[(gg + 3 * v) % len(PATTERNS)], undocumented=(gg % 5 == 2 and v == per_group - 1)))
            i += 1
    # several kernels of the SAME class (identical error books) returning the same codes: rows of different kernels then
    # share (error_code, error_msg, phase); 2-4 chains, two or three kernels
    same_layouts = [["ka", "kb"], ["kb", "ka", "kc"], ["kc", "ka"]]
    same_patterns = ["both", "dense", "posterior_only", "one_chain", "boundary", "warmup_only"]
    n_same, per_same = (3, 3) if quick else (18, 5)
    for g in range(n_same):
        gg = g + offset
        for kind in ("synth", "engine"):
            base = random_spec(rnd, kind, i, {"shape": SHAPES[(gg + (kind == "engine")) % 4], "chains": [3, 2, 4][gg % 3],
                                              "kernels": same_layouts[gg % 3], "pattern": "none"}, quick)
            base["same_book"] = True
            for v in range(per_same if kind == "synth" else 1):
                specs.append(retable(rnd, base, i, same_patterns[(gg + 2 * v) % len(same_patterns)]))
                i += 1
    for e in range(n_engine):
        ee = e + offset
        base = random_spec(rnd, "engine", i, {"shape": SHAPES[ee % len(SHAPES)], "chains": CHAINS[(ee + 1) % len(CHAINS)],
                                              "kernels": KERNELS[(ee + 1) % len(KERNELS)], "pattern": "none"}, quick)
        specs.append(retable(rnd, base, i, PATTERNS[(3 * ee + 1) % len(PATTERNS)], undocumented=(ee % 8 == 5)))
        i += 1
    return specs


def history_specs(ctx, rnd):
    """real engine runs with a multi-step history: sample a prefix of the schedule (ending in a posterior epoch), read the
    results (samples / Summary / ArviZ / pickle), append one or two further posterior epochs WITH errors, sample them, and
    read everything again through the same results object and through a freshly obtained one.  Every observable of the
    second read must be that of the FULL schedule."""
    out = []
    n = 3 if ctx.quick else 16
    reads_cycle = [["samples"], ["summary"], ["arviz"], ["samples", "summary", "arviz", "pickle"], ["pickle"], []]
    for i in range(n):
        shape = ["std", "thin_post", "thin_warm", "multi_post"][i % 4]
        base = random_spec(rnd, "engine", 30000 + i, {"shape": shape, "chains": CHAINS[i % len(CHAINS)],
                                                      "kernels": KERNELS[(i + 1) % len(KERNELS)], "pattern": "none"}, True)
        g = 0
        for _, d, _ in base["sched"]:
            g = math.gcd(g, d)
        chunk = base["chunk"] if base["chunk"] is not None else g
        n_first = len(base["sched"])
        for _ in range(1 + (i % 2)):
            th = [1, 2, 1, 3][(i + _) % 4]
            base["sched"].append([4, chunk * th * rnd.randint(1, 3), th])
        if sum(d for _, d, _ in base["sched"]) > 70:
            base["sched"] = base["sched"][:n_first] + [[4, chunk, 1]]
        for through in ("same", "fresh"):
            spec = retable(rnd, base, 30000 + i, ["both", "posterior_only", "dense", "boundary"][i % 4])
            # the appended epochs carry errors in every chain
            T, Tp = total_T(spec), sum(d for _, d, _ in spec["sched"][:n_first])
            for kid in spec["kernels"]:
                for c in range(spec["chains"]):
                    spec["tabs"][kid][c][rnd.randrange(Tp, T)] = rnd.choice([1, 3])
            spec["history"] = {"prefix": n_first, "reads": reads_cycle[i % len(reads_cycle)], "read_through": through}
            spec["name"] = f"history-{i}-{through}"
            spec["stratum"] = f"history/read={'+'.join(spec['history']['reads']) or 'none'}/then-append-{len(spec['sched']) - n_first}-posterior/reread-{through}"
            out.append(spec)
    return out


def dtype_specs(ctx, rnd):
    """tested ArviZ / pickle clause on samples a float32 cannot hold: float64 positions (jax x64 enabled for these runs
    only) and int32 positions above 2**24; real engine runs and assembled results, warmup + posterior, with thinning"""
    out = []
    n = 1 if ctx.quick else 4
    i = 0
    for rep in range(n):
        for dt in ("float64", "int32"):
            for kind in ("engine", "synth"):
                shape = ["thin_both", "std", "thin_post", "thin_warm"][(rep + i) % 4]
                base = random_spec(rnd, kind, 20000 + i, {"shape": shape, "chains": CHAINS[i % len(CHAINS)],
                                                          "kernels": KERNELS[i % len(KERNELS)], "pattern": "none"}, True)
                spec = retable(rnd, base, 20000 + i, "both")
                spec["dtype"] = dt
                spec["stratum"] = f"dtype/{dt}/{kind}"
                out.append(spec)
                i += 1
    return out


def features(spec):
    ph = phases(spec)
    f = []
    allc = [x for tab in spec["tabs"].values() for r in tab for x in r]
    if not any(allc):
        f.append("errors:none")
    else:
        w = any(x and not ph[t] for tab in spec["tabs"].values() for r in tab for t, x in enumerate(r))
        p = any(x and ph[t] for tab in spec["tabs"].values() for r in tab for t, x in enumerate(r))
        f.append("errors:" + ("warmup+posterior" if w and p else "warmup-only" if w else "posterior-only"))
    f.append(f"chains:{spec['chains']}")
    f.append(f"kernels:{len(spec['kernels'])}")
    if spec.get("same_book") and len(spec["kernels"]) > 1:
        shared = set.intersection(*[{x for r in spec["tabs"][k] for x in r if x} for k in spec["kernels"]])
        f.append("same-class kernels sharing an occurring code" if shared else "same-class kernels, no shared occurring code")
    f.append("posterior-epochs:" + str(sum(1 for t, _, _ in spec["sched"] if t == 4)))
    f.append("warmup-epochs:" + str(min(3, sum(1 for t, _, _ in spec["sched"] if t != 4))) )
    if any(th > 1 and t == 4 for t, _, th in spec["sched"]):
        f.append("thinning:posterior")
    if any(th > 1 and t != 4 for t, _, th in spec["sched"]):
        f.append("thinning:warmup")
    return f


def generate(ctx):
    rnd = random.Random(ctx.seed)
    lib()
    specs = gen_specs(ctx, rnd) + history_specs(ctx, rnd) + dtype_specs(ctx, rnd)
    cases = []
    for s in specs:
        cases.append(run_case(s))
        ctx.hist(s.get("stratum", "corpus"))
        for f in features(s):
            ctx.hist(f)
    distinct = len({json.dumps([c["spec"]["sched"], c["spec"]["tabs"], c["spec"]["kernels"]], sort_keys=True) for c in cases
                    if any(x for tab in c["spec"]["tabs"].values() for r in tab for x in r)})
    ctx.count(len(cases), distinct)
    ctx.cov["rule"] = ("one case = one SamplingResults object (real engine run with scripted kernels, or assembled through "
                       "EpochChainManager's public API) on which all observables are compared; distinct non-trivial = distinct "
                       "(schedule, error tables, kernel order) with at least one non-zero error code")
    for c in [c for c in cases if c["obs"] and not c["spec"].get("dtype")][:3]:
        ctx.sample({"spec": c["spec"], "error_df_rows": (c["obs"]["summary"] or {}).get("df_chain", [])[:4]}, limit=3)
    ctx.tested_not_proved += [
        "to_arviz_inference_data (with / without warmup) holds arrays equal to the stored samples (ArviZ, xarray trusted); "
        "also on samples a float32 cannot hold: float64 positions (jax x64 enabled for those runs) and int32 positions above "
        "2**24, values exact and dtype identical or a lossless widening (strata dtype/*)",
        "pkl_save / pkl_load round trip preserves samples (values and dtype, incl. the wide-dtype runs) and error logs (pickle trusted)",
        "jit / vmap / scan of the engine, numpy boolean-mask indexing, np.unique, pandas explode / melt / groupby / sort_index "
        "(modelled by list functions; tied to the code only by the correspondence shards)",
        "relative frequencies are compared within 1e-5 (the implementation computes them in float32)",
    ]
    ctx.assume += [
        "error arrays are rectangular (one code per chain and transition) - hypothesis `rectangular` / Forall length",
        "schedules are those EpochManager accepts (C16): duration >= thinning >= 1, hence every epoch stores at least one sample",
        "kernels' error codes are non-negative integers; kernel identifiers are listed in sorted order",
    ]
    ctx.extra_tb = ["harness kernels lv/c19_kernel.py (scripted error codes / position stamps) and the synthetic SamplingResults "
                    "builder in lv/c19.py", "numpy, pandas, ArviZ, pickle, JAX (jit/vmap/scan) - modelled or tested, not verified"]
    return cases


# ------------------------------------------------------------------------------------------------
# emission
# ------------------------------------------------------------------------------------------------
def nl(xs):
    return lst(str(int(x)) for x in xs)


def nll(xss):
    return lst(nl(r) for r in xss)


def opt(x, f):
    return "None" if x is None else f"(Some {f(x)})"


def zl(xs):
    return lst(zlit(x) for x in xs)


def zll(xss):
    return "(" + lst(zl(r) for r in xss) + "%Z)"


def kel_lit(k):
    return f"(mkKel {nl(k['tr'])} {nll(k['codes'])})"


def log_lit(lg, kids):
    if lg is None:
        return "None"
    if sorted(lg) != kids:
        raise ValueError(f"error log lists kernels {sorted(lg)}, the run has {kids}")
    return "(Some " + lst(kel_lit(lg[k]) for k in kids) + ")"


def qopt(v):
    return "None" if v is None else f"(Some {qlit(Fraction(v))})"


def summary_lit(s, kids):
    if s is None:
        return "None"
    info = s["info"]
    if any(x != int(x) or x < 0 for x in info):
        raise ValueError(f"sample_info is not integral: {info}")
    si = f"(mkSI {int(info[0])} {int(info[1])} {int(info[2])})"
    if sorted(s["errors"]) != kids:
        raise ValueError(f"error_summary lists kernels {sorted(s['errors'])}, the run has {kids}")
    errs = lst(lst(f"(mkEntry {e['code']} (Some {strlit(e['msg'])}) {nl(e['total'])} {opt(e['post'], nl)})" for e in s["errors"][k]) for k in kids)
    ph = {"warmup": "Warmup", "posterior": "Posterior"}
    dc = lst(f"(mkRow {kids.index(r[0])} {r[1]} (Some {strlit(r[2])}) {ph[r[3]]} {r[4]} {zlit(r[5])}%Z {qopt(r[6])})" for r in s["df_chain"])
    da = lst(f"(mkARow {kids.index(r[0])} {r[1]} (Some {strlit(r[2])}) {ph[r[3]]} {zlit(r[4])}%Z {qopt(r[5])})" for r in s["df_agg"])
    return f"(Some (mkSumm {si} {errs} (Some {dc}) (Some {da})))"


def case_lit(case):
    spec, obs = case["spec"], case["obs"]
    if obs is None:
        raise ValueError("the run raised: " + str(case.get("error")))
    kids = sorted(spec["kernels"])
    books = books_of(spec)
    C, T = spec["chains"], total_T(spec)
    key = sorted(POS_KEY[k] for k in kids)[0]
    sched = lst(f"(mkEp {blit(t == 4)} {d} {th})" for t, d, th in spec["sched"])
    ks = lst("(mkK " + lst(f"({c}, {strlit(m)})" for c, m in sorted(books[k].items())) + " " + nll(spec["tabs"][k]) + ")" for k in kids)
    run = f"(mkRun {sched} {ks} ({zl(INIT[key] + c for c in range(C))}%Z) {zll([[1000 * c + t + 1 for t in range(T)] for c in range(C)])})"
    # every position key holds the same stamps (checked literally by the oracle): compare the first one in Coq
    sp = obs["samples_post"]
    o = (f"(mkObs {log_lit(obs['log_all'], kids)} {log_lit(obs['log_post'], kids)} {summary_lit(obs['summary'], kids)} "
         f"{zll(obs['samples_all'][key])} {opt(None if sp is None else sp[key], zll)})")
    return f"({run}, {o})"


def emit(ctx, cases):
    shards = []
    per = 60
    modelled = [i for i, c in enumerate(cases) if not c["spec"].get("dtype")]     # dtype cases: tested clause only
    for k in range(0, len(modelled), per):
        idxs = modelled[k:k + per]
        rows = []
        for i in idxs:
            try:
                rows.append(case_lit(cases[i]))
            except ValueError as ex:          # observation outside the model's carrier: certainly a disagreement
                common.log(f"case {i} not representable: {ex}")
                rows.append("(mkRun [] [] [] [], mkObs None None None [] None)")
        txt = HEADER + f"""
Open Scope string_scope.
Definition cases : list (run * obs) := {lst(rows)}.
Lemma shard_ok : forallb agrees cases = true.
Proof. vm_compute. reflexivity. Qed.
"""
        shards.append((ctx.new_shard(txt), idxs))
    return shards


def diagnose(ctx, path, idxs, cases):
    txt = open(path).read().split("Lemma shard_ok")[0] + """
Eval vm_compute in (failing agrees cases).
Eval vm_compute in (map (fun i => agree_bits (nth i cases (mkRun [] [] [] [], mkObs None None None [] None))) (failing agrees cases)).
"""
    ok, out = ctx.coq_eval(txt)
    bad = common.parse_nat_list(out)
    common.log(f"diagnose {os.path.basename(path)}: disagreeing cases {[idxs[b] for b in bad if b < len(idxs)]}; bits per case "
               f"({', '.join(BITS)}): " + out.split("=")[-1].strip()[:600])
    return [idxs[b] for b in bad if b < len(idxs)]


# ------------------------------------------------------------------------------------------------
# search (model / proof broken but no sampled case fails the oracle) and replay
# ------------------------------------------------------------------------------------------------
def search(ctx, disagreeing):
    rnd = random.Random(ctx.seed + 7919)
    found = []
    for i in range(200 if ctx.quick else 1500):
        spec = random_spec(rnd, "synth" if i % 5 else "engine", 10000 + i, None, ctx.quick)
        spec = retable(rnd, spec, 10000 + i, rnd.choice(PATTERNS), undocumented=(i % 11 == 10))
        case = run_case(spec)
        why = oracle(case)
        if why:
            found.append({"why": why, "spec": spec, "obs": {k: v for k, v in (case["obs"] or {}).items() if k != "tests"}})
            if len(found) >= 2:
                break
    return found


def replay(rp) -> int:
    r = rp.get("replay", rp)
    c = r.get("case")
    if not c or "spec" not in c:
        print("replay file names no concrete input (broken lemma only):", r.get("broken"))
        for dc in r.get("disagreeing_cases", [])[:3]:
            if "spec" in dc:
                why = oracle(run_case(dc["spec"]))
                print("  disagreeing case", dc["spec"].get("name"), "->", why or "oracle passes")
        return 0
    spec = c["spec"]
    case = run_case(spec)
    why = oracle(case)
    print("schedule (type, duration, thinning):", spec["sched"], "chains:", spec["chains"], "kernels:", spec["kernels"], "(all of the same class)" if spec.get("same_book") else "", "kind:", spec["kind"])
    for k, tab in spec["tabs"].items():
        print(f"scripted error codes of {k} (chain x transition):", tab)
    if spec.get("history"):
        h = spec["history"]
        print(f"history: sample the first {h['prefix']} epochs, read {h['reads']}, append + sample the remaining epochs, "
              f"read everything again through the {h['read_through']} results object")
    if why:
        print("REPLAY FAILS:", why)
        return 1
    print("replay passes on the current tree")
    return 0
