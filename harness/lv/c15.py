"""C15 - built models are complete, acyclic, uniquely named, frozen, and round-trip.

Every case is a small program: object constructors (Value / Calc / Dist / Var / Group, named or unnamed,
shared inputs, seeded nodes, user names colliding with generated ones) followed by operations
(build, build(copy=True), Model(...), pop, rebuild from popped / copied nodes, copy_nodes_and_vars,
deepcopy, save/load, every structural mutator, value assignment).  The real liesel code runs the program;
before and after every operation the Python objects are snapshotted through the public API ("world").
Coq evaluates the model (Graph/Build.v) on the observed pre-operation world and the shard lemma certifies
agreement with the observed result and post-operation world.  The direct oracle reads the property on the
observations (completeness of the closure, unique names, outputs = inverse inputs, topological update
order, rejection of cycles / duplicates, frozen mutators leave the world unchanged, round trips reproduce
state and behaviour and are independent of the original).
"""
from __future__ import annotations

import copy as _copy
import json
import os
import random
import re

from . import common
from .common import lst, blit, natlit, strlit
from . import c15_kit as kit

HEADER = """From Coq Require Import List Arith Bool String.
Import ListNotations.
From LV Require Import Base.ListAux Graph.Build Graph.CorrC15.
Open Scope string_scope.
Open Scope list_scope.
"""

NODE_SETTERS = {"name": "x_renamed", "needs_seed": True, "function": None, "distribution": None, "at": None,
                "per_obs": False}
VAR_SETTERS = {"name": "x_renamed", "observed": True, "parameter": True, "dist_node": None, "value_node": 7}
ALLOWED_IN_MODEL = {"value", "state", "role", "auto_transform", "monitor", "info"}


# ---------------------------------------------------------------------------------------------
# running a program on the real code
# ---------------------------------------------------------------------------------------------
def reflect_mutators():
    """structural mutators found by reflection: properties with a setter and public methods wrapped by the
    no_model_* guards (code object of the wrapper), for every Node subclass and Var"""
    L = kit.lsl()
    import liesel.model.nodes as N
    out = {"node": {}, "var": {}}
    classes = [c for c in vars(N).values() if isinstance(c, type) and issubclass(c, N.Node)]
    for cls in classes + [N.Var]:
        side = "var" if cls is N.Var else "node"
        for nm in dir(cls):
            if nm.startswith("_"):
                continue
            a = getattr(cls, nm, None)
            if isinstance(a, property) and a.fset is not None:
                guarded = "no_model" in getattr(a.fset.__code__, "co_qualname", a.fset.__code__.co_name + str(a.fset.__code__.co_freevars))
                out[side].setdefault(nm, {"kind": "setter", "guarded": guarded, "classes": []})["classes"].append(cls.__name__)
            elif callable(a) and hasattr(a, "__wrapped__") and "no_model" in getattr(a.__code__, "co_qualname", ""):
                out[side].setdefault(nm, {"kind": "method", "guarded": True, "classes": []})["classes"].append(cls.__name__)
    return out


def apply_mutator(obj, mut, arg, objs_for_arg=None):
    """try one structural mutation through the public API; returns None or the exception"""
    L = kit.lsl()
    try:
        if mut == "set_inputs":
            obj.set_inputs(*arg["pos"], **dict(arg["kw"]))
        elif mut == "add_inputs":
            obj.add_inputs(*arg["pos"], **dict(arg["kw"]))
        elif mut == "function":
            obj.function = kit.Fn(99)
        elif mut == "distribution":
            obj.distribution = kit.DistFn(98)
        elif mut == "at":
            obj.at = obj.at
        elif mut == "dist_node":
            obj.dist_node = arg if arg is not None and not isinstance(arg, (dict, bool)) else None
        elif mut == "value_node":
            obj.value_node = arg if arg is not None and not isinstance(arg, (dict, bool)) else 7
        elif mut == "transform":
            obj.transform(None)
        else:
            setattr(obj, mut, arg)
    except Exception as ex:  # noqa
        return ex
    return None


class Run:
    """state of one program run"""

    def __init__(self, prog):
        self.prog = prog
        self.reg = kit.Registry()
        self.objs = kit.construct(prog, self.reg)
        self.results = {}
        self.builders = {}
        self.steps = []
        self.snaps = [self.reg.snapshot()]

    def resolve_roots(self, roots):
        L = kit.lsl()
        if isinstance(roots, dict):
            r = self.results[roots["from"]]
            items = list(r[0].values()) + list(r[1].values())
            if roots.get("drop"):
                items = [x for x in items if x.name not in roots["drop"]]
            items += [self.objs[i] for i in roots.get("extra", [])]
            return items
        return [self.objs[r] for r in roots]

    def target(self, t):
        if isinstance(t, dict):
            r = self.results[t["m"]]
            if isinstance(r, tuple):
                return r[0][t["node"]] if "node" in t else r[1][t["var"]]
            return r.nodes[t["node"]] if "node" in t else r.vars[t["var"]]
        return self.objs[t]

    def model_obs(self, model):
        L = kit.lsl()
        reg = self.reg
        mids = [reg.nid(n) for n in model.nodes.values()]
        vids = [reg.vid(v) for v in model.vars.values()]
        order = kit.sorted_order(model)
        return {"mnodes": mids, "mvars": vids,
                "order": ([n.name for n in order] if order is not None else None),
                "summary": kit.model_summary(model)}

    def behaviour(self, model, snap):
        """state vs from-scratch evaluation, then assign new values to every settable Value node (one at a
        time) and compare again; returns a list of discrepancies"""
        L = kit.lsl()
        reg = self.reg
        bad = []
        ids = [reg.nid(n) for n in model.nodes.values()]

        def compare(tag):
            sn = reg.snapshot()
            want = kit.evaluate(reg, sn, ids)
            iset = set(ids)
            for i in ids:
                for j in sn["nodes"][i]["ins"]:
                    if j in iset and i not in sn["nodes"][j]["outs"]:
                        bad.append(f"{tag}: {sn['nodes'][i]['name']!r} reads {sn['nodes'][j]['name']!r} but is not among its outputs")
                if not sn["nodes"][i]["inmodel"]:
                    bad.append(f"{tag}: node {sn['nodes'][i]['name']!r} no longer refers to its model")
            for i in ids:
                n = reg.nodes[i]
                if isinstance(n, L.TransientNode):
                    continue
                got = sn["nodes"][i]["value"]
                if isinstance(want[i], int) and got != want[i]:
                    bad.append(f"{tag}: node {n.name!r} has value {got}, from-scratch evaluation gives {want[i]}")
                if n.outdated:
                    bad.append(f"{tag}: node {n.name!r} is outdated after an update")
        compare("after build")
        k = 0
        for i in ids:
            n = reg.nodes[i]
            if type(n).__name__ in ("Value", "Data") and isinstance(n.value, int):
                k += 1
                try:
                    n.value = int(n.value) + 10 * k
                except Exception as ex:  # noqa
                    bad.append(f"assigning to {n.name!r} raised {type(ex).__name__}: {str(ex)[:160]}")
                    break
                compare(f"after setting {n.name!r}")
        return bad[:4]

    def run_op(self, k, op):
        L = kit.lsl()
        reg = self.reg
        pre = len(self.snaps) - 1
        rec = {"op": op, "pre": pre}
        kind = op["op"]
        live_before = {mi: kit.model_summary(m) for mi, m in enumerate(reg.models) if m is not None and len(m.nodes)}
        if kind == "build":
            reuse = op.get("reuse")
            if reuse is not None:
                gb, roots = self.builders[reuse]
            else:
                roots = self.resolve_roots(op["roots"])
                gb = None
            # the roots the USER added (for a reused builder: what was added to it originally)
            rec["rn"] = [reg.nid(x) for x in roots if isinstance(x, L.Node)]
            rec["rv"] = [reg.vid(x) for x in roots if isinstance(x, L.Var)]
            pre_vals = {i: n["value"] for i, n in enumerate(self.snaps[pre]["nodes"])}
            kit.LOG.clear()
            try:
                if op.get("via") == "model" and reuse is None:
                    model = L.Model(roots, copy=bool(op.get("copy")), to_float32=False)
                else:
                    if gb is None:
                        gb = L.GraphBuilder(to_float32=False)
                        if op.get("via") == "groups":
                            gb.add_groups(*[self.objs[g] for g in op["groups"]])
                        gb.add(*roots)
                        self.builders[k] = (gb, roots)
                    rec["gb_before"] = [[reg.nid(x) for x in gb.nodes], [reg.vid(x) for x in gb.vars]]
                    try:
                        model = gb.build_model(copy=bool(op.get("copy")))
                    finally:
                        rec["gb_after"] = [[reg.nid(x) for x in gb.nodes], [reg.vid(x) for x in gb.vars]]
                        rec["gb_after_names"] = [x.name for x in gb.nodes]
                rec["ok"] = True
            except Exception as ex:  # noqa
                rec["ok"] = False
                rec["err"] = kit.classify(ex)
                rec["msg"] = str(ex)[:200]
                model = None
            rec["calls"] = list(kit.LOG)
            if model is not None:
                reg.models.append(model)
                self.results[k] = model
                rec["mid"] = len(reg.models) - 1
                rec.update(self.model_obs(model))
        elif kind == "pop":
            model = self.results[op["m"]]
            rec["mnodes"] = [reg.nid(n) for n in model.nodes.values()]
            rec["mvars"] = [reg.vid(v) for v in model.vars.values()]
            rec["summary_before"] = kit.model_summary(model)
            try:
                nodes, vs = model.pop_nodes_and_vars()
                rec["ok"] = True
                rec["keys"] = list(nodes)
                rec["vkeys"] = list(vs)
                rec["model_left"] = [len(model.nodes), len(model.vars)]
                self.results[k] = (nodes, vs)
            except Exception as ex:  # noqa
                rec["ok"] = False
                rec["err"] = kit.classify(ex)
        elif kind in ("copynv", "deepcopy", "saveload"):
            model = self.results[op["m"]]
            before = kit.model_summary(model)
            try:
                if kind == "copynv":
                    nodes, vs = model.copy_nodes_and_vars()
                    self.results[k] = (nodes, vs)
                    rec["keys"] = list(nodes)
                    rec["vkeys"] = list(vs)
                    for x in list(nodes.values()) + list(vs.values()):
                        reg.reg(x)
                    rec["copies_free"] = all(n.model is None for n in nodes.values()) and all(v.model is None for v in vs.values())
                    rec["shared"] = [nm for nm, n in nodes.items() if any(n is o for o in model.nodes.values())]
                else:
                    m2 = kit.deep(model) if kind == "deepcopy" else kit.save_load(model)
                    reg.models.append(m2)
                    self.results[k] = m2
                    rec["mid"] = len(reg.models) - 1
                    for x in list(m2.nodes.values()) + list(m2.vars.values()):
                        reg.reg(x)
                    rec["copy_summary"] = kit.model_summary(m2)
                    rec["shared"] = [nm for nm, n in m2.nodes.items() if any(n is o for o in model.nodes.values())]
                    rec["owned"] = all(n.model is m2 for n in m2.nodes.values())
                    # independence: change a value in the copy, the original must not move (and vice versa)
                    rec["indep"] = self.independence(model, m2)
                rec["ok"] = True
            except Exception as ex:  # noqa
                rec["ok"] = False
                rec["err"] = kit.classify(ex)
                rec["msg"] = str(ex)[:200]
            rec["orig_before"] = before
            rec["orig_after"] = kit.model_summary(model)
        elif kind == "mutate":
            obj = self.target(op["target"])
            isvar = isinstance(obj, L.Var)
            rec["tid"] = reg.vid(obj) if isvar else reg.nid(obj)
            rec["isvar"] = isvar
            arg = op.get("arg")
            rec["arg_frozen"] = False
            if op["mut"] in ("set_inputs", "add_inputs"):
                arg = {"pos": [self.target(r) for r in arg["pos"]], "kw": [(kw, self.target(r)) for kw, r in arg["kw"]]}
                rec["arg_ids"] = {"pos": [reg.reg(x) if not isinstance(x, L.Var) else reg.nid(x.var_value_node) for x in arg["pos"]],
                                  "kw": [[kw, reg.reg(x) if not isinstance(x, L.Var) else reg.nid(x.var_value_node)] for kw, x in arg["kw"]]}
                rec["arg_in_model"] = any(x.model is not None for x in arg["pos"] + [x for _, x in arg["kw"]])
            elif op["mut"] in ("value_node", "dist_node") and isinstance(arg, dict) and "ref" in arg:
                arg = self.target(arg["ref"])
                rec["arg_id"] = reg.nid(arg)
                rec["arg_frozen"] = arg.model is not None
            rec["frozen_target"] = obj.model is not None
            ex = apply_mutator(obj, op["mut"], arg)
            rec["ok"] = ex is None
            if ex is not None:
                rec["err"] = kit.classify(ex)
                rec["exc_type"] = type(ex).__name__
                rec["msg"] = str(ex)[:200]
        elif kind == "drop":
            import gc
            model = self.results.pop(op["m"])
            rec["mnodes"] = [reg.nid(n) for n in model.nodes.values()]
            for mi, mm in enumerate(reg.models):
                if mm is model:
                    reg.models[mi] = None
            self.builders.pop(op["m"], None)
            del model, mm
            if any(reg.nodes[i].model is not None for i in rec["mnodes"]):
                gc.collect()                 # only if reference counting did not free the model already (slow)
            rec["ok"] = True
        elif kind == "gbrename":
            import re as _re
            r = self.results[op["from"]]
            items = list(r[0].values()) + list(r[1].values())
            try:
                L.GraphBuilder(to_float32=False).add(*items).rename("^" + _re.escape(op["name"]) + "$", op["name"] + op.get("suffix", "_g"))
                rec["ok"] = True
            except Exception as ex:  # noqa
                rec["ok"] = False
                rec["err"] = kit.classify(ex)
                rec["msg"] = str(ex)[:200]
        elif kind == "setval":
            model = self.results[op["m"]]
            rec["bad"] = self.behaviour(model, None) if len(model.nodes) else ["model is empty"]
            rec["ok"] = True
        else:
            raise ValueError(kind)
        self.snaps.append(reg.snapshot())
        rec["post"] = len(self.snaps) - 1
        if kind == "build" and rec["ok"]:
            # values of the freshly built model against a from-scratch evaluation
            model = self.results[k]
            sn = self.snaps[-1]
            ids = rec["mnodes"]
            want = kit.evaluate(reg, sn, ids)
            bad = []
            for i in ids:
                n = reg.nodes[i]
                if isinstance(n, L.TransientNode):
                    continue
                if isinstance(want[i], int) and sn["nodes"][i]["value"] != want[i]:
                    bad.append(f"node {n.name!r} has value {sn['nodes'][i]['value']} after the build, from-scratch evaluation gives {want[i]}")
            rec["value_bad"] = bad[:4]
        # live models other than the one operated on must be untouched
        live_after = {mi: kit.model_summary(m) for mi, m in enumerate(reg.models) if m is not None and len(m.nodes)}
        skip = rec.get("mid") if kind in ("build", "deepcopy", "saveload") else (None)
        touched = []
        for mi, s in live_before.items():
            if kind == "pop" and reg.models[mi] is self.results.get(op["m"], None):
                continue
            if kind == "pop" and mi not in live_after:
                continue
            if kind == "setval" and reg.models[mi] is self.results[op["m"]]:
                continue
            if mi in live_after and live_after[mi] != s:
                touched.append(mi)
        rec["live_touched"] = touched
        self.steps.append(rec)
        return rec

    def independence(self, m1, m2):
        L = kit.lsl()
        bad = []
        s1 = kit.model_summary(m1)["state"]
        for name, n in m2.nodes.items():
            if type(n).__name__ in ("Value", "Data") and isinstance(n.value, int):
                old = n.value
                n.value = old + 1000
                if kit.model_summary(m1)["state"] != s1:
                    bad.append(f"assigning to {name!r} in the copy changed the original")
                n.value = old
                break
        if kit.model_summary(m2)["state"] != s1:
            bad.append("state of the copy differs from the state of the original")
        return bad


def run_program(prog):
    run = Run(prog)
    for k, op in enumerate(prog["ops"]):
        run.run_op(k, op)
    return {"prog": prog, "snaps": run.snaps, "steps": run.steps}


# ---------------------------------------------------------------------------------------------
# generator
# ---------------------------------------------------------------------------------------------
CORPUS = [
    # F9: a=Value, b=Calc(a), c=Calc(b); build(c); build(b) is rejected and must leave the live model intact
    {"tag": "corpus.F9", "objs": [{"k": "value", "name": "a", "val": 1}, {"k": "calc", "name": "b", "pos": [0]},
                                  {"k": "calc", "name": "c", "pos": [1]}],
     "ops": [{"op": "build", "roots": [2]}, {"op": "build", "roots": [1]}, {"op": "setval", "m": 0}]},
    # F8: seeded node, pop, rebuild
    {"tag": "corpus.F8", "objs": [{"k": "value", "name": "a", "val": 2}, {"k": "calc", "name": "s", "pos": [0], "seed": True},
                                  {"k": "var", "name": "x", "value": 1, "dist": None}],
     "ops": [{"op": "build", "roots": [2]}, {"op": "pop", "m": 0}, {"op": "build", "roots": {"from": 1}},
             {"op": "copynv", "m": 2}, {"op": "build", "roots": {"from": 3}}, {"op": "setval", "m": 4}]},
    # unnamed nodes, user names colliding with generated ones
    {"tag": "corpus.names", "objs": [{"k": "value", "name": "n0", "val": 1}, {"k": "value", "name": "", "val": 2},
                                     {"k": "calc", "name": "", "pos": [0, 1]}, {"k": "var", "name": "v0", "value": 2, "dist": None},
                                     {"k": "var", "name": "", "value": {"const": 3}, "dist": None},
                                     {"k": "calc", "name": "n2", "pos": [3, 4]}],
     "ops": [{"op": "build", "roots": [5]}, {"op": "setval", "m": 0}]},
    # duplicate names, cycle
    {"tag": "corpus.dup", "objs": [{"k": "value", "name": "a", "val": 1}, {"k": "value", "name": "a", "val": 2},
                                   {"k": "calc", "name": "c", "pos": [0, 1]}],
     "ops": [{"op": "build", "roots": [2]}]},
    {"tag": "corpus.cycle", "objs": [{"k": "value", "name": "a", "val": 1}, {"k": "calc", "name": "b", "pos": [0]},
                                     {"k": "calc", "name": "c", "pos": [1]}],
     "ops": [{"op": "mutate", "target": 1, "mut": "set_inputs", "arg": {"pos": [2], "kw": []}},
             {"op": "build", "roots": [2]}]},
    {"tag": "corpus.dupvar", "objs": [{"k": "var", "name": "x", "value": {"const": 1}, "dist": None},
                                      {"k": "value", "name": "q", "val": 1},
                                      {"k": "var", "name": "x", "value": 1, "dist": None},
                                      {"k": "calc", "name": "c", "pos": [0, 2]}],
     "ops": [{"op": "build", "roots": [3]}]},
    {"tag": "corpus.dupgroup", "objs": [{"k": "value", "name": "a", "val": 1}, {"k": "value", "name": "b", "val": 2},
                                        {"k": "group", "name": "g", "members": [0]}, {"k": "group", "name": "g", "members": [1]},
                                        {"k": "calc", "name": "c", "pos": [0, 1]}],
     "ops": [{"op": "build", "roots": [4]}, {"op": "build", "roots": [0]}, {"op": "setval", "m": 1}]},
    {"tag": "corpus.groups", "objs": [{"k": "value", "name": "a", "val": 1}, {"k": "var", "name": "", "value": {"const": 2}, "dist": None},
                                      {"k": "group", "name": "g", "members": [0, 1]}, {"k": "group", "name": "h", "members": [1]},
                                      {"k": "calc", "name": "", "pos": [0, 1]}],
     "ops": [{"op": "build", "roots": [4], "via": "groups", "groups": [2, 3]}, {"op": "setval", "m": 0}, {"op": "pop", "m": 0},
             {"op": "build", "roots": {"from": 2}}]},
    # unnamed variable whose value node has its own name; user name equal to a derived name
    {"tag": "corpus.varnames", "objs": [{"k": "calc", "name": "own", "pos": []}, {"k": "var", "name": "", "value": 0, "dist": None},
                                        {"k": "value", "name": "v0_value", "val": 3},
                                        {"k": "var", "name": "", "value": {"const": 5}, "dist": None},
                                        {"k": "calc", "name": "", "pos": [1, 2, 3]}],
     "ops": [{"op": "build", "roots": [4]}, {"op": "setval", "m": 0}]},
    # F10: two unnamed variables whose value nodes carry their own names (proxies both "_var_value")
    {"tag": "corpus.F10", "objs": [{"k": "calc", "name": "own_a", "pos": []}, {"k": "calc", "name": "own_b", "pos": []},
                                   {"k": "var", "name": "", "value": 0, "dist": None},
                                   {"k": "var", "name": "", "value": 1, "dist": None}],
     "ops": [{"op": "build", "roots": [2, 3]}, {"op": "setval", "m": 0}, {"op": "pop", "m": 0},
             {"op": "build", "roots": {"from": 2}}, {"op": "copynv", "m": 3}, {"op": "build", "roots": {"from": 4}}]},
    {"tag": "corpus.F10b", "objs": [{"k": "value", "name": "x", "val": 2}, {"k": "calc", "name": "own_a", "pos": [0]},
                                    {"k": "calc", "name": "own_b", "pos": [0], "seed": True},
                                    {"k": "dist", "name": "", "pos": [0]},
                                    {"k": "var", "name": "", "value": 1, "dist": 3, "role": "obs"},
                                    {"k": "var", "name": "", "value": 2, "dist": None},
                                    {"k": "var", "name": "v1", "value": {"const": 1}, "dist": None},
                                    {"k": "calc", "name": "", "pos": [4, 5, 6]}],
     "ops": [{"op": "build", "roots": [7], "via": "model"}, {"op": "deepcopy", "m": 0}, {"op": "setval", "m": 1},
             {"op": "mutate", "target": {"m": 0, "var": "?any"}, "mut": "name", "arg": None}]},
    # seeded C15-1: a node of a live model handed to the value_node / dist_node setter of an outside variable
    {"tag": "corpus.foreign", "objs": [{"k": "value", "name": "a", "val": 1}, {"k": "calc", "name": "b", "pos": [0]},
                                       {"k": "dist", "name": "", "pos": [0]},
                                       {"k": "var", "name": "y", "value": {"const": 2}, "dist": 2, "role": "obs"},
                                       {"k": "calc", "name": "c", "pos": [1, 3]},
                                       {"k": "var", "name": "outsider", "value": {"const": 0}, "dist": None},
                                       {"k": "calc", "name": "outcalc", "pos": []}],
     "ops": [{"op": "build", "roots": [4]},
             {"op": "mutate", "target": 5, "mut": "value_node", "arg": {"ref": {"m": 0, "node": "b"}}},
             {"op": "mutate", "target": 5, "mut": "value_node", "arg": {"ref": {"m": 0, "node": "a"}}},
             {"op": "mutate", "target": 5, "mut": "dist_node", "arg": {"ref": {"m": 0, "node": "y_log_prob"}}},
             {"op": "mutate", "target": 6, "mut": "set_inputs", "arg": {"pos": [{"m": 0, "node": "b"}], "kw": []}},
             {"op": "mutate", "target": 6, "mut": "add_inputs", "arg": {"pos": [], "kw": [["z", {"m": 0, "node": "a"}]]}},
             {"op": "setval", "m": 0}, {"op": "build", "roots": [6]}, {"op": "setval", "m": 0}]},
    # seeded C15-2: build_model(copy=True), then the same builder again (copy=True and copy=False)
    {"tag": "corpus.reuse", "objs": [{"k": "var", "name": "mu", "value": {"const": 1}, "dist": None, "role": "param"},
                                     {"k": "dist", "name": "", "pos": [0]},
                                     {"k": "var", "name": "y", "value": {"const": 4}, "dist": 1, "role": "obs"},
                                     {"k": "calc", "name": "", "pos": [0, 2], "seed": True}],
     "ops": [{"op": "build", "roots": [2, 3], "via": "gb", "copy": True},
             {"op": "build", "roots": [2, 3], "reuse": 0, "copy": True},
             {"op": "build", "roots": [2, 3], "reuse": 0, "copy": False},
             {"op": "setval", "m": 0}, {"op": "setval", "m": 1}, {"op": "setval", "m": 2}]},
    # seeded C15-3: copy=True build from the variables of a LIVE model, then assignments to the live model
    {"tag": "corpus.livecopy", "objs": [{"k": "var", "name": "mu", "value": {"const": 1}, "dist": None, "role": "param"},
                                        {"k": "calc", "name": "", "pos": [0]},
                                        {"k": "var", "name": "sigma", "value": 1, "dist": None},
                                        {"k": "dist", "name": "", "pos": [0, 2]},
                                        {"k": "var", "name": "y", "value": {"const": 4}, "dist": 3, "role": "obs"}],
     "ops": [{"op": "build", "roots": [4]}, {"op": "build", "roots": [4], "via": "gb", "copy": True},
             {"op": "setval", "m": 0}, {"op": "setval", "m": 1}, {"op": "pop", "m": 0}, {"op": "build", "roots": {"from": 4}}]},
    # seeded C15-4: a user root node whose name starts with "_model" but not "_model_" (rejected by build; if it were
    # accepted, pop / copy would drop it)
    {"tag": "corpus.resname", "objs": [{"k": "value", "name": "a", "val": 1}, {"k": "calc", "name": "_modelled_mean", "pos": [0]},
                                       {"k": "calc", "name": "x_seed", "pos": [0]}],
     "ops": [{"op": "build", "roots": [1, 2]}, {"op": "pop", "m": 0}, {"op": "build", "roots": {"from": 1}},
             {"op": "copynv", "m": 2}, {"op": "build", "roots": {"from": 3}}]},
    {"tag": "corpus.resname2", "objs": [{"k": "value", "name": "a", "val": 1}, {"k": "calc", "name": "x_seed", "pos": [0], "seed": True},
                                        {"k": "var", "name": "_mode", "value": 1, "dist": None}],
     "ops": [{"op": "build", "roots": [2]}, {"op": "pop", "m": 0}, {"op": "build", "roots": {"from": 1}}, {"op": "setval", "m": 2}]},
    # seeded C15-6: build, pop, RENAME the seeded node / its variable, rebuild
    {"tag": "corpus.rename", "objs": [{"k": "value", "name": "a", "val": 2}, {"k": "calc", "name": "s", "pos": [0], "seed": True},
                                      {"k": "calc", "name": "", "pos": [0], "seed": True},
                                      {"k": "var", "name": "x", "value": 2, "dist": None},
                                      {"k": "calc", "name": "top", "pos": [1, 3]}],
     "ops": [{"op": "build", "roots": [4]}, {"op": "pop", "m": 0},
             {"op": "mutate", "target": {"m": 1, "node": "s"}, "mut": "name", "arg": "t"},
             {"op": "mutate", "target": {"m": 1, "var": "x"}, "mut": "name", "arg": "z"},
             {"op": "build", "roots": {"from": 1}}, {"op": "setval", "m": 4}, {"op": "copynv", "m": 4},
             {"op": "gbrename", "from": 6, "name": "t", "suffix": "_g"},
             {"op": "build", "roots": {"from": 6}}, {"op": "setval", "m": 8}]},
    # seeded C15-9: an auto-transformed variable, then every kind of second build
    {"tag": "corpus.auto", "objs": [{"k": "value", "name": "rate", "val": 2, "float": True},
                                    {"k": "tdist", "name": "", "rate": 0},
                                    {"k": "var", "name": "scale", "value": {"fconst": 1.5}, "dist": 1, "role": "param", "auto": True},
                                    {"k": "value", "name": "a", "val": 3},
                                    {"k": "calc", "name": "c", "pos": [3, 2]}],
     "ops": [{"op": "build", "roots": [4]}, {"op": "copynv", "m": 0}, {"op": "build", "roots": {"from": 1}},
             {"op": "setval", "m": 2}, {"op": "pop", "m": 0}, {"op": "build", "roots": {"from": 4}},
             {"op": "pop", "m": 5}, {"op": "build", "roots": {"from": 6}}, {"op": "setval", "m": 7}]},
    {"tag": "corpus.auto_copy", "objs": [{"k": "value", "name": "rate", "val": 2, "float": True},
                                         {"k": "tdist", "name": "", "rate": 0},
                                         {"k": "var", "name": "scale", "value": {"fconst": 1.5}, "dist": 1, "role": "param", "auto": True},
                                         {"k": "value", "name": "", "val": 3},
                                         {"k": "calc", "name": "", "pos": [3, 2]}],
     "ops": [{"op": "build", "roots": [4], "via": "gb", "copy": True}, {"op": "build", "roots": [4], "reuse": 0, "copy": True},
             {"op": "build", "roots": [4], "reuse": 0, "copy": False}, {"op": "setval", "m": 2}, {"op": "deepcopy", "m": 2},
             {"op": "saveload", "m": 2}]},
    # seeded C15-7: a model dropped without pop (garbage collected), an edit of the graph, a rebuild
    {"tag": "corpus.dropped", "objs": [{"k": "value", "name": "a", "val": 1}, {"k": "value", "name": "b", "val": 2},
                                       {"k": "calc", "name": "c", "pos": [0, 1]}, {"k": "calc", "name": "d", "pos": [2, 0]},
                                       {"k": "dist", "name": "", "pos": [0]},
                                       {"k": "var", "name": "y", "value": {"const": 2}, "dist": 4, "role": "obs"},
                                       {"k": "calc", "name": "top", "pos": [3, 5]}],
     "ops": [{"op": "build", "roots": [6]}, {"op": "drop", "m": 0},
             {"op": "mutate", "target": 3, "mut": "set_inputs", "arg": {"pos": [1], "kw": []}},
             {"op": "mutate", "target": 5, "mut": "dist_node", "arg": None},
             {"op": "build", "roots": [6]}, {"op": "setval", "m": 4}]},
    # ... and a build rejected for a cycle after the outputs were wired, then repaired differently
    {"tag": "corpus.cycfail", "objs": [{"k": "value", "name": "a", "val": 1}, {"k": "value", "name": "b", "val": 2},
                                       {"k": "calc", "name": "c", "pos": [0]}, {"k": "calc", "name": "d", "pos": [2, 1]},
                                       {"k": "calc", "name": "e", "pos": [3, 0]}],
     "ops": [{"op": "mutate", "target": 2, "mut": "set_inputs", "arg": {"pos": [4], "kw": []}},
             {"op": "build", "roots": [4]},
             {"op": "mutate", "target": 2, "mut": "set_inputs", "arg": {"pos": [1], "kw": []}},
             {"op": "mutate", "target": 4, "mut": "set_inputs", "arg": {"pos": [3], "kw": []}},
             {"op": "build", "roots": [4]}, {"op": "setval", "m": 4}]},
    # seeded C15-8: more than ten generated names (and user names n9, n10, v9), pop / copy, one more unnamed node, rebuild
    {"tag": "corpus.manynames", "objs": [{"k": "value", "name": "", "val": j} for j in range(12)] +
                                        [{"k": "calc", "name": "top", "pos": list(range(12))},
                                         {"k": "value", "name": "", "val": 7}],
     "ops": [{"op": "build", "roots": [12]}, {"op": "pop", "m": 0}, {"op": "build", "roots": {"from": 1, "extra": [13]}},
             {"op": "setval", "m": 2}, {"op": "copynv", "m": 2}, {"op": "build", "roots": {"from": 4}}]},
    {"tag": "corpus.manynames2", "objs": [{"k": "value", "name": "n9", "val": 1}, {"k": "value", "name": "n10", "val": 2},
                                         {"k": "value", "name": "", "val": 3},
                                         {"k": "var", "name": "v9", "value": {"const": 1}, "dist": None},
                                         {"k": "var", "name": "v10", "value": {"const": 1}, "dist": None},
                                         {"k": "var", "name": "", "value": {"const": 1}, "dist": None},
                                         {"k": "calc", "name": "top", "pos": [0, 1, 2, 3, 4, 5]}],
     "ops": [{"op": "build", "roots": [6]}, {"op": "setval", "m": 0}]},
    # a full statistical model with dists, roles, groups; every round trip
    {"tag": "corpus.full", "objs": [{"k": "var", "name": "mu", "value": {"const": 1}, "dist": None, "role": "param"},
                                    {"k": "dist", "name": "", "pos": [0]},
                                    {"k": "var", "name": "y", "value": {"const": 4}, "dist": 1, "role": "obs"},
                                    {"k": "dist", "name": "", "pos": [], "kw": [["loc", 0]], "seed": True},
                                    {"k": "var", "name": "z", "value": {"const": 0}, "dist": 3, "role": "param"},
                                    {"k": "group", "name": "g", "members": [0, 2]}],
     "ops": [{"op": "build", "roots": [2, 4]}, {"op": "deepcopy", "m": 0}, {"op": "saveload", "m": 0},
             {"op": "setval", "m": 1}, {"op": "setval", "m": 2}, {"op": "pop", "m": 0},
             {"op": "build", "roots": {"from": 5}, "copy": True}, {"op": "build", "roots": {"from": 5}},
             {"op": "setval", "m": 7}]},
]


def gen_objs(rnd, n, style):
    """objects refer only to earlier objects; names: user / empty / colliding with generated ones"""
    objs = []
    nodeish = []     # indices usable as inputs (nodes and vars)
    free_dists = []
    used_names = set()

    def name(kind):
        r = rnd.random()
        if style == "unnamed" and r < 0.7 or r < 0.25:
            return ""
        if r < 0.45:
            nm = rnd.choice(["n0", "n1", "n2", "v0", "v1", "v0_value", "n3", "v1_var_value"])
        else:
            nm = kind[0] + rnd.choice("abcdefgh") + str(rnd.randint(0, 3))
        if nm in used_names and not (style == "dup" and rnd.random() < 0.5):
            return ""
        used_names.add(nm)
        return nm

    def pick(k):
        if not nodeish:
            return []
        return [rnd.choice(nodeish) for _ in range(k)]

    for i in range(n):
        r = rnd.random()
        if r < 0.22 or not nodeish:
            objs.append({"k": "value", "name": name("value"), "val": rnd.randint(-3, 5)})
            nodeish.append(i)
        elif r < 0.55:
            kw = [[rnd.choice(["a", "b", "seed"] if rnd.random() < 0.15 else ["a", "b"]), x] for x in pick(rnd.choice([0, 0, 1, 2]))]
            kw = list({k: [k, v] for k, v in kw}.values())
            objs.append({"k": "calc", "name": name("calc"), "pos": pick(rnd.choice([1, 1, 2, 3])), "kw": kw,
                         "seed": rnd.random() < (0.5 if style == "seeded" else 0.12)})
            nodeish.append(i)
        elif r < 0.70:
            objs.append({"k": "dist", "name": name("dist"), "pos": pick(rnd.choice([0, 1, 2])),
                         "kw": [["loc", x] for x in pick(rnd.choice([0, 1]))],
                         "seed": rnd.random() < (0.4 if style == "seeded" else 0.1)})
            free_dists.append(i)
        else:
            d = free_dists.pop() if free_dists and rnd.random() < 0.7 else None
            cands = [j for j in nodeish if objs[j]["k"] == "calc" and not objs[j].get("_taken")]
            if cands and rnd.random() < 0.5:
                v = rnd.choice(cands)
                objs[v]["_taken"] = True
            else:
                v = {"const": rnd.randint(-2, 6)}
            vname = name("var")
            if isinstance(v, int) and objs[v]["name"] and rnd.random() < 0.6:
                vname = ""       # stratum: unnamed variable whose value node has its own name (F10)
            objs.append({"k": "var", "name": vname, "value": v, "dist": d,
                         "role": rnd.choice(["param", "obs", "", ""])})
            nodeish.append(i)
    # unattached dists would make the build fail for a reason outside the property: attach them
    for d in free_dists:
        objs.append({"k": "var", "name": name("var"), "value": {"const": rnd.randint(0, 4)}, "dist": d,
                     "role": rnd.choice(["param", "obs"])})
        nodeish.append(len(objs) - 1)
    # a calc used as the value node of a var cannot be the value node of another var, nor an input by itself
    for o in objs:
        o.pop("_taken", None)
    if rnd.random() < (0.8 if style == "groups" else 0.15):
        members = rnd.sample(nodeish, min(len(nodeish), rnd.randint(1, 3)))
        objs.append({"k": "group", "name": "g", "members": members})
        if style == "groups" and rnd.random() < 0.5:
            others = [j for j in nodeish if j not in members]
            if others:
                objs.append({"k": "group", "name": rnd.choice(["g", "h"]), "members": [rnd.choice(others)]})
    return objs, nodeish


RES_NAMES = ["_modelled_mean", "_models", "_model", "_modelx_seed", "_modelled_seed", "_model_u", "_model_x_seed",
             "x_seed", "my_seed", "_seed", "model_x", "_Model_x", "_mode", "a_model_b"]


def gen_many(rnd):
    """>= 11 objects that get generated names, some user names of the same shape"""
    objs, nodeish = [], []
    nv = rnd.choice([0, 0, 11, 12])
    nn = rnd.choice([11, 12, 13]) if nv == 0 else rnd.choice([2, 11])
    user = rnd.sample(["n9", "n10", "n11", "v9", "v10", "n1"], rnd.randint(0, 3))
    for j in range(nn):
        objs.append({"k": "value", "name": "", "val": rnd.randint(0, 3)})
        nodeish.append(len(objs) - 1)
    for j in range(nv):
        objs.append({"k": "var", "name": "", "value": {"const": rnd.randint(0, 3)}, "dist": None, "role": ""})
        nodeish.append(len(objs) - 1)
    for nm in user:
        if nm.startswith("v"):
            objs.append({"k": "var", "name": nm, "value": {"const": 1}, "dist": None, "role": ""})
        else:
            objs.append({"k": "value", "name": nm, "val": 1})
        nodeish.append(len(objs) - 1)
    objs.append({"k": "calc", "name": rnd.choice(["top", ""]), "pos": list(nodeish)})
    nodeish.append(len(objs) - 1)
    return objs, nodeish


def gen_prog(rnd, style, size):
    if style == "manynames":
        objs, nodeish = gen_many(rnd)
    else:
        objs, nodeish = gen_objs(rnd, size, "seeded" if style == "rename" else style)
    ops = []
    inputs_of = set()
    for o in objs:
        for r in o.get("pos", []) + [x for _, x in o.get("kw", [])] + (o.get("members", []) if o["k"] != "group" else []):
            inputs_of.add(r)
        if o["k"] == "var":
            if isinstance(o["value"], int):
                inputs_of.add(o["value"])
            if o.get("dist") is not None:
                inputs_of.add(o["dist"])
    sinks = [j for j in nodeish if j not in inputs_of] or nodeish[-1:]
    roots = sinks if rnd.random() < 0.7 else rnd.sample(nodeish, min(len(nodeish), rnd.randint(1, 3)))
    if style == "cycle":
        calcs = [j for j in nodeish if objs[j]["k"] == "calc" and objs[j]["pos"]]
        if calcs:
            a = rnd.choice(calcs)
            later = [j for j in calcs if j > a] or [a]
            b = rnd.choice(later)
            how = rnd.choice(["set_inputs", "add_inputs"])
            ops.append({"op": "mutate", "target": a, "mut": how, "arg": {"pos": [b], "kw": []}})
            if b not in roots:
                roots = roots + [b]
    if style == "premut" and nodeish:
        for _ in range(rnd.randint(1, 3)):
            t = rnd.choice(nodeish)
            if objs[t]["k"] == "var":
                ops.append({"op": "mutate", "target": t, "mut": "name", "arg": rnd.choice(["", "vq", "v0", "n1"])})
            else:
                m = rnd.choice(["name", "needs_seed", "add_inputs"])
                arg = {"name": rnd.choice(["", "nq", "n0", "v0_value"]), "needs_seed": rnd.random() < 0.5,
                       "add_inputs": {"pos": [], "kw": [[rnd.choice(["a", "c", "seed"]), rnd.choice([j for j in nodeish if j < t] or [t])]]}}[m]
                if objs[t]["k"] == "value" and m == "add_inputs":
                    continue
                if m == "add_inputs" and arg["kw"][0][1] == t:
                    continue
                ops.append({"op": "mutate", "target": t, "mut": m, "arg": arg})
    if style == "resnames" and nodeish:
        # one object (root or not, node or variable) gets a name around the reserved prefix / the seed suffix
        t = rnd.choice(roots) if rnd.random() < 0.6 else rnd.choice(nodeish)
        objs[t]["name"] = rnd.choice(RES_NAMES)
        if rnd.random() < 0.3:
            objs[t]["seed"] = objs[t]["k"] == "calc"
    via = rnd.choice(["gb", "gb", "gb", "model"])
    b0 = len(ops)
    ops.append({"op": "build", "roots": roots, "via": via, "copy": style == "copy" and rnd.random() < 0.6})
    # continuation: assumes the first build succeeded; operations on missing results are skipped by the runner
    script = rnd.choice(["roundtrip", "mutators", "second", "copies", "mixed", "foreign", "livecopy", "reuse"]) \
        if style not in ("cycle", "dup") else rnd.choice(["second", "mutators"])
    if style == "auto":
        # one or two auto-transformed variables (real tfd distribution with a default bijector) wired into the graph
        k0 = len(objs)
        objs.append({"k": "value", "name": rnd.choice(["rate", ""]), "val": rnd.choice([1, 2, 3]), "float": True})
        objs.append({"k": "tdist", "name": "", "rate": k0, "family": rnd.choice(["Exponential", "HalfNormal"])})
        objs.append({"k": "var", "name": rnd.choice(["scale", "sc", "tau"]), "value": {"fconst": rnd.choice([0.5, 1.5, 2.0])},
                     "dist": k0 + 1, "role": rnd.choice(["param", "param", ""]), "auto": True})
        objs.append({"k": "calc", "name": rnd.choice(["", "usescale"]), "pos": [k0 + 2] + [r for r in roots[:1] if objs[r]["k"] != "group"]})
        roots = roots + [k0 + 3]
        ops[b0]["roots"] = roots
        ops[b0]["copy"] = False
        script = rnd.choice(["roundtrip", "copies", "mixed", "reuse", "livecopy_auto"])
        if script == "livecopy_auto":
            ops.append({"op": "build", "roots": roots, "via": "gb", "copy": True})
            ops.append({"op": "setval", "m": b0})
            ops.append({"op": "pop", "m": b0})
            ops.append({"op": "build", "roots": {"from": b0 + 3}})
            return {"objs": objs, "ops": ops, "tag": f"{style}.{script}"}
    if style == "dropped":
        # a model that disappears without pop, or a build rejected for a cycle after wiring; then an edit and a rebuild
        calcs = [j for j in nodeish if objs[j]["k"] == "calc" and len(objs[j]["pos"]) >= 1]
        vals = [j for j in nodeish if objs[j]["k"] == "value"]
        if rnd.random() < 0.6 or not calcs:
            ops.append({"op": "drop", "m": b0})
        else:
            a = rnd.choice(calcs)
            later = [j for j in calcs if j > a]
            if later:
                ops.append({"op": "drop", "m": b0})
                ops.append({"op": "mutate", "target": a, "mut": "set_inputs", "arg": {"pos": [rnd.choice(later)], "kw": []}})
                ops.append({"op": "build", "roots": roots + later})
            else:
                ops.append({"op": "drop", "m": b0})
        for _ in range(rnd.randint(1, 2)):
            if calcs and vals:
                t = rnd.choice(calcs)
                ops.append({"op": "mutate", "target": t, "mut": "set_inputs",
                            "arg": {"pos": [rnd.choice([v for v in vals if v < t] or vals)], "kw": []}})
        dvars = [j for j in nodeish if objs[j]["k"] == "var" and objs[j].get("dist") is not None]
        if dvars and rnd.random() < 0.5:
            ops.append({"op": "mutate", "target": rnd.choice(dvars), "mut": "dist_node", "arg": None})
        k = len(ops)
        ops.append({"op": "build", "roots": roots})
        ops.append({"op": "setval", "m": k})
        ops.append({"op": "pop", "m": k})
        ops.append({"op": "build", "roots": {"from": k + 2}})
        return {"objs": objs, "ops": ops, "tag": f"{style}.dropped"}
    if style == "manynames":
        h = b0 + 1
        spare = len(objs)
        objs.append({"k": "value", "name": "", "val": 9})
        objs.append({"k": "var", "name": "", "value": {"const": 4}, "dist": None})
        ops.append({"op": rnd.choice(["pop", "copynv"]), "m": b0})
        ops.append({"op": "build", "roots": {"from": h, "extra": rnd.choice([[spare], [spare + 1], [spare, spare + 1]])},
                    "via": rnd.choice(["gb", "model"])})
        ops.append({"op": "setval", "m": h + 1})
        ops.append({"op": "pop", "m": h + 1})
        ops.append({"op": "build", "roots": {"from": h + 3}})
        return {"objs": objs, "ops": ops, "tag": f"{style}.manynames"}
    if style in ("foreign", "livecopy", "reuse"):
        script = style
    if style == "resnames":
        script = rnd.choice(["roundtrip", "copies", "mixed"])
    if style == "rename":
        # build, pop / copy, rename (node.name, var.name, GraphBuilder.rename), rebuild
        h = b0 + 1
        ops.append({"op": rnd.choice(["pop", "pop", "copynv"]), "m": b0})
        for j in range(rnd.randint(1, 3)):
            r = rnd.random()
            if r < 0.45:
                ops.append({"op": "mutate", "target": {"m": h, "node": "?seeded" if rnd.random() < 0.7 else "?any"},
                            "mut": "name", "arg": f"rn{j}"})
            elif r < 0.75:
                ops.append({"op": "mutate", "target": {"m": h, "var": "?any"}, "mut": "name", "arg": f"rv{j}"})
            else:
                ops.append({"op": "gbrename", "from": h, "name": rnd.choice(["?seeded", "?any"]), "suffix": f"_g{j}"})
        k = len(ops)
        ops.append({"op": "build", "roots": {"from": h}, "via": rnd.choice(["gb", "model"])})
        ops.append({"op": "setval", "m": k})
        ops.append({"op": "pop", "m": k})
        ops.append({"op": "build", "roots": {"from": k + 2}})
        return {"objs": objs, "ops": ops, "tag": f"{style}.{script}"}
    if script == "foreign":
        o1 = len(objs)
        objs.append({"k": "var", "name": "outsider", "value": {"const": 0}, "dist": None})
        objs.append({"k": "calc", "name": "outcalc", "pos": []})
        o2 = o1 + 1
        ops.append({"op": "mutate", "target": o1, "mut": "value_node", "arg": {"ref": {"m": b0, "node": "?novar"}}})
        ops.append({"op": "mutate", "target": o1, "mut": "dist_node", "arg": {"ref": {"m": b0, "node": "?dist"}}})
        ops.append({"op": "mutate", "target": o1, "mut": "value_node", "arg": {"ref": {"m": b0, "node": "?any"}}})
        ops.append({"op": "mutate", "target": o2, "mut": rnd.choice(["set_inputs", "add_inputs"]),
                    "arg": {"pos": [{"m": b0, "node": "?any"}], "kw": []}})
        ops.append({"op": "mutate", "target": o2, "mut": "add_inputs", "arg": {"pos": [], "kw": [["z", {"m": b0, "node": "?any"}]]}})
        ops.append({"op": "setval", "m": b0})
        ops.append({"op": "build", "roots": [o2]})
        ops.append({"op": "setval", "m": b0})
        return {"objs": objs, "ops": ops, "tag": f"{style}.{script}"}
    if script == "livecopy":
        if rnd.random() < 0.8:
            for o in objs:
                if o.get("seed"):
                    o["seed"] = False
        ops[b0]["copy"] = False
        ops.append({"op": "build", "roots": roots, "via": rnd.choice(["gb", "gb", "gb", "model"]), "copy": True})
        ops.append({"op": "setval", "m": b0})
        ops.append({"op": "setval", "m": b0 + 1})
        ops.append({"op": "mutate", "target": {"m": b0, "node": "?any"}, "mut": "?any", "arg": None})
        ops.append({"op": "pop", "m": b0})
        ops.append({"op": "build", "roots": {"from": b0 + 5}})
        return {"objs": objs, "ops": ops, "tag": f"{style}.{script}"}
    if script == "reuse":
        ops[b0]["copy"] = True
        ops[b0]["via"] = "gb"
        k = rnd.choice([0, 1, 1])
        for _ in range(k):
            ops.append({"op": "build", "roots": roots, "reuse": b0, "copy": True})
        ops.append({"op": "build", "roots": roots, "reuse": b0, "copy": False})     # empties the builder: last use
        for j in range(k + 2):
            ops.append({"op": "setval", "m": b0 + j})
        return {"objs": objs, "ops": ops, "tag": f"{style}.{script}"}
    if style == "copy" and ops[-1]["copy"]:
        ops.append({"op": "build", "roots": roots, "via": "gb"})            # the originals stay usable
        ops.append({"op": "setval", "m": b0})
        ops.append({"op": "setval", "m": b0 + 1})
        return {"objs": objs, "ops": ops, "tag": f"{style}.copy"}
    if script in ("roundtrip", "mixed"):
        ops.append({"op": "pop", "m": b0})
        ops.append({"op": "build", "roots": {"from": b0 + 1}, "via": rnd.choice(["gb", "model"])})
        ops.append({"op": "setval", "m": b0 + 2})
        if script == "mixed":
            ops.append({"op": "copynv", "m": b0 + 2})
            ops.append({"op": "build", "roots": {"from": b0 + 4}})
            ops.append({"op": "mutate", "target": {"m": b0 + 2, "node": "?any"}, "mut": rnd.choice(["name", "needs_seed", "set_inputs"]),
                        "arg": None})
            ops.append({"op": "pop", "m": b0 + 5})
            ops.append({"op": "build", "roots": {"from": b0 + 7}})
    elif script == "mutators":
        for _ in range(rnd.randint(3, 7)):
            ops.append({"op": "mutate", "target": {"m": b0, "node": "?any"} if rnd.random() < 0.6 else {"m": b0, "var": "?any"},
                        "mut": "?any", "arg": None})
        ops.append({"op": "setval", "m": b0})
    elif script == "second":
        sub = rnd.sample(nodeish, min(len(nodeish), rnd.randint(1, 2)))
        ops.append({"op": "build", "roots": sub, "via": rnd.choice(["gb", "model"])})
        ops.append({"op": "setval", "m": b0})
        ops.append({"op": "pop", "m": b0})
        ops.append({"op": "build", "roots": sub})
    elif script == "copies":
        ops.append({"op": rnd.choice(["deepcopy", "saveload"]), "m": b0})
        ops.append({"op": "copynv", "m": b0})
        ops.append({"op": "build", "roots": {"from": b0 + 2}, "via": rnd.choice(["gb", "model"])})
        ops.append({"op": "setval", "m": b0 + 1})
        ops.append({"op": "setval", "m": b0 + 3})
        ops.append({"op": "setval", "m": b0})
    return {"objs": objs, "ops": ops, "tag": f"{style}.{script}"}


STYLES = ["plain", "unnamed", "seeded", "dup", "cycle", "groups", "copy", "premut", "foreign", "livecopy", "reuse", "resnames", "rename", "auto", "dropped", "manynames"]
MIN_PER_STYLE = {"quick": 12, "thorough": 120}
STYLE_COUNT = {"auto": {"quick": 12, "thorough": 100}, "manynames": {"quick": 10, "thorough": 100}}


def concretise(run, op, rnd):
    """fill the '?any' placeholders (targets inside a built model, mutator names) from the live objects"""
    L = kit.lsl()
    op = json.loads(json.dumps(op))
    if op["op"] == "mutate":
        for r in _arg_refs(op):
            if isinstance(r, dict) and str(r.get("node", "")).startswith("?"):
                res = run.results.get(r["m"])
                if res is None or isinstance(res, tuple) or not len(res.nodes):
                    return None
                want = r["node"]
                names = sorted(res.nodes)
                if want == "?novar":
                    c = [n for n in names if res.nodes[n].var is None and not n.startswith("_model")] or \
                        [n for n in names if not n.startswith("_model")]
                elif want == "?dist":
                    c = [n for n in names if isinstance(res.nodes[n], L.Dist)]
                else:
                    c = [n for n in names if not n.startswith("_model")]
                if not c:
                    return None
                r["node"] = rnd.choice(c)
    if op["op"] == "gbrename":
        r = run.results.get(op["from"])
        if not isinstance(r, tuple) or not r[0]:
            return None
        if op.get("name") in (None, "?seeded", "?any"):
            c = [n for n in sorted(r[0]) if r[0][n].needs_seed] if op.get("name") == "?seeded" else []
            cur = rnd.choice(c or sorted(r[0]))
            op["name"] = r[0][cur].name          # the current name of that node (it may have been renamed)
        return op
    if op["op"] == "mutate" and isinstance(op["target"], dict):
        r = run.results.get(op["target"]["m"])
        if r is None:
            return None
        names = (list(r.nodes) if not isinstance(r, tuple) else list(r[0])) if "node" in op["target"] else \
                (list(r.vars) if not isinstance(r, tuple) else list(r[1]))
        if not names:
            return None
        key = "node" if "node" in op["target"] else "var"
        if op["target"][key] == "?any":
            op["target"][key] = rnd.choice(sorted(names))
        elif op["target"][key] == "?seeded":
            pool = r[0] if isinstance(r, tuple) else r.nodes
            c = [n for n in sorted(names) if pool[n].needs_seed] or sorted(names)
            op["target"][key] = rnd.choice(c)
        obj = run.target(op["target"])
        if op["mut"] == "?any" or op.get("arg") is None:
            if isinstance(obj, L.Var):
                muts = ["name", "observed", "parameter", "dist_node", "value_node"]
                if obj.dist_node is not None and obj.strong:
                    muts.append("transform")
            else:
                muts = ["name", "needs_seed", "set_inputs", "add_inputs"]
                if isinstance(obj, L.Calc):
                    muts.append("function")
                if isinstance(obj, L.Dist):
                    muts += ["distribution", "per_obs", "at"]
            if op["mut"] == "?any" or op["mut"] not in muts:
                op["mut"] = rnd.choice(muts)
            m = op["mut"]
            if m in ("set_inputs", "add_inputs"):
                vals = [j for j, o in enumerate(run.prog["objs"]) if o["k"] == "value"]
                op["arg"] = {"pos": vals[:1], "kw": []}
            elif m == "name":
                op["arg"] = "renamed"
            elif m in ("needs_seed", "observed", "parameter"):
                op["arg"] = not getattr(obj, m)
            elif m == "per_obs":
                op["arg"] = False
            else:
                op["arg"] = None
    return op


def _arg_refs(op):
    a = op.get("arg")
    if not isinstance(a, dict):
        return []
    if "ref" in a:
        return [a["ref"]]
    return list(a.get("pos", [])) + [r for _, r in a.get("kw", [])]


def run_case(prog, rnd):
    """run with '?any' placeholders resolved on the fly; ops whose handles do not exist are dropped"""
    run = Run(prog)
    ops_done = []
    for k, op in enumerate(prog["ops"]):
        need = []
        if "m" in op:
            need.append(op["m"])
        if isinstance(op.get("roots"), dict):
            need.append(op["roots"]["from"])
        if isinstance(op.get("target"), dict):
            need.append(op["target"]["m"])
        if op["op"] == "gbrename":
            need.append(op["from"])
        for r in _arg_refs(op):
            if isinstance(r, dict):
                need.append(r["m"])
        if op.get("reuse") is not None and op["reuse"] not in run.builders:
            ops_done.append(None)
            continue
        if any(h not in run.results for h in need):
            ops_done.append(None)
            continue
        if op["op"] in ("pop", "setval", "copynv", "deepcopy", "saveload") and isinstance(run.results[op["m"]], tuple):
            ops_done.append(None)
            continue
        if op["op"] in ("pop", "setval", "copynv", "deepcopy", "saveload") and not len(run.results[op["m"]].nodes):
            ops_done.append(None)
            continue
        op2 = concretise(run, op, rnd)
        if op2 is None:
            ops_done.append(None)
            continue
        run.run_op(k, op2)
        ops_done.append(op2)
    prog2 = dict(prog)
    prog2["ops"] = [o if o is not None else {"op": "skip"} for o in ops_done]
    return {"prog": prog2, "snaps": run.snaps, "steps": run.steps, "tag": prog.get("tag", "")}


def replay_program(prog):
    """re-run a concretised program (no placeholders; 'skip' ops are ignored)"""
    run = Run(prog)
    done = []
    for k, op in enumerate(prog["ops"]):
        need = [op[x] for x in ("m", "from") if x in op]
        if isinstance(op.get("roots"), dict):
            need.append(op["roots"]["from"])
        if isinstance(op.get("target"), dict):
            need.append(op["target"]["m"])
        need += [r["m"] for r in _arg_refs(op) if isinstance(r, dict)]
        if (op["op"] == "skip" or any(h not in run.results for h in need)
                or (op.get("reuse") is not None and op["reuse"] not in run.builders)
                or (op["op"] in ("pop", "setval", "copynv", "deepcopy", "saveload")
                    and (isinstance(run.results[op["m"]], tuple) or not len(run.results[op["m"]].nodes)))):
            done.append({"op": "skip"})
            continue
        try:
            run.run_op(k, op)
            done.append(op)
        except KeyError:          # a name that does not exist on this tree
            done.append({"op": "skip"})
    prog = dict(prog, ops=done)
    return {"prog": prog, "snaps": run.snaps, "steps": run.steps, "tag": prog.get("tag", "")}


def generate(ctx):
    rnd = random.Random(ctx.seed)
    progs = [dict(p) for p in CORPUS]
    cdir = os.path.join(common.VERIF, "harness", "corpus")
    if os.path.isdir(cdir):
        for f in sorted(os.listdir(cdir)):
            if f.startswith("C15") and f.endswith(".json"):
                progs.append(json.load(open(os.path.join(cdir, f))))
    for style in STYLES:
        # the auto-transform programs run real tfp bijectors (~1-2 s per build), the many-names programs are large
        per = STYLE_COUNT.get(style, MIN_PER_STYLE)[ctx.tier]
        for j in range(per):
            size = rnd.choice([3, 4, 5, 6, 8] if ctx.quick else [3, 4, 6, 8, 10, 12])
            progs.append(gen_prog(rnd, style, size))
    cases = []
    for p in progs:
        c = run_case(p, rnd)
        if any(s["op"]["op"] == "build" and sim_cycle_only(c["snaps"][s["pre"]], s["rn"], s["rv"]) for s in c["steps"]):
            ctx.hist("dropped.simulation_graph_cycle_only")
            continue
        cases.append(c)
    mut = reflect_mutators()
    ctx.cov["mutators_by_reflection"] = {side: {k: v["guarded"] for k, v in d.items()} for side, d in mut.items()}
    unguarded = sorted(f"{side}.{k}" for side, d in mut.items() for k, v in d.items()
                       if not v["guarded"] and k not in ALLOWED_IN_MODEL)
    ctx.cov["unguarded_setters_not_in_allow_list"] = unguarded
    seen = set()
    for c in cases:
        ctx.hist("style=" + c["tag"].split(".")[0])
        for st in c["steps"]:
            if st["op"]["op"] == "build":
                pre = c["snaps"][st["pre"]]
                cl, clv = closure_of(pre, st["rn"], st["rv"])
                k = sum(1 for v in clv if _default_proxy(pre, pre["vars"][v]["varvalue"]) and pre["nodes"][pre["vars"][v]["value"]]["name"])
                if k:
                    ctx.hist("build.unnamed_vars_with_named_value_node" + (">=2" if k >= 2 else "=1"))
        for s in c["steps"]:
            k = s["op"]["op"]
            if k == "build":
                ctx.hist("build." + ("ok" if s["ok"] else "rejected:" + s["err"].split(":")[0]))
                if s["ok"] and s["op"].get("copy"):
                    ctx.hist("build.copy=True")
                if isinstance(s["op"]["roots"], dict):
                    ctx.hist("build.rebuild_from_popped_or_copied")
                if s["op"].get("reuse") is not None:
                    ctx.hist("build.same_builder_again")
                if s["op"].get("copy") and any(c["snaps"][s["pre"]]["nodes"][i]["inmodel"] for i in s["rn"] + [c["snaps"][s["pre"]]["vars"][v]["value"] for v in s["rv"]]):
                    ctx.hist("build.copy=True_from_live_model." + ("ok" if s["ok"] else "rejected"))
                if s["ok"] and any(n["name"].endswith("_seed") and n["name"].startswith("_model_") for n in c["snaps"][s["post"]]["nodes"]):
                    ctx.hist("build.with_seed_nodes")
            elif k == "mutate":
                ctx.hist("mutate." + ("frozen" if s["frozen_target"] else "free") + "." + ("rejected" if not s["ok"] else "applied"))
                ctx.hist("mutator=" + s["op"]["mut"])
                if s.get("arg_frozen"):
                    ctx.hist("mutate.argument_in_live_model." + s["op"]["mut"] + "." + ("rejected" if not s["ok"] else "accepted"))
                if s.get("arg_in_model"):
                    ctx.hist("mutate.inputs_from_live_model." + s["op"]["mut"])
            else:
                ctx.hist(k)
            if k == "build":
                pre_ = c["snaps"][s["pre"]]
                if any(v.get("auto") for v in pre_["vars"]):
                    ctx.hist("build.with_auto_transform_pending." + ("ok" if s["ok"] else "rejected"))
                elif any(v["name"].endswith("_transformed") for v in pre_["vars"]):
                    ctx.hist("build.again_after_auto_transform." + ("ok" if s["ok"] else "rejected"))
                if s["ok"] and sum(1 for i in s["mnodes"] if re.fullmatch(r"n\d\d+", c["snaps"][s["post"]]["nodes"][i]["name"])):
                    ctx.hist("build.generated_names_beyond_n9")
            if k == "build" and isinstance(s["op"]["roots"], dict) and any(
                    t["op"]["op"] == "gbrename" or (t["op"]["op"] == "mutate" and t["op"]["mut"] == "name" and isinstance(t["op"]["target"], dict)
                                                    and t["op"]["target"]["m"] == s["op"]["roots"]["from"] and t["ok"])
                    for t in c["steps"][:c["steps"].index(s)]):
                ctx.hist("build.rebuild_after_rename." + ("ok" if s["ok"] else "rejected"))
        seen.add(json.dumps(c["prog"], sort_keys=True))
    nsteps = sum(len(c["steps"]) for c in cases)
    ctx.count(nsteps, len(seen))
    ctx.c15_info = f"C15: {len(cases)} programs, {nsteps} operations run on the implementation"
    ctx.cov["rule"] = ("evaluations = operations run on the real code and re-evaluated by the Coq model (build / pop / mutate) "
                       "or judged by the oracle (copies, save/load, value assignment); distinct = distinct concretised programs "
                       "(object constructors + operation list); trivial programs (fewer than 3 objects) are not generated")
    for c in cases[:2]:
        ctx.sample({"tag": c["tag"], "objs": c["prog"]["objs"], "ops": c["prog"]["ops"]})
    ctx.tested_not_proved += [
        "deepcopy / copy=True / copy_nodes_and_vars / save_model+load_model (dill) reproduce names, edges, state and behaviour and share no node with the original: compared on every generated model, not proved (Python runtime)",
        "values of every built / rebuilt / copied model equal a from-scratch evaluation of the observed graph, also after assigning each Value node (update order is topological in effect)",
        "objects outside the closure of a build and live models other than the one operated on are unchanged (deep snapshot before/after)",
        "the simulation graph (Model._build_simulation_graph) is not modelled: the generator attaches every Dist to a fresh variable and creates cycles only among Calc nodes, so it is acyclic whenever the node graph is",
    ]
    ctx.assume += [
        "networkx.topological_sort is an oracle: the order it returned is checked by is_topo inside the model (C15_topological), a rejection for a cycle is checked against a cycle witness (C15_cycle_has_no_order)",
        "no user-defined log-prob nodes in the generated graphs (C02 covers that path); auto_transform is modelled structurally (graph surgery and flags), the bijector mathematics is C14's; Var.strong is read off the snapshot as 'value node without inputs'",
        "the code variant pinned by the correspondence is strip=true (005a821), check_first=true (5ebbe54) and proxy_fix=true (66a7abc)",
    ]
    return cases


# ---------------------------------------------------------------------------------------------
# emission
# ---------------------------------------------------------------------------------------------
def olit(x, f=lambda v: natlit(v)):
    return "None" if x is None else f"(Some {f(x)})"


def world_lit(sn):
    ns = []
    for n in sn["nodes"]:
        kw = lst(f"({strlit(k)}, {natlit(i)})" for k, i in n["kw"])
        ns.append(f"mkN {strlit(n['name'])} {lst(natlit(i) for i in n['pos'])} {kw} {olit(n['at'])} {olit(n['var'])} "
                  f"{blit(n['seed'])} {blit(n['isdist'])} {blit(n['inmodel'])} {lst(natlit(i) for i in n['outs'])} {lst(natlit(g) for g in n['groups'])}")
    vs = []
    for v in sn["vars"]:
        vs.append(f"mkV {strlit(v['name'])} {natlit(v['value'])} {natlit(v['varvalue'])} {olit(v['dist'])} {blit(v['obs'])} {blit(v['par'])} "
                  f"{lst(natlit(g) for g in v['groups'])} {blit(v.get('auto', False))}")
    return "(mkW " + lst(ns) + "\n    " + lst(vs) + " " + lst(strlit(g) for g in sn["gnames"]) + ")"


def find_cycle(sn, roots_n, roots_v):
    """a cycle among the nodes reachable from the roots: [a0..ak], a_i input of a_(i+1), a_k input of a_0"""
    nodes, vs = sn["nodes"], sn["vars"]
    color = {}
    stack = []

    def succ(i):
        out = list(nodes[i]["ins"])
        return out

    def reach():
        seen, work = set(), list(roots_n) + [x for v in roots_v for x in (vs[v]["value"], vs[v]["varvalue"], vs[v]["dist"]) if x is not None]
        while work:
            i = work.pop()
            if i in seen:
                continue
            seen.add(i)
            work += nodes[i]["ins"]
            if nodes[i]["var"] is not None:
                v = vs[nodes[i]["var"]]
                work += [x for x in (v["value"], v["varvalue"], v["dist"]) if x is not None]
        return seen

    def dfs(i):
        color[i] = 1
        stack.append(i)
        for j in succ(i):
            if color.get(j, 0) == 1:
                return stack[stack.index(j):]
            if color.get(j, 0) == 0:
                r = dfs(j)
                if r:
                    return r
        stack.pop()
        color[i] = 2
        return None

    for i in sorted(reach()):
        if color.get(i, 0) == 0:
            r = dfs(i)
            if r:
                # r = [j, ..., i] where each element has the NEXT one as input; reverse: a_i input of a_(i+1)
                return list(reversed(r))
    return []


def sim_cycle_only(sn, rn, rv):
    """True if the node graph below the roots is acyclic but a (conservative superset of the) simulation graph
    - Dist -> at edges reversed, Dist -> value node of its variable added - has a cycle.  Such programs are
    outside the generated class (the simulation graph is not modelled) and are dropped before judging."""
    if find_cycle(sn, rn, rv):
        return False
    nodes, vs = sn["nodes"], sn["vars"]
    cl, _ = closure_of(sn, rn, rv)
    succ = {i: set() for i in cl}
    for i in cl:
        n = nodes[i]
        for j in n["ins"]:
            if j not in cl:
                continue
            if n["isdist"] and n["at"] == j:
                succ[i].add(j)
            else:
                succ[j].add(i)
        if n["isdist"] and n["at"] is not None and nodes[n["at"]]["kind"] == "VarValue" and nodes[n["at"]]["pos"]:
            vn = nodes[n["at"]]["pos"][0]
            if vn in cl:
                succ[i].add(vn)
    color = {}

    def dfs(i):
        color[i] = 1
        for j in succ[i]:
            if color.get(j, 0) == 1 or (color.get(j, 0) == 0 and dfs(j)):
                return True
        color[i] = 2
        return False
    return any(color.get(i, 0) == 0 and dfs(i) for i in sorted(cl))


def step_lit(c, s, wname):
    op = s["op"]
    k = op["op"]
    pre, post = wname(s["pre"]), wname(s["post"])
    if k == "build":
        rn, rv = lst(natlit(i) for i in s["rn"]), lst(natlit(i) for i in s["rv"])
        if s["ok"]:
            order = "None" if s["order"] is None else "(Some " + lst(strlit(x) for x in s["order"]) + ")"
            o = f"(OBuilt {post} {lst(natlit(i) for i in s['mnodes'])} {lst(natlit(i) for i in s['mvars'])} {order})"
        else:
            wit = find_cycle(c["snaps"][s["post"]], s["rn"], s["rv"]) if s["err"] == "cycle" else []
            nold = len(c["snaps"][s["pre"]]["nodes"])
            wit = wit if all(i < nold for i in wit) else []
            o = f"(ORejected {post} {lst(natlit(i) for i in wit)})"
        grow = op.get("via") == "model" and op.get("reuse") is None
        return f"SBuild {blit(bool(op.get('copy')))} {blit(grow)} {pre} {rn} {rv} {o}"
    if k == "pop" and s["ok"]:
        return (f"SPop {pre} {lst(natlit(i) for i in s['mnodes'])} {lst(natlit(i) for i in s['mvars'])} {post} "
                f"{lst(strlit(x) for x in s['keys'])} {lst(strlit(x) for x in s['vkeys'])}")
    if k == "drop":
        return f"SDrop {pre} {lst(natlit(i) for i in s['mnodes'])} {post}"
    if k == "mutate":
        t = f"(TVar {natlit(s['tid'])})" if s["isvar"] else f"(TNode {natlit(s['tid'])})"
        m = op["mut"]
        if m == "name":
            mu = f"(MSetName {strlit(op['arg'])})"
        elif m in ("set_inputs", "add_inputs"):
            a = s["arg_ids"]
            mu = f"({'MSetInputs' if m == 'set_inputs' else 'MAddInputs'} {lst(natlit(i) for i in a['pos'])} " + \
                 lst(f"({strlit(kw)}, {natlit(i)})" for kw, i in a["kw"]) + ")"
        elif m == "needs_seed" and not s["isvar"]:
            mu = f"(MNeedsSeed {blit(op['arg'])})"
        elif m == "value_node" and "arg_id" in s:
            mu = f"(MValueNode {natlit(s['arg_id'])})"
        elif m == "dist_node" and "arg_id" in s:
            mu = f"(MDistNode {natlit(s['arg_id'])})"
        else:
            mu = "MOther"
        return f"SMutate {pre} {t} {mu} {blit(not s['ok'])} {post}"
    return None


def case_text(c, ci):
    used = set()
    steps = []

    def wname(k):
        used.add(k)
        return f"w{ci}_{k}"
    for s in c["steps"]:
        t = step_lit(c, s, wname)
        if t:
            steps.append(t)
    defs = "".join(f"Definition w{ci}_{k} : world :=\n  {world_lit(c['snaps'][k])}.\n" for k in sorted(used))
    return defs + f"Definition case{ci} : list step :=\n  " + lst("\n   " + x for x in steps) + ".\n", len(steps)


def emit(ctx, cases):
    shards = []
    per = 25
    for k in range(0, len(cases), per):
        idxs = list(range(k, min(k + per, len(cases))))
        txt = HEADER
        for i in idxs:
            t, n = case_text(cases[i], i)
            txt += t
        txt += "Definition cases : list (list step) := " + lst(f"case{i}" for i in idxs) + ".\n"
        txt += "Lemma shard_ok : forallb agrees cases = true.\nProof. vm_compute. reflexivity. Qed.\n"
        shards.append((ctx.new_shard(txt), idxs))
    return shards


def diagnose(ctx, path, idxs, cases):
    txt = open(path).read().split("Lemma shard_ok")[0]
    txt += "Eval vm_compute in (failing agrees cases).\n"
    ok, out = ctx.coq_eval(txt)
    bad = [idxs[j] for j in common.parse_nat_list(out) if j < len(idxs)]
    for i in bad[:1]:
        common.log("disagreeing case", i, json.dumps(cases[i]["prog"])[:600])
    return bad


# ---------------------------------------------------------------------------------------------
# direct oracle: the property read on the observations
# ---------------------------------------------------------------------------------------------
def closure_of(sn, rn, rv):
    nodes, vs = sn["nodes"], sn["vars"]
    seen, seenv = set(), set(rv)
    work = list(rn) + [x for v in rv for x in (vs[v]["value"], vs[v]["varvalue"], vs[v]["dist"]) if x is not None]
    while work:
        i = work.pop()
        if i in seen:
            continue
        seen.add(i)
        work += nodes[i]["ins"]
        if nodes[i]["var"] is not None:
            seenv.add(nodes[i]["var"])
            v = vs[nodes[i]["var"]]
            work += [x for x in (v["value"], v["varvalue"], v["dist"]) if x is not None]
    return seen, seenv


def strip_model_part(summ):
    """the part of a model summary that a round trip must reproduce (all nodes and edges, state)"""
    return {"nodes": summ["nodes"], "vars": summ["vars"], "edges": summ["edges"], "state": summ["state"]}


MODEL_LOG_NAMES = ("_model_log_lik", "_model_log_prior", "_model_log_prob")


def _build_created_name(nm):
    """names of the nodes build_model itself adds to a model"""
    return nm in MODEL_LOG_NAMES or (nm.startswith("_model_") and nm.endswith("_seed"))


def oracle(c):
    snaps = c["snaps"]
    built = {}
    renamed = set()
    for s in c["steps"]:
        op = s["op"]
        k = op["op"]
        pre, post = snaps[s["pre"]], snaps[s["post"]]
        where = f"op {c['steps'].index(s)} ({k})"
        if s.get("live_touched") and k not in ("mutate", "build"):
            return f"{where}: live model(s) {s['live_touched']} changed although the operation did not concern them"
        if k == "build":
            cl, clv = closure_of(pre, s["rn"], s["rv"])
            nold = len(pre["nodes"])
            if "gb_before" in s and "gb_after" in s:
                if op.get("reuse") is not None and s["gb_before"] != [s["rn"], s["rv"]]:
                    extra = [post["nodes"][i]["name"] for i in s["gb_before"][0] if i not in s["rn"]]
                    return (f"{where}: the graph builder no longer holds what the user added (an earlier build_model(copy=True) "
                            f"changed it): extra nodes {extra}")
                if op.get("copy") and s["gb_after"] != s["gb_before"]:
                    extra = [nm for i, nm in zip(s["gb_after"][0], s["gb_after_names"]) if i not in s["gb_before"][0]]
                    return f"{where}: build_model(copy=True) changed the contents of the graph builder: extra nodes {extra}"
                if s["ok"] and not op.get("copy") and s["gb_after"] != [[], []]:
                    return f"{where}: build_model() left nodes in the graph builder"
            if op.get("reuse") is not None and not s["ok"]:
                first = built.get(("opidx", op["reuse"]))
                if first is not None:
                    return (f"{where}: a second build from the same graph builder (after build_model(copy=True)) was rejected: "
                            f"{s['err']}: {s.get('msg')}")
            if s["ok"]:
                mn = s["mnodes"]
                names = [post["nodes"][i]["name"] for i in mn]
                if len(set(names)) != len(names) or any(not x for x in names):
                    return f"{where}: node names are not unique and non-empty: {sorted(names)}"
                vn = [post["vars"][v]["name"] for v in s["mvars"]]
                if len(set(vn)) != len(vn) or any(not x for x in vn):
                    return f"{where}: variable names are not unique and non-empty: {sorted(vn)}"
                if len(set(mn)) != len(mn):
                    return f"{where}: a node occurs twice in the model"
                has_auto = any(pre["vars"][v].get("auto") for v in clv)
                if has_auto:
                    # the transform replaces the value node and the distribution of the flagged variables:
                    # completeness is judged on the graph as it is after the build
                    cl_post, _ = closure_of(post, s["rn"], s["rv"])
                    cl_chk = {i for i in cl_post if i < len(pre["nodes"]) or True}
                else:
                    cl_chk = cl
                if any(post["vars"][v].get("auto") for v in s["mvars"]):
                    return f"{where}: a variable of the built model still carries auto_transform=True"
                if not op.get("copy"):
                    missing = [i for i in cl_chk if i not in mn and not _stale_seed(pre if i < nold else post, i)]
                    if missing:
                        return f"{where}: recursive inputs missing from the model: {[pre['nodes'][i]['name'] or i for i in missing]}"
                    extra = [i for i in mn if i < nold and i not in cl]
                    if extra:
                        return f"{where}: nodes outside the closure of the added nodes are in the model: {extra}"
                    if any(not post["nodes"][i]["inmodel"] for i in mn):
                        return f"{where}: a model node does not refer to the model"
                else:
                    if not has_auto and len(mn) != len([i for i in cl if not _stale_seed(pre, i)]) + 3 + sum(1 for i in cl if pre["nodes"][i]["seed"] and not _stale_seed(pre, i) and not _user_seed(pre, i)):
                        return f"{where}: copy=True model has {len(mn)} nodes, closure has {len(cl)} (+3 model nodes + seeds)"
                    if any(post["nodes"][i]["inmodel"] != pre["nodes"][i]["inmodel"] or post["nodes"][i]["mid"] != pre["nodes"][i]["mid"] for i in cl):
                        return f"{where}: copy=True changed the model membership of an original node"
                    for i in cl:
                        if pre["nodes"][i]["inmodel"] and post["nodes"][i] != pre["nodes"][i]:
                            return (f"{where}: build_model(copy=True) changed node {pre['nodes'][i]['name']!r} of a live model: "
                                    f"{_ndiff(pre['nodes'][i], post['nodes'][i])}")
                    if any(i < nold for i in mn):
                        return f"{where}: copy=True model shares a node with the originals"
                # closed under inputs, outputs = inverse of inputs
                mset = set(mn)
                for i in mn:
                    n = post["nodes"][i]
                    want_ins = list(dict.fromkeys(n["pos"] + [j for _, j in n["kw"]] + ([n["at"]] if n["at"] is not None else [])))
                    if n["ins"] != want_ins:
                        return f"{where}: all_input_nodes() of {n['name']!r} is not inputs + kwinputs (+ at)"
                for i in mn:
                    for j in post["nodes"][i]["ins"]:
                        if j not in mset:
                            return f"{where}: input {post['nodes'][j]['name']!r} of model node {post['nodes'][i]['name']!r} is not in the model"
                        if i not in post["nodes"][j]["outs"]:
                            return f"{where}: {post['nodes'][i]['name']!r} reads {post['nodes'][j]['name']!r} but is not among its outputs"
                    for j in post["nodes"][i]["outs"]:
                        if j not in mset or i not in post["nodes"][j]["ins"]:
                            return f"{where}: {post['nodes'][j]['name']!r} is an output of {post['nodes'][i]['name']!r} without reading it"
                summ = s["summary"]
                want_edges = sorted((post["nodes"][j]["name"], post["nodes"][i]["name"]) for i in mn for j in post["nodes"][i]["ins"])
                if [tuple(e) for e in summ["edges"]] != want_edges:
                    return f"{where}: node_graph edges differ from the inputs of the model nodes"
                if s["order"] is not None:
                    pos = {nm: p for p, nm in enumerate(s["order"])}
                    if sorted(pos) != sorted(names):
                        return f"{where}: the update order does not contain every model node exactly once"
                    for i in mn:
                        for j in post["nodes"][i]["ins"]:
                            if pos[post["nodes"][j]["name"]] >= pos[post["nodes"][i]["name"]]:
                                return f"{where}: update order places {post['nodes'][i]['name']!r} before its input {post['nodes'][j]['name']!r}"
                if s.get("value_bad"):
                    return f"{where}: {s['value_bad'][0]}"
                # rebuilt from popped / copied nodes: must reproduce the model it came from
                if (isinstance(op["roots"], dict) and not op["roots"].get("drop") and not op["roots"].get("extra")
                        and op["roots"]["from"] not in renamed):
                    src = built.get(("src", op["roots"]["from"]))
                    if src is not None:
                        a, b = strip_model_part(src), strip_model_part(summ)
                        if _canon(a) != _canon(b):
                            return f"{where}: the model rebuilt from the popped / copied nodes differs from the original: {_diff(a, b)}"
                if op.get("reuse") is not None:
                    first = built.get(("opidx", op["reuse"]))
                    if first is not None:
                        a, b = strip_model_part(first), strip_model_part(summ)
                        if _canon(a) != _canon(b):
                            return f"{where}: the second build from the same graph builder differs from the first: {_diff(a, b)}"
                built[c["steps"].index(s)] = summ
                built[("opidx", _opindex(c, s))] = summ
            else:
                # rejection must have a reason the property names
                names = [post["nodes"][i]["name"] for i in cl if not _stale_seed(pre, i)
                         and not (_default_proxy(pre, i) and post["nodes"][i]["name"] == "_var_value")]
                prenames = [pre["nodes"][i]["name"] for i in cl if pre["nodes"][i]["name"] and not _stale_seed(pre, i)
                            and not _default_proxy(pre, i)]
                vnames = [pre["vars"][v]["name"] for v in clv if pre["vars"][v]["name"]]
                dup = len(set(prenames)) != len(prenames) or len(set(vnames)) != len(vnames)
                gn = [pre["gnames"][g] for g in {g for i in cl for g in pre["nodes"][i]["groups"]} | {g for v in clv for g in pre["vars"][v]["groups"]}]
                dupg = len(set(gn)) != len(gn)
                cyc = bool(find_cycle(pre, s["rn"], s["rv"]))
                inm = any(pre["nodes"][i]["inmodel"] for i in cl)
                res = any(pre["nodes"][i]["name"].startswith("_model") for i in cl if not _stale_seed(pre, i))
                # a user-given name may collide with a name DERIVED from a variable name (x_value, x_var_value, x_log_prob);
                # a generated name (n<k>, v<k>) must never collide with anything: the generator has to skip taken names
                derived_dup = any(names.count(d) > 1 and not re.fullmatch(r"n\d+", d) for d in set(names))
                if not (dup or dupg or cyc or inm or res or derived_dup):
                    return (f"{where}: a graph with unique names, no cycle, no reserved names and no node of another model "
                            f"was rejected: {s['err']}: {s.get('msg')}")
                # frozen part untouched
                for i, n in enumerate(pre["nodes"]):
                    if n["inmodel"] and post["nodes"][i] != n:
                        return f"{where}: the rejected build changed node {n['name']!r} of a live model: {_ndiff(n, post['nodes'][i])}"
            if s.get("live_touched"):
                return f"{where}: live model(s) {s['live_touched']} changed by a build that did not concern them"
        elif k == "pop":
            if not s["ok"]:
                return f"{where}: pop_nodes_and_vars raised {s['err']}"
            built[("src", _opindex(c, s))] = s["summary_before"]
            if any(post["nodes"][i]["inmodel"] for i in s["mnodes"]):
                return f"{where}: a popped node still refers to the model"
            lost = sorted(pre["nodes"][i]["name"] for i in s["mnodes"]
                          if pre["nodes"][i]["name"] not in s["keys"] and not _build_created_name(pre["nodes"][i]["name"]))
            if lost:
                return f"{where}: pop_nodes_and_vars dropped nodes that build_model did not create: {lost}"
            want = sorted(pre["nodes"][i]["name"] for i in s["mnodes"] if not _build_created_name(pre["nodes"][i]["name"]))
            if sorted(s["keys"]) != want:
                return f"{where}: popped node names {sorted(s['keys'])} != model nodes without the model's own nodes: {want}"
            if sorted(s["vkeys"]) != sorted(s["summary_before"]["vars"]):
                return f"{where}: popped variable names differ from the model's variables"
            if s["model_left"] != [0, 0]:
                return f"{where}: the popped model still has nodes"
        elif k in ("copynv", "deepcopy", "saveload"):
            if not s["ok"]:
                return f"{where}: {k} raised {s['err']}: {s.get('msg')}"
            if s["orig_before"] != s["orig_after"]:
                return f"{where}: {k} changed the original model"
            if s["shared"]:
                return f"{where}: the copy shares nodes with the original: {s['shared'][:3]}"
            if k == "copynv":
                built[("src", _opindex(c, s))] = s["orig_before"]
                if not s["copies_free"]:
                    return f"{where}: copied nodes still refer to a model"
                want = sorted(nm for nm in s["orig_before"]["nodes"] if not _build_created_name(nm))
                if sorted(s["keys"]) != want:
                    lost = [nm for nm in want if nm not in s["keys"]]
                    return f"{where}: copy_nodes_and_vars: copied node names differ from the model's (missing {lost})"
            else:
                a, b = strip_model_part(s["orig_before"]), strip_model_part(s["copy_summary"])
                if _canon(a) != _canon(b):
                    return f"{where}: the copy differs from the original: {_diff(a, b)}"
                if not s["owned"]:
                    return f"{where}: nodes of the copy do not refer to the copy as their model"
                if s["indep"]:
                    return f"{where}: {s['indep'][0]}"
        elif k == "gbrename":
            renamed.add(op["from"])
            if not s["ok"]:
                return f"{where}: GraphBuilder.rename on popped / copied objects raised {s['err']}: {s.get('msg')}"
        elif k == "mutate":
            if op["mut"] == "name" and s["ok"] and isinstance(op["target"], dict):
                renamed.add(op["target"]["m"])
            if s["frozen_target"]:
                if s["ok"]:
                    return f"{where}: structural mutation {op['mut']!r} of an object that belongs to a model was accepted"
                if pre != post:
                    return f"{where}: rejected mutation {op['mut']!r} changed the objects: {_wdiff(pre, post)}"
            elif not s["ok"] and s.get("err") == "inmodel" and op["mut"] in ("name", "needs_seed", "set_inputs", "add_inputs"):
                # e.g. renaming a free var whose value node ... cannot happen for free objects
                return f"{where}: mutation {op['mut']!r} of a free object was rejected as frozen: {s.get('msg')}"
            if s.get("arg_frozen"):
                if s["ok"]:
                    return (f"{where}: {op['mut']} setter accepted a node that belongs to a model as its argument: the frozen node "
                            f"{pre['nodes'][s['arg_id']]['name']!r} became part of another variable")
                if pre != post:
                    return f"{where}: rejected {op['mut']} assignment changed the objects: {_wdiff(pre, post)}"
            for i, n in enumerate(pre["nodes"]):
                if n["inmodel"] and post["nodes"][i] != n:
                    return (f"{where}: mutation {op['mut']!r} of another object changed node {n['name']!r} that belongs to a model: "
                            f"{_ndiff(n, post['nodes'][i])}")
            for v, pv in enumerate(pre["vars"]):
                if pv["inmodel"] and post["vars"][v] != pv:
                    return f"{where}: mutation {op['mut']!r} of another object changed variable {pv['name']!r} that belongs to a model"
            if s.get("live_touched"):
                return f"{where}: live model(s) {s['live_touched']} changed by a mutation of another object"
        elif k == "setval":
            if s.get("bad"):
                return f"{where}: {s['bad'][0]}"
    return None


def _opindex(c, s):
    """index of the step's op in the program's op list (handles refer to program positions)"""
    j = -1
    cnt = -1
    for j, op in enumerate(c["prog"]["ops"]):
        if op.get("op") != "skip":
            cnt += 1
            if cnt == c["steps"].index(s):
                return j
    return j


def _default_proxy(sn, i):
    """the VarValue proxy of a still unnamed variable, carrying the name Var.__init__ gave it ("_var_value"):
    not a user-supplied name - naming the variable must rename it"""
    n = sn["nodes"][i]
    return (n["kind"] == "VarValue" and n["var"] is not None and sn["vars"][n["var"]]["name"] == ""
            and n["name"] == "_var_value" and sn["vars"][n["var"]]["varvalue"] == i)


def _user_seed(sn, i):
    """the node has its own "seed" keyword input (not one left by an earlier build): build_model keeps it and the
    fresh _model_*_seed node is not connected"""
    return any(k == "seed" and not _stale_seed(sn, j) for k, j in sn["nodes"][i]["kw"])


def _stale_seed(sn, i):
    """a seed node left behind by an earlier build: free Value node with a _model_*_seed name that a free node
    reads through its "seed" keyword input (the next build removes that input)"""
    n = sn["nodes"][i]
    if not (n["name"].startswith("_model_") and n["name"].endswith("_seed") and not n["inmodel"] and n["kind"] in ("Value", "Data")):
        return False
    return any(not m["inmodel"] and any(k == "seed" and j == i for k, j in m["kw"]) for m in sn["nodes"])


def _canon(a):
    """the summands of the _model_log_* nodes are compared as a set (their order is the traversal order)"""
    a = json.loads(json.dumps(a))
    for nm, n in a["nodes"].items():
        if nm.startswith("_model_log"):
            n["pos"] = sorted(n["pos"])
    return json.dumps(a, sort_keys=True)


def _diff(a, b):
    for sec in ("nodes", "vars", "state"):
        ka, kb = set(a[sec] or {}), set(b[sec] or {})
        if ka != kb:
            return f"{sec}: only in original {sorted(ka - kb)[:4]}, only in copy {sorted(kb - ka)[:4]}"
        for k in sorted(ka):
            if sec == "nodes" and k.startswith("_model_log") and sorted(a[sec][k]["pos"]) == sorted(b[sec][k]["pos"]):
                continue
            if a[sec][k] != b[sec][k]:
                return f"{sec}[{k!r}]: {a[sec][k]} != {b[sec][k]}"
    if a["edges"] != b["edges"]:
        return "edges differ"
    return "?"


def _ndiff(a, b):
    return {k: (a[k], b[k]) for k in a if a[k] != b[k]}


def _wdiff(a, b):
    for i, (x, y) in enumerate(zip(a["nodes"], b["nodes"])):
        if x != y:
            return f"node {x['name']!r}: {_ndiff(x, y)}"
    for i, (x, y) in enumerate(zip(a["vars"], b["vars"])):
        if x != y:
            return f"var {x['name']!r}: {_ndiff(x, y)}"
    return "new objects appeared"


def klass(c):
    return None


def slim(c, why=None):
    out = {"prog": c["prog"], "tag": c.get("tag", "")}
    if why:
        out["why"] = why
    return out


def search(ctx, disagreeing):
    """the disagreeing cases re-judged by the oracle, then a wider random search with the oracle only"""
    out = []
    for c in disagreeing:
        r = oracle(c)
        if r:
            out.append(slim(c, r))
    if out:
        return out
    rnd = random.Random(ctx.seed + 1)
    for j in range(400 if ctx.quick else 3000):
        p = gen_prog(rnd, rnd.choice(STYLES), rnd.choice([3, 4, 5, 6, 8, 10]))
        try:
            c = run_case(p, rnd)
        except Exception as ex:  # noqa
            continue
        r = oracle(c)
        if r:
            return [slim(c, r)]
    return []


def replay(rp) -> int:
    c = rp["replay"].get("case", rp["replay"])
    if "prog" not in c:
        print("replay file names no concrete input (broken lemma only):", rp["replay"].get("broken"))
        for d in rp["replay"].get("disagreeing_cases", [])[:1]:
            print("first disagreeing case:", json.dumps(d.get("prog"))[:2000])
        return 0
    res = replay_program(c["prog"])
    r = oracle(res)
    print(json.dumps(c["prog"])[:3000])
    if r:
        print("REPLAY FAILS:", r)
        return 1
    print("replay passes on the current tree")
    return 0


def run(ctx):
    """run_standard, with the verdict lines guaranteed to start on a fresh line: the shard diagnostics go to
    stderr through a filter process, and callers that merge the two streams would otherwise see the
    VIOLATION line glued to the middle of a diagnostic line"""
    import sys
    import time
    orig = ctx.finish

    def finish(*a, **k):
        sys.stderr.flush()
        time.sleep(0.5)                      # let the stderr filter drain what was written so far
        print("\n" + getattr(ctx, "c15_info", "C15"), flush=True)
        return orig(*a, **k)
    ctx.finish = finish
    return common.run_standard(ctx, sys.modules[__name__])
