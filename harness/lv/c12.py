"""C12 - mass-matrix adaptation is aligned with the parameters it scales.

Drives the real NUTSKernel.tune / HMCKernel.tune (diag and dense), tune_inv_mm_diag / tune_inv_mm_full
and, end to end, the real Engine with two kernels over several slow-adaptation epochs (x64, so that the
float64 results can be compared with the exact rational model at 1e-6 relative).  Which entry of the
inverse mass matrix scales which parameter is *observed*, not assumed: the coordinate labels come from
the real ravel_pytree of kernel.position(...) and from blackjax's own metric (gradient of the kinetic energy w.r.t. the
momenta).  Coq re-evaluates the model Goose/MM.v (variant Sorted) on the same keys / histories and the
Qed-closed shard lemmas certify (a) model = code and (b) the property read directly on the observed
coordinate labels.  The Python oracle reads the property literally with exact fractions.
"""
from __future__ import annotations

import glob
import json
import math
import os
import random
import sys
from fractions import Fraction

from . import common, c12_tie
from .common import blit, lst, natlit, qlit, strlit

HEADER = """From Coq Require Import String List QArith Bool.
Import ListNotations.
From LV Require Import Base.ListAux Goose.MM Goose.CorrC12.
Open Scope string_scope.
Open Scope Q_scope.
"""

REG = Fraction(1, 1000)
SHARD = 60

NAMES = ["alpha", "zeta", "beta", "log_sigma", "b", "B", "a", "A", "a1", "a10", "a2", "a_", "ab", "Z",
         "_x", "x_1", "x10", "x9", "tau2", "mu", "Beta", "β", "µ", "sigma", "Sigma", "z0"]
SHAPES = [(), (), (1,), (2,), (3,), (2, 2), (2, 3), (1, 2), (2, 1, 2), (4,)]
ETYPES = {"fast": 1, "slow": 2, "burnin": 3, "posterior": 4}

_L: dict = {}


# ----------------------------------------------------------------------------------------------
# the implementation side
# ----------------------------------------------------------------------------------------------
def lib():
    if _L:
        return _L
    import logging
    import jax
    jax.config.update("jax_enable_x64", True)
    import jax.numpy as jnp
    import numpy as np
    import liesel.goose as gs
    from jax.flatten_util import ravel_pytree
    from liesel.goose.epoch import EpochConfig, EpochType
    from liesel.goose.hmc import HMCKernelState
    from liesel.goose.nuts import NUTSKernelState
    from liesel.goose import mm as mmmod
    import blackjax.mcmc.metrics as bjm

    logging.getLogger("liesel").setLevel(logging.ERROR)
    _L.update(jax=jax, jnp=jnp, np=np, gs=gs, ravel_pytree=ravel_pytree, EpochConfig=EpochConfig,
              EpochType=EpochType, HMCKernelState=HMCKernelState, NUTSKernelState=NUTSKernelState,
              mm=mmmod, bjm=bjm, coord_cache={})
    return _L


def dtype_ctx(f32):
    """float32 (liesel's default dtype): x64 switched off for the duration of the call; else the process-wide x64 mode"""
    import contextlib
    from jax.experimental import disable_x64
    return disable_x64() if f32 else contextlib.nullcontext()


def size(shape) -> int:
    return int(math.prod(shape)) if len(shape) else 1


def fr(x) -> Fraction:
    return x if isinstance(x, Fraction) else Fraction(str(x)) if isinstance(x, str) else Fraction(x)


def finite_fracs(a):
    """numpy array -> nested list of exact Fractions, or None when something is not finite"""
    np = lib()["np"]
    a = np.asarray(a, dtype=np.float64)
    if not np.all(np.isfinite(a)):
        return None
    if a.ndim == 0:
        return Fraction(float(a))
    return [finite_fracs(r) for r in a] if a.ndim > 1 else [Fraction(float(v)) for v in a]


def observe_coords(keys, via_kernel=True):
    """labels (name, C-order index) of the flat coordinates of the position with the given listed keys:
    (a) real ravel_pytree of kernel.position(state);  (b) which entry of the inverse mass vector blackjax
    multiplies with which momentum component (gradient of its kinetic energy)."""
    L = lib()
    jnp, np = L["jnp"], L["np"]
    ck = (tuple((k, tuple(s)) for k, s in keys), via_kernel)
    if ck in L["coord_cache"]:
        return L["coord_cache"][ck]
    names = [k for k, _ in keys]
    lab = {k: (1000.0 * i + jnp.arange(size(s), dtype=jnp.float64)).reshape(tuple(s)) for i, (k, s) in enumerate(keys)}
    if via_kernel:
        kern = L["gs"].NUTSKernel(names)
        kern.set_model(L["gs"].DictInterface(lambda st: 0.0))
        pos = kern.position(lab)
    else:
        pos = dict(lab)
    flat, _ = L["ravel_pytree"](pos)
    flat = [int(v) for v in np.asarray(flat)]
    coords = [[names[v // 1000], v % 1000] for v in flat]
    # blackjax's own use of the vector: velocity = d kinetic_energy / d momentum = inverse_mass[i] * momentum[i];
    # with momentum = 1 everywhere the velocity pytree tells, per (name, index), which entry i scales it
    n = len(flat)
    metric = L["bjm"].default_metric(jnp.arange(1, n + 1, dtype=jnp.float64))
    ones = {kk: jnp.ones_like(pos[kk]) for kk in pos}
    vel = L["jax"].grad(lambda m: metric.kinetic_energy(m))(ones)
    bj = []
    for (k, s) in keys:
        v = np.asarray(vel[k]).reshape(-1)
        for j in range(size(s)):
            bj.append((int(round(float(v[j]))) - 1, [k, j]))
    bj_coords = [c for _, c in sorted(bj)]
    out = (coords, bj_coords == coords)
    L["coord_cache"][ck] = out
    return out


def hist_arrays(hist, f32=False):
    L = lib()
    np, jnp = L["np"], L["jnp"]
    dt = np.float32 if f32 else np.float64
    out = {}
    for name, shape, rows in hist:
        a = np.array([[float(x) for x in r] for r in rows], dtype=np.float64).reshape((len(rows), size(shape)))
        assert not f32 or np.array_equal(a.astype(np.float32).astype(np.float64), a), "history not exact in float32"
        out[name] = jnp.asarray(a.astype(dt).reshape((len(rows),) + tuple(shape)))
    return out


def call_code(c, keys=None, hist=None):
    """run the real code on a direct case; returns dict(valid, err, new, step)"""
    with dtype_ctx(c.get("f32", False)):
        return _call_code(c, keys, hist)


def _call_code(c, keys, hist):
    L = lib()
    jnp, np, gs = L["jnp"], L["np"], L["gs"]
    keys = c["keys"] if keys is None else keys
    hist = c["hist"] if hist is None else hist
    names = [k for k, _ in keys]
    n = sum(size(s) for _, s in keys)
    f32 = c.get("f32", False)
    fdt = jnp.float32 if f32 else jnp.float64
    H = hist_arrays(hist, f32)
    T = len(hist[0][2]) if hist else 0
    res = {"valid": False, "err": None, "new": None, "step": None}
    try:
        if c["level"] == "fn":
            f = L["mm"].tune_inv_mm_diag if c["diag"] else L["mm"].tune_inv_mm_full
            new = f({k: H[k] for k in names})
            step = 1.0
        else:
            K = gs.NUTSKernel if c["level"] == "nuts" else gs.HMCKernel
            S = L["NUTSKernelState"] if c["level"] == "nuts" else L["HMCKernelState"]
            kern = K(list(names), mm_diag=c["diag"])
            kern.set_model(gs.DictInterface(lambda st: 0.0))
            st = S(fdt(float(c["old_step"])), jnp.asarray(np.array([[float(v) for v in r] for r in c["old_imm"]] if not c["diag"] else [float(v) for v in c["old_imm"]], dtype=np.float64), dtype=fdt))
            ms = {k: jnp.zeros(tuple(s), dtype=fdt) for k, s in keys}
            for name, shape, _ in hist:
                ms.setdefault(name, jnp.zeros(tuple(shape), dtype=fdt))
            ep = L["EpochConfig"](L["EpochType"](ETYPES[c["etype"]]), max(T, 1), 1, None).to_state(1, 0)
            out = kern.tune(L["jax"].random.PRNGKey(0), st, ms, ep, H if c["hashist"] else None)
            new = out.kernel_state.inverse_mass_matrix
            step = out.kernel_state.step_size
    except (KeyError, TypeError, ValueError) as ex:
        # KeyError: an own key is missing in the history; TypeError: lax.cond refuses branches of different shapes
        # (jnp.cov of a single recorded row yields a 1x1 matrix).  The model says "no matrix" (None) for these.
        res["err"] = type(ex).__name__
        return res
    if f32 and (str(new.dtype) != "float32"):
        res["err"] = f"dtype {new.dtype} in float32 mode"
        return res
    new = np.asarray(new)
    want = (n,) if c["diag"] else (n, n)
    f_new, f_step = finite_fracs(new), finite_fracs(np.asarray(step))
    if new.shape != want or f_new is None or f_step is None:
        res["err"] = f"shape {new.shape} (expected {want})" if new.shape != want else "not finite"
        return res
    res.update(valid=True, new=f_new, step=f_step)
    return res


# ----------------------------------------------------------------------------------------------
# exact reading of the property (Python oracle side)
# ----------------------------------------------------------------------------------------------
def cov_exact(s, t):
    n = len(s)
    if n < 2 or len(t) != n:
        return None
    ms, mt = sum(s) / n, sum(t) / n
    return sum((a - ms) * (b - mt) for a, b in zip(s, t)) / (n - 1)


def series_of(hist, name, j):
    for nm, shape, rows in hist:
        if nm == name:
            if j >= size(shape):
                return None
            return [fr(r[j]) for r in rows]
    return None


def spec_matrix(diag, hist, coords):
    """regularised sample variance / covariance of the recorded series of the labelled coordinates"""
    ser = [series_of(hist, nm, j) for nm, j in coords]
    if any(s is None for s in ser) or not ser:
        return None
    if diag:
        out = [cov_exact(s, s) for s in ser]
        return None if any(v is None for v in out) else [v + REG for v in out]
    out = []
    for i, s in enumerate(ser):
        row = []
        for i2, t in enumerate(ser):
            v = cov_exact(s, t)
            if v is None:
                return None
            row.append(v + REG if i == i2 else v)
        out.append(row)
    return out


def close(a, b):
    return abs(a - b) <= Fraction(1, 10 ** 6) * abs(a) + Fraction(1, 10 ** 9)


T32 = Fraction(1, 1000)


def mat_mismatch(diag, want, got, f32=False):
    """first entry where the observed matrix differs from the wanted one.  float64 runs: 1e-6 relative + 1e-9;
    float32 runs: 1e-3 relative, off-diagonal entries at the scale (a_ii + a_jj) / 2 of their two variances"""
    if diag:
        if len(want) != len(got):
            return f"length {len(got)} instead of {len(want)}"
        for i, (a, b) in enumerate(zip(want, got)):
            a = fr(a)
            if not (abs(a - fr(b)) <= T32 * abs(a) if f32 else close(a, fr(b))):
                return i, float(a), float(fr(b))
        return None
    if len(want) != len(got):
        return f"{len(got)} rows instead of {len(want)}"
    for i, (ra, rb) in enumerate(zip(want, got)):
        if len(ra) != len(rb):
            return f"row {i} of length {len(rb)} instead of {len(ra)}"
        for j, (a, b) in enumerate(zip(ra, rb)):
            a = fr(a)
            ok = (abs(a - fr(b)) <= T32 * (abs(a) + (abs(fr(want[i][i])) + abs(fr(want[j][j]))) / 2)) if f32 else close(a, fr(b))
            if not ok:
                return (i, j), float(a), float(fr(b))
    return None


def trace_of(diag, m):
    return sum(fr(v) for v in m) if diag else sum(fr(m[i][i]) for i in range(len(m)))


def retunes(c):
    return c["level"] == "fn" or (c["etype"] == "slow" and c["hashist"])


def oracle(c):
    if c["kind"] == "run":
        return oracle_run(c)
    if c["kind"] == "eng":
        bad = [(i, ki) for i, row in enumerate(c["obs"]) for ki, (kk, o) in enumerate(zip(c["kerns"], row)) if kk[0] in ("nuts", "hmc") and o is None]
        return f"engine run: inverse mass matrix not finite after epoch/kernel {bad[0]}" if bad else None
    if not c.get("bj_same", True):
        return ("blackjax's metric pairs the entries of the inverse mass vector with the momentum components in an order "
                "different from ravel_pytree(kernel.position)")
    own_ok = all(series_of(c["hist"], k, 0) is not None for k, _ in c["keys"])
    T = len(c["hist"][0][2]) if c["hist"] else 0
    if not retunes(c):
        if not c["valid"]:
            return f"tune on a non-slow epoch / without history failed: {c['err']}"
        if mat_mismatch(c["diag"], c["old_imm"], c["new"], c.get("f32", False)) or not close(fr(c["old_step"]), fr(c["step"])):
            return "kernel state changed although the epoch is not a slow adaptation epoch with a history"
        return None
    want = spec_matrix(c["diag"], c["hist"], c["coords"]) if own_ok else None
    if want is None:
        if c["valid"]:
            return "a finite matrix was returned although an own key is missing / fewer than two rows were recorded"
        return None
    if not c["valid"]:
        return (f"{c['level']} tune(mm_diag={c['diag']}) with keys listed as {[k for k, _ in c['keys']]} and a history over "
                f"{[e[0] for e in c['hist']]} ({c['T']} rows) returned no finite matrix of the expected shape: {c['err']}")
    f32 = c.get("f32", False)
    mm = mat_mismatch(c["diag"], want, c["new"], f32)
    if mm:
        if isinstance(mm, str):
            return "tuned inverse mass matrix has " + mm
        i, a, b = mm
        who = c["coords"][i] if c["diag"] else (c["coords"][i[0]], c["coords"][i[1]])
        return (("float32 run: " if f32 else "") + f"entry {i} of the tuned inverse mass matrix is {b}, but the regularised sample "
                f"{'variance' if c['diag'] else 'covariance'} of flat coordinate {i} = {who} of the kernel's position is {a} "
                f"(keys listed as {[k for k, _ in c['keys']]})")
    if c["level"] != "fn":
        lhs = fr(c["step"]) ** 2 * trace_of(c["diag"], want)
        rhs = fr(c["old_step"]) ** 2 * trace_of(c["diag"], c["old_imm"])
        if abs(lhs - rhs) > (4 * T32 if f32 else Fraction(1, 10 ** 6)) * abs(rhs):
            return f"step size {float(fr(c['step']))} is not old step * sqrt(trace old / trace new) = {math.sqrt(float(rhs / trace_of(c['diag'], want)))}"
    ref = c.get("ref")
    if ref:
        if not ref["valid"]:
            return f"twin run ({ref['why']}) failed: {ref['err']}"
        if mat_mismatch(c["diag"], [fr(v) for v in c["new"]] if c["diag"] else [[fr(v) for v in r] for r in c["new"]], ref["new"], f32):
            return f"tuned matrix depends on {ref['why']}"
    return None


def oracle_run(c):
    if c.get("crash"):
        return (f"engine run with kernels {c['cfg']['kernels']} and epochs {c['cfg']['epochs']} raised {c['crash']}")
    if not c.get("bj_same", True):
        return "blackjax's metric order differs from ravel_pytree(kernel.position)"
    prev = c["init"]
    for n, ((slow, h), obs) in enumerate(zip(c["epochs"], c["obs"])):
        if obs is None:
            return f"inverse mass matrix after adaptation epoch {n} is not finite"
        if slow:
            want = spec_matrix(c["diag"], h, c["coords"])
            if want is None:
                return f"epoch {n}: the recorded chain does not contain the kernel's keys"
            mm = mat_mismatch(c["diag"], want, obs, c["cfg"].get("f32", False))
            if mm:
                if isinstance(mm, str):
                    return "tuned inverse mass matrix has " + mm
                i, a, b = mm
                who = c["coords"][i] if c["diag"] else (c["coords"][i[0]], c["coords"][i[1]])
                return (("float32 " if c["cfg"].get("f32") else "") + f"engine run, chain {c['chain']}, kernel {c['kernel']} (keys {[k for k, _ in c['keys']]}): after slow epoch "
                        f"#{n} entry {i} of the inverse mass matrix is {b}, the regularised sample (co)variance of flat "
                        f"coordinate {i} = {who} over that epoch's chain is {a}  [kernel sequence {[k['cls'] for k in c['cfg']['kernels']]}, "
                        f"epochs [type, duration, thinning] {c['cfg']['epochs']}, engine constructed with the first "
                        f"{c['cfg'].get('built', len(c['cfg']['epochs']))} of them, the others appended with append_epoch and run with "
                        f"sample_next_epoch; the history of a thinned epoch is its {len(h[0][2]) if h else 0} recorded samples]")
        else:
            if mat_mismatch(c["diag"], prev, obs, c["cfg"].get("f32", False)):
                return f"inverse mass matrix changed after non-slow adaptation epoch {n}"
        prev = obs
    return None


# ----------------------------------------------------------------------------------------------
# generators
# ----------------------------------------------------------------------------------------------
def dy(rnd, lo, hi, den):
    return Fraction(rnd.randint(lo, hi), den)


def gen_rows(rnd, T, n):
    scales = [Fraction(2) ** rnd.randint(-2, 6) for _ in range(n)]
    return [[scales[j] * rnd.randint(-32, 32) / 4 for j in range(n)] for _ in range(T)]


def gen_rows_offcentre(rnd, T, n):
    """float32-exact rows; about half of the coordinates sit far from zero: |mean| = 1e2 .. 1e4 times the spread (both signs),
    the others are centred at zero"""
    np = lib()["np"]
    cols = []
    for j in range(n):
        while True:
            s = Fraction(2) ** rnd.randint(-4, 1)
            dev = [s * rnd.randint(-32, 32) / 4 for _ in range(T)]
            if rnd.random() < 0.45:
                m = Fraction(0)
            else:
                spread = float(s) * 4.6
                m = Fraction(rnd.choice([-1, 1]) * rnd.choice([128, 300, 1000, 2000, 2048, 5000, 10000, 20000]))
                if not (1e2 <= abs(float(m)) / spread <= 1e4):
                    continue
            col = [m + d for d in dev]
            if all(Fraction(float(np.float32(float(v)))) == v for v in col):
                cols.append(col)
                break
    return [[cols[j][t] for j in range(n)] for t in range(T)]


def order_stratum(rnd, stratum):
    """returns listed names for the stratum"""
    if stratum == "single":
        return [rnd.choice(NAMES)]
    if stratum == "case-mixed":
        base = rnd.choice([["a", "B"], ["b", "B", "a"], ["beta", "Beta", "alpha"], ["sigma", "Sigma", "Z"], ["a", "A", "Z", "b"]])
        names = sorted(base, key=lambda s: (s.lower(), s))          # case-insensitive listing
        return names
    if stratum == "numeric-suffix":
        base = rnd.choice([["a1", "a2", "a10"], ["x9", "x10"], ["x_1", "x9", "x10"], ["a1", "a2", "a10", "a"]])
        return list(base)                                             # natural order listing
    if stratum == "prefix":
        base = rnd.choice([["a_", "a", "ab", "a1"], ["b", "beta", "Beta"], ["ab", "a", "a_"], ["β", "zeta", "beta"], ["µ", "mu", "z0"]])
        names = list(base)
        rnd.shuffle(names)
        return names
    k = rnd.choice([2, 2, 3, 3, 4])
    names = rnd.sample(NAMES, k)
    if stratum == "sorted":
        return sorted(names)
    if stratum == "reverse":
        return sorted(names, reverse=True)
    while names == sorted(names):
        rnd.shuffle(names)
    return names


def gen_direct(rnd, stratum, force=None):
    force = force or {}
    names = force.get("names") or order_stratum(rnd, stratum)
    budget = 7
    keys = []
    for nm in names:
        s = rnd.choice(SHAPES)
        while size(s) > max(1, budget - (len(names) - len(keys) - 1)):
            s = rnd.choice(SHAPES)
        budget -= size(s)
        keys.append([nm, list(s)])
    if "shapes" in force:
        keys = [[nm, list(s)] for nm, s in zip(names, force["shapes"])]
    n = sum(size(s) for _, s in keys)
    diag = force.get("diag", rnd.random() < 0.55)
    level = force.get("level", rnd.choice(["nuts", "hmc", "nuts", "hmc", "fn"]))
    r = rnd.random()
    etype, hashist = ("slow", True)
    if level != "fn" and "etype" not in force:
        if r < 0.08:
            etype = "fast"
        elif r < 0.11:
            etype = rnd.choice(["burnin", "posterior"])
        elif r < 0.16:
            hashist = False
    etype = force.get("etype", etype)
    T = force.get("T", rnd.choice([2, 2, 3, 3, 4, 5, 6, 8, 12]))
    # a single recorded row has no sample variance: NaN (diag) / a 1x1 matrix that lax.cond refuses (dense); only where the
    # model says "no matrix".  An empty history cannot reach tune (the engine expects samples).
    if "T" not in force and etype == "slow" and hashist and level != "fn" and rnd.random() < 0.05:
        T = 1
    others = [] if level == "fn" else [nm for nm in rnd.sample(NAMES, rnd.choice([0, 1, 1, 2])) if nm not in names]
    if level == "fn":
        keys = sorted(keys, key=lambda kv: kv[0])        # only pytree-ordered dicts at function level
        stratum = "fn-sorted-dict"
    f32 = force.get("f32", False)
    rows_fn = gen_rows_offcentre if f32 else gen_rows
    entries = [[nm, list(s), rows_fn(rnd, T, size(s))] for nm, s in keys]
    entries += [[nm, list(s), rows_fn(rnd, T, size(s))] for nm, s in ((o, rnd.choice(SHAPES)) for o in others)]
    rnd.shuffle(entries)
    if level == "fn":
        entries.sort(key=lambda e: e[0])
    missing = False
    if level != "fn" and etype == "slow" and hashist and "T" not in force and rnd.random() < 0.03:
        drop = rnd.choice(names)
        entries = [e for e in entries if e[0] != drop]
        missing = True
        if not entries:
            entries = [["unrelated", [], gen_rows(rnd, T, 1)]]
    old_step = dy(rnd, 1, 64, 32)
    if diag:
        old_imm = [dy(rnd, 1, 64, 8) for _ in range(n)]
    else:
        old_imm = [[Fraction(0)] * n for _ in range(n)]
        for i in range(n):
            old_imm[i][i] = dy(rnd, 8, 64, 8)
            for j in range(i):
                old_imm[i][j] = old_imm[j][i] = dy(rnd, -4, 4, 16)
    return {"kind": "direct", "level": level, "keys": keys, "diag": diag, "etype": etype, "hashist": hashist,
            "hist": entries, "old_step": old_step, "old_imm": old_imm, "stratum": stratum, "T": T, "missing": missing, "f32": f32}


def observe_direct(rnd, c, twin=True):
    coords, same = observe_coords(c["keys"], via_kernel=c["level"] != "fn")
    c["coords"], c["bj_same"] = coords, same
    c.update(call_code(c))
    # metamorphic twins: same history, keys listed in another order / other kernels' history changed
    if twin and c["valid"] and retunes(c) and c["level"] != "fn":
        r = rnd.random()
        if r < 0.15 and len(c["keys"]) > 1:
            keys2 = list(c["keys"])
            while keys2 == c["keys"]:
                rnd.shuffle(keys2)
            c["ref"] = {"why": "the order in which the position keys are listed", "keys": keys2, **call_code(c, keys=keys2)}
        elif r < 0.27:
            own = {k for k, _ in c["keys"]}
            rows_fn = gen_rows_offcentre if c.get("f32") else gen_rows
            hist2 = [e if e[0] in own else [e[0], e[1], rows_fn(rnd, len(e[2]), size(e[1]))] for e in c["hist"]]
            hist2 = [e for e in hist2 if e[0] in own or rnd.random() < 0.7] + [["extra_kernel_par", [2], rows_fn(rnd, c["T"], 2)]]
            rnd.shuffle(hist2)
            c["ref"] = {"why": "the history of other kernels' parameters / the order of the history dict", "hist": hist2,
                        **call_code(c, hist=hist2)}
    return c


STRATA_MIN = {"non-alphabetical": 0.30, "reverse": 0.10, "sorted": 0.10, "case-mixed": 0.12, "numeric-suffix": 0.10,
              "prefix": 0.10, "single": 0.05}


def corpus_cases():
    out = []
    # F4 witness and friends: always first
    fixed = [
        dict(names=["zeta", "alpha"], shapes=[(), (2,)], diag=True, level="nuts", etype="slow", T=3),
        dict(names=["zeta", "alpha"], shapes=[(), (2,)], diag=False, level="hmc", etype="slow", T=4),
        dict(names=["zeta", "alpha"], shapes=[(), (2,)], diag=True, level="hmc", etype="slow", T=3),
        dict(names=["zeta", "alpha", "B"], shapes=[(), (2,), (2, 2)], diag=False, level="nuts", etype="slow", T=8),
        dict(names=["b", "B"], shapes=[(2,), ()], diag=True, level="nuts", etype="slow", T=2),
        dict(names=["a1", "a2", "a10"], shapes=[(), (), ()], diag=True, level="hmc", etype="slow", T=5),
        dict(names=["beta", "log_sigma"], shapes=[(3,), ()], diag=True, level="nuts", etype="slow", T=6),
        dict(names=["m"], shapes=[(2, 3)], diag=False, level="nuts", etype="slow", T=5),
        dict(names=["zeta", "alpha"], shapes=[(), (2,)], diag=True, level="nuts", etype="fast", T=3),
    ]
    return fixed


def generate(ctx):
    rnd = random.Random(ctx.seed)
    lib()
    cases = []
    for f in corpus_cases():
        c = gen_direct(rnd, "corpus", force=f)
        cases.append(observe_direct(rnd, c))
    for p in sorted(glob.glob(os.path.join(common.VERIF, "harness", "corpus", "C12*.json"))):
        try:
            for f in json.load(open(p)):
                f["shapes"] = [tuple(s) for s in f["shapes"]]
                cases.append(observe_direct(rnd, gen_direct(rnd, "corpus", force=f)))
        except Exception as ex:  # a malformed corpus file must not hide the rest
            common.log("corpus file ignored:", p, ex)
    total = 140 if ctx.quick else 1400
    plan = []
    for s, frac in STRATA_MIN.items():
        plan += [s] * max(3, int(total * frac))
    while len(plan) < total:
        plan.append(rnd.choice(list(STRATA_MIN)))
    for s in plan:
        cases.append(observe_direct(rnd, gen_direct(rnd, s)))
    # forced boundary strata
    for T in (1, 1, 2, 2):
        for diag in (True, False):
            cases.append(observe_direct(rnd, gen_direct(rnd, "non-alphabetical", force={"T": T, "diag": diag, "etype": "slow", "level": rnd.choice(["nuts", "hmc"])})))
    # float32 (liesel's default dtype) with off-centre histories: kernels' tune and the functions, diag and dense
    n32 = 26 if ctx.quick else 220
    for k in range(n32):
        st = rnd.choice(["non-alphabetical", "non-alphabetical", "case-mixed", "prefix", "sorted", "single"])
        cases.append(observe_direct(rnd, gen_direct(rnd, st, force={"f32": True, "diag": k % 2 == 0, "etype": "slow",
                                                                    "T": rnd.choice([3, 4, 6, 8, 12, 16]),
                                                                    "level": ["nuts", "hmc", "nuts", "hmc", "fn"][k % 5]})))
    nbj = sum(1 for c in cases if not c["bj_same"])
    ctx.tested_not_proved.append(
        f"blackjax pairs entry i of the inverse mass vector with component i of ravel_pytree(kernel.position(state)) "
        f"(gradient of the kinetic energy of blackjax.mcmc.metrics.default_metric): {len(lib()['coord_cache'])} key configurations, {nbj} differences")
    # end-to-end engine runs
    runs = run_configs(rnd, ctx.quick)
    for cfg in runs:
        try:
            cases.extend(observe_run(cfg))
        except Exception as ex:  # the engine could not run this configuration at all: a concrete failing input
            import traceback
            common.log(traceback.format_exc()[-1500:])
            cases.append({"kind": "run", "cfg": cfg, "crash": f"{type(ex).__name__}: {str(ex)[:400]}", "chain": 0, "kernel": 0,
                          "cls": "?", "keys": [], "diag": True,
                          "coords": [], "bj_same": True, "init": None, "epochs": [], "obs": []})
    for c in cases:
        if c["kind"] == "direct":
            ctx.hist("order=" + c["stratum"])
            ctx.hist("dtype=" + ("float32, off-centre history" if c.get("f32") else "float64"))
            ctx.hist("level=" + c["level"])
            ctx.hist("mode=" + ("diag" if c["diag"] else "dense"))
            ctx.hist("epoch=" + c["etype"] + ("" if c["hashist"] else ",history=None"))
            ctx.hist("T=" + (str(c["T"]) if c["T"] < 4 else "4+"))
            ctx.hist("valid" if c["valid"] else "invalid:" + str(c["err"]).split(" ")[0])
            ctx.hist("dim=" + str(len(c["coords"])))
            if any(len(s) >= 2 for _, s in c["keys"]):
                ctx.hist("has matrix/tensor-shaped key")
            if "ref" in c:
                ctx.hist("twin:" + c["ref"]["why"].split(" ")[1])
        elif c["kind"] == "run":
            ctx.hist("engine-run kernel=" + c["cls"] + (",diag" if c["diag"] else ",dense"))
            ctx.hist("engine-run dtype=" + ("float32, off-centre target" if c["cfg"].get("f32") else "float64"))
            ctx.hist("engine-run slow epochs=" + str(sum(1 for s, _ in c["epochs"] if s)))
            kinds = [k["cls"] for k in c["cfg"]["kernels"]]
            if any(x in ("rw", "gibbs") for x in kinds[:c["kernel"]]):
                ctx.hist("engine-run: kernel without history-based tuning listed before this NUTS/HMC kernel")
            sl = [tuple(e) for e in c["cfg"]["epochs"] if e[0] == "slow"]
            if len(set(sl)) < len(sl):
                ctx.hist("engine-run: slow epochs with identical configs")
            nb = c["cfg"].get("built", len(c["cfg"]["epochs"]))
            if any(e[0] == "slow" for e in c["cfg"]["epochs"][nb:]) and not any(e[0] == "slow" for e in c["cfg"]["epochs"][:nb]):
                ctx.hist("engine-run: constructed without slow epoch, slow epochs appended after sampling")
            for e in c["cfg"]["epochs"]:
                if e[0] == "slow" and ep3(e)[2] > 1:
                    ctx.hist(f"engine-run: slow epoch with thinning {ep3(e)[2]}")
        else:
            ctx.hist("engine-model case (kernel sequence x schedule, one chain)")
    distinct = {json.dumps([c.get("keys", c.get("kerns")), c.get("diag"), c.get("level"), c.get("etype"), c.get("hist", c.get("obs"))], default=str) for c in cases}
    nontrivial = sum(1 for c in cases if c["kind"] != "direct" or (retunes(c) and c["valid"]))
    ctx.count(len(cases), min(len(distinct), nontrivial))
    ctx.cov["rule"] = ("distinct (listed keys+shapes, mode, level, epoch type, history) tuples on which a matrix was actually tuned "
                       "(slow epoch with a history, or function level) plus one per (engine run, chain, kernel)")
    for c in cases[:2] + [c for c in cases if c["kind"] == "run"][:1]:
        ctx.sample(sample_of(c))
    ctx.assume += ["position key names are distinct (EngineBuilder.build rejects duplicates across kernels)",
                   "ravel_pytree / tree_leaves visit dict entries in sorted key order and ravel each leaf in C order (observed per case: i_coords = flat_coords)",
                   "jnp.sqrt is an oracle: the supplied root is checked to square to the model's trace ratio (1e-9 relative)",
                   "float64 arithmetic of jnp.var / jnp.cov is real arithmetic within 1e-6 relative + 1e-9 absolute on dyadic inputs",
                   "float32 arithmetic of jnp.var / jnp.cov is real arithmetic within 1e-3 relative (off-diagonal covariances: relative to the mean of their two variances) on float32-exact histories whose means are up to 1e4 times their spread"]
    ctx.tested_not_proved.append("tuned matrix unchanged under re-listing the keys / changing other kernels' history: metamorphic twin runs of the real kernels (the theorem covers the model)")
    ctx.tested_not_proved.append("jit / vmap / lax.cond dispatch of TuningMixin.tune (exercised eagerly with lax.cond and, in the engine runs, under jit+vmap)")
    ctx.extra_tb = ["blackjax (use of the inverse mass matrix on ravel_pytree(position)) is modelled, its pairing of entries and coordinates is observed on every key configuration",
                    "float64 runs (jax_enable_x64) are compared at 1e-6 relative, float32 runs (x64 disabled around the call) at 1e-3 relative"]
    return cases


def sample_of(c):
    if c["kind"] == "direct":
        return {"keys": c["keys"], "level": c["level"], "diag": c["diag"], "etype": c["etype"], "T": c["T"], "coords": c["coords"],
                "new": str([float(fr(v)) for v in c["new"]] if c["valid"] and c["diag"] else c["valid"])}
    return {"engine_run": c["cfg"]["kernels"], "epochs": c["cfg"]["epochs"], "chain": c["chain"], "kernel": c.get("kernel"), "coords": c.get("coords")}


# ----------------------------------------------------------------------------------------------
# engine runs
# ----------------------------------------------------------------------------------------------
def run_configs(rnd, quick):
    # forced strata of the engine run (always, also in quick): a kernel without history-based tuning (RW) listed BEFORE the
    # NUTS kernel and another one (Gibbs) in the MIDDLE, before the HMC kernel; two consecutive slow epochs with IDENTICAL
    # configs (and, the chain having moved, different histories); two fast epochs with identical configs
    # ... and it runs in float32 (liesel's default dtype) on a target with off-centre coordinates (|mean| / sd = 2400 .. 4000,
    # both signs) next to zero-centred ones, in the diagonal NUTS kernel and in the dense HMC kernel
    base = {
        "seed": 11, "chains": 2,
        "kernels": [{"cls": "rw", "keys": [["r", []]]},
                    {"cls": "nuts", "keys": [["zeta", []], ["alpha", [2]]], "diag": True},
                    {"cls": "gibbs", "keys": [["g", []]]},
                    {"cls": "hmc", "keys": [["b", [2]], ["B", []]], "diag": False}],
        # constructed with [Init, Fast 8] only; everything else is appended after sampling: two THINNED slow epochs with identical
        # configs (8 recorded samples each), an unthinned one, a fast one, the posterior epoch
        "epochs": [["fast", 8, 1], ["slow", 16, 2], ["slow", 16, 2], ["slow", 16, 1], ["fast", 8, 1], ["posterior", 8, 1]],
        "built": 1,
    }
    cfgs = [dict(base, f32=True,
                 loc={"zeta": 2000.0, "alpha": [0.0, -300.0], "b": [0.0, 1000.0], "B": 0.0, "r": 0.0, "g": 0.0},
                 sd={"zeta": 0.5, "alpha": [1.0, 0.125], "b": [2.0, 0.25], "B": 1.0, "r": 1.0, "g": 1.0})]
    if not quick:
        cfgs.append(base)            # the same strata in float64, zero-centred
        cfgs.append({                # thinning 3 and 5, appended after a constructed [Init, Fast, Slow] schedule has been sampled
            "seed": 15, "chains": 2,
            "kernels": [{"cls": "nuts", "keys": [["zeta", []], ["alpha", [2]]], "diag": True},
                        {"cls": "rw", "keys": [["r", []]]},
                        {"cls": "hmc", "keys": [["b", []], ["B", []]], "diag": False}],
            "epochs": [["fast", 15, 1], ["slow", 30, 3], ["slow", 30, 5], ["slow", 30, 5], ["fast", 15, 3], ["posterior", 15, 1]],
            "built": 2,
        })
        cfgs.append({                # all epochs given to the builder, thinned warm-up as produced by stan_epochs(thinning_warmup=...)
            "seed": 16, "chains": 2,
            "kernels": [{"cls": "hmc", "keys": [["x9", []], ["x10", [2]]], "diag": True}],
            "epochs": [["fast", 10, 2], ["slow", 20, 2], ["slow", 40, 5], ["fast", 10, 2], ["posterior", 10, 1]],
        })
    if not quick:
        cfgs.append({
            "seed": 12, "chains": 2,
            "kernels": [{"cls": "hmc", "keys": [["x9", []], ["x10", [2]], ["_x", []]], "diag": True},
                        {"cls": "nuts", "keys": [["m", [2, 2]], ["Z", []]], "diag": False}],
            "epochs": [["slow", 12], ["fast", 6], ["slow", 18], ["slow", 12], ["posterior", 6]],
        })
        cfgs.append({
            "seed": 13, "chains": 3,
            "kernels": [{"cls": "nuts", "keys": [["sigma", []], ["Sigma", [2]], ["a", []]], "diag": False},
                        {"cls": "nuts", "keys": [["tau2", []]], "diag": True},
                        {"cls": "hmc", "keys": [["beta", [3]], ["Beta", []]], "diag": True}],
            "epochs": [["fast", 10], ["slow", 20], ["burnin", 10], ["posterior", 10]],
        })
        cfgs.append({
            "seed": 14, "chains": 2,
            "kernels": [{"cls": "hmc", "keys": [["mu", [2]]], "diag": True},
                        {"cls": "gibbs", "keys": [["tau2", []]]},
                        {"cls": "rw", "keys": [["r", []]]},
                        {"cls": "nuts", "keys": [["x9", []], ["x10", []]], "diag": False}],
            "epochs": [["slow", 12], ["slow", 12], ["fast", 12], ["slow", 12], ["posterior", 12]],
        })
        for i in range(2):
            pool = rnd.sample(NAMES, 5)
            k1 = [[nm, list(rnd.choice([(), (2,), (1,)]))] for nm in pool[:3]]
            k2 = [[nm, list(rnd.choice([(), (2,)]))] for nm in pool[3:]]
            cfgs.append({"seed": 20 + i, "chains": 2,
                         "kernels": [{"cls": rnd.choice(["nuts", "hmc"]), "keys": k1, "diag": rnd.random() < 0.5},
                                     {"cls": rnd.choice(["nuts", "hmc"]), "keys": k2, "diag": rnd.random() < 0.5}],
                         "epochs": [["slow", 10], ["slow", 20], ["fast", 10], ["posterior", 10]]})
    return cfgs


def observe_run(cfg):
    """run the real engine; one case per (chain, kernel) and one per chain for the whole sequence"""
    lib()
    coords = {ki: observe_coords(k["keys"]) for ki, k in enumerate(cfg["kernels"]) if k["cls"] in ("nuts", "hmc")}
    with dtype_ctx(cfg.get("f32", False)):
        return _observe_run(cfg, coords)


def ep3(e):
    """[type, duration] or [type, duration, thinning]"""
    return e[0], e[1], (e[2] if len(e) > 2 else 1)


def _observe_run(cfg, coords_of_kernel):
    L = lib()
    EPS = [ep3(e) for e in cfg["epochs"]]
    jax, jnp, np, gs = L["jax"], L["jnp"], L["np"], L["gs"]
    E, EC = L["EpochType"], L["EpochConfig"]
    rnd = random.Random(cfg["seed"])
    allkeys = [kv for k in cfg["kernels"] for kv in k["keys"]]
    fdt = jnp.float32 if cfg.get("f32") else jnp.float64
    sc = {nm: np.array([2.0 ** rnd.randint(-3, 3) for _ in range(size(s))]).reshape(tuple(s)) for nm, s in allkeys}
    loc = {nm: np.zeros(tuple(s)) for nm, s in allkeys}
    for nm, s in allkeys:
        if nm in cfg.get("sd", {}):
            sc[nm] = np.array(cfg["sd"][nm], dtype=np.float64).reshape(tuple(s))
        if nm in cfg.get("loc", {}):
            loc[nm] = np.array(cfg["loc"][nm], dtype=np.float64).reshape(tuple(s))
    init = {nm: jnp.asarray(loc[nm] + np.array([rnd.randint(-4, 4) / 8 for _ in range(size(s))]).reshape(tuple(s)) * sc[nm], dtype=fdt)
            for nm, s in allkeys}
    init["fixed_data"] = fdt(1.0)
    scj = {k: jnp.asarray(v, dtype=fdt) for k, v in sc.items()}
    locj = {k: jnp.asarray(v, dtype=fdt) for k, v in loc.items()}

    def lp(st):
        return -0.5 * sum(jnp.sum(((st[k] - locj[k]) / scj[k]) ** 2) for k in scj)

    b = gs.EngineBuilder(seed=cfg["seed"], num_chains=cfg["chains"])
    b.set_model(gs.DictInterface(lp))
    b.set_initial_values(init)
    kerns = []
    for k in cfg["kernels"]:
        names = [nm for nm, _ in k["keys"]]
        if k["cls"] == "rw":
            kern = gs.RWKernel(names)
        elif k["cls"] == "gibbs":
            def tf(prng_key, model_state, names=names):
                ks_ = jax.random.split(prng_key, len(names))
                return {nm: locj[nm] + scj[nm] * jax.random.normal(ks_[j], jnp.shape(model_state[nm]), dtype=fdt) for j, nm in enumerate(names)}
            kern = gs.GibbsKernel(names, tf)
        else:
            K = gs.NUTSKernel if k["cls"] == "nuts" else gs.HMCKernel
            kern = K(names, mm_diag=k["diag"])
        kerns.append(kern)
        b.add_kernel(kern)
    eps = [EC(E.INITIAL_VALUES, 1, 1, None)] + [EC(E(ETYPES[t]), d, th, None) for t, d, th in EPS]
    # "built": how many epochs (after INITIAL_VALUES) the engine is constructed with; the remaining ones are appended one at a
    # time with Engine.append_epoch and run with sample_next_epoch after the constructed schedule has been sampled
    n0 = cfg.get("built", len(EPS))
    b.set_epochs(eps[:1 + n0])
    b.store_kernel_states = True
    b.show_progress = False
    eng = b.build()
    eng.sample_all_epochs()
    for e in eps[1 + n0:]:
        eng.append_epoch(e)
        eng.sample_next_epoch()
    res = eng.get_results()
    pc, kc = res.positions, res.kernel_states.unwrap()
    out = []
    ismm = [k["cls"] in ("nuts", "hmc") for k in cfg["kernels"]]
    adapt = [i for i, (t, _, _) in enumerate(EPS) if t in ("fast", "slow")]
    nep = len(EPS)

    def chain_of(i, ch):
        chain = pc.combine([i + 1]).unwrap()
        h = []
        for nm in chain:
            a = np.asarray(chain[nm])[ch]
            h.append([nm, list(a.shape[1:]), finite_fracs(a.reshape(a.shape[0], -1))])
        return h

    def imm_at(i, ki, ch):
        """matrix of kernel ki stored for the first iteration of engine epoch i (0 = INITIAL_VALUES)"""
        if cfg.get("f32"):
            assert str(kc.combine([i]).unwrap()[ki].inverse_mass_matrix.dtype) == "float32", "float32 run produced another dtype"
        return finite_fracs(np.asarray(kc.combine([i]).unwrap()[ki].inverse_mass_matrix)[ch, 0])

    hists = {(i, ch): chain_of(i, ch) for i, (t, _, _) in enumerate(EPS) if t == "slow" for ch in range(cfg["chains"])}
    for ki, k in enumerate(cfg["kernels"]):
        if not ismm[ki]:
            continue
        coords, same = coords_of_kernel[ki]
        for ch in range(cfg["chains"]):
            epochs, obs = [], []
            for i in adapt:
                t, d, _th = EPS[i]
                epochs.append([True, hists[(i, ch)]] if t == "slow" else [False, None])
                obs.append(imm_at(i + 2, ki, ch))
            out.append({"kind": "run", "cfg": cfg, "chain": ch, "kernel": ki, "cls": k["cls"], "keys": k["keys"], "diag": k["diag"],
                        "coords": coords, "bj_same": same, "init": imm_at(1, ki, ch), "epochs": epochs, "obs": obs})
    # the whole kernel sequence and schedule of one chain, for the engine model (all epochs but the last)
    for ch in range(cfg["chains"]):
        kerns_ = [[k["cls"], k["keys"], k.get("diag"), imm_at(1, ki, ch) if ismm[ki] else None] for ki, k in enumerate(cfg["kernels"])]
        eps_ = [[t, d, hists[(i, ch)] if t == "slow" else [], th] for i, (t, d, th) in enumerate(EPS[:-1])]
        obs_ = [[imm_at(i + 2, ki, ch) if ismm[ki] else None for ki in range(len(kerns_))] for i in range(nep - 1)]
        out.append({"kind": "eng", "cfg": cfg, "chain": ch, "kerns": kerns_, "epochs": eps_, "obs": obs_})
    return out


# ----------------------------------------------------------------------------------------------
# Coq emission
# ----------------------------------------------------------------------------------------------
def keys_lit(keys):
    return lst(f"({strlit(k)}, {natlit(size(s))})" for k, s in keys)


def rows_lit(rows):
    return lst(lst(qlit(fr(v)) for v in r) for r in rows)


def hist_lit(hist):
    return lst(f"({strlit(nm)}, {rows_lit(rows)})" for nm, _, rows in hist)


def mm_lit(diag, m):
    if m is None:
        return "(Diag [])"
    return f"(Diag {lst(qlit(fr(v)) for v in m)})" if diag else f"(Dense {rows_lit(m)})"


def coords_lit(coords):
    return lst(f"({strlit(k)}, {natlit(j)})" for k, j in coords)


def model_sqrt(c):
    """float64 square root of the model's own trace ratio (the jnp.sqrt oracle of the model)"""
    if c["level"] == "fn" or not retunes(c):
        return Fraction(0)
    want = spec_matrix(c["diag"], c["hist"], c["coords"])
    if want is None:
        return Fraction(0)
    return Fraction(math.sqrt(float(trace_of(c["diag"], c["old_imm"]) / trace_of(c["diag"], want))))


def direct_lit(c):
    kernel = c["level"] != "fn"
    old = f"(mkK {qlit(fr(c['old_step']))} {mm_lit(c['diag'], c['old_imm'])})"
    return ("(mkCase " + " ".join([
        keys_lit(c["keys"]), blit(c["diag"]), blit(kernel), blit(c["etype"] == "slow"), blit(c["hashist"]),
        hist_lit(c["hist"]), old, qlit(model_sqrt(c)), coords_lit(c["coords"]), blit(c["valid"]),
        mm_lit(c["diag"], c["new"] if c["valid"] else None), qlit(fr(c["step"]) if c["valid"] else Fraction(0))]) + ")")


def run_lit(c):
    eps = lst(f"(true, Some {hist_lit(h)})" if slow else "(false, None)" for slow, h in c["epochs"])
    return ("(mkRun " + " ".join([keys_lit(c["keys"]), blit(c["diag"]), mm_lit(c["diag"], c["init"]), eps, coords_lit(c["coords"]),
                                 lst(mm_lit(c["diag"], o) for o in c["obs"])]) + ")")


ETY = {"fast": "EFast", "slow": "ESlow", "burnin": "EBurnin", "posterior": "EPosterior"}


def eng_lit(c):
    ks = lst(f"(KMM {blit(d)} {keys_lit(keys)}, {mm_lit(d, init)})" if cls in ("nuts", "hmc") else "(KOther, Diag [])"
             for cls, keys, d, init in c["kerns"])
    eps = lst(f"(mkE {ETY[e[0]]} {natlit(e[1])} {natlit(e[3] if len(e) > 3 else 1)}, {hist_lit(e[2])})" for e in c["epochs"])
    obs = lst(lst(mm_lit(kk[2], o) if kk[0] in ("nuts", "hmc") else "(Diag [])" for kk, o in zip(c["kerns"], row)) for row in c["obs"])
    return f"(mkEng {ks} {eps} {obs})"


def emit(ctx, cases):
    shards = []

    def is32(c):
        return bool(c.get("f32") or c.get("cfg", {}).get("f32"))

    plan = [("direct", False, "mcase", "agrees Sorted", direct_lit, SHARD), ("direct", True, "mcase", "agrees32 Sorted", direct_lit, SHARD),
            ("run", False, "rcase", "agrees_run Sorted", run_lit, 4), ("run", True, "rcase", "agrees_run32 Sorted", run_lit, 4),
            ("eng", False, "ecase", "agrees_engine Sorted", eng_lit, 4), ("eng", True, "ecase", "agrees_engine32 Sorted", eng_lit, 4)]
    for kind, f32, ty, pred, lit, per in plan:
        sel = [i for i, c in enumerate(cases) if c["kind"] == kind and is32(c) == f32 and not c.get("crash")]
        for k in range(0, len(sel), per):
            idxs = sel[k:k + per]
            txt = HEADER + f"""
Definition cases : list {ty} := {lst(lit(cases[i]) for i in idxs)}.
Lemma shard_ok : forallb ({pred}) cases = true.
Proof. vm_compute. reflexivity. Qed.
"""
            shards.append((ctx.new_shard(txt), idxs))
    source_tie(ctx)
    return shards


# ----------------------------------------------------------------------------------------------
# second tie: the current source translated to Gallina and proved equal to the model (c12_tie.py)
# ----------------------------------------------------------------------------------------------
def source_tie(ctx):
    """Runs after the Coq build (emit is only called when it succeeded).  A broken source tie alone is no
    alarm: it is recorded in coverage.source_tie; run() adds it to ctx.broken only when the behavioural
    correspondence or the oracle report a violation as well."""
    try:
        tie = c12_tie.run(ctx, common.REPO)
    except Exception as ex:      # optional evidence; never let it abort the check
        tie = {"translated": [], "lemmas_ok": False, "lemmas": [], "not_tied": {"all": repr(ex)},
               "detail": f"SOURCE TIE BROKEN: c12_tie aborted: {type(ex).__name__}: {ex}"}
    ctx.cov["source_tie"] = tie
    for sec in tie.get("not_tied", {}):
        ctx.hist("T.source_tie_broken." + sec)
    ctx.hist("T.source_tie_lemmas", len(tie.get("lemmas", [])))
    ctx.extra_tb = getattr(ctx, "extra_tb", []) + [
        "source tie (advisory): tools/py2gallina_c12.py (fail-closed Python-ast -> Gallina translator of mm.py and of the _tune_fast / "
        "_tune_slow of NUTSKernel / HMCKernel; arrays as flat size + C-order items, matrices as column lists, floats as exact rationals, "
        "jnp.sqrt the model's oracle, field assignments as shadowing lets, its library-call table with the targets defined in "
        "Goose/GenC12Tie.v) and the statements of the lemmas in harness/lv/c12_tie.py; result of this run in coverage.source_tie"]


def run(ctx):
    orig_finish = ctx.finish

    def finish(*a, **k):
        tie = ctx.cov.get("source_tie")
        if tie is None:
            ctx.cov["source_tie"] = {"translated": [], "lemmas_ok": False, "detail": "not attempted: the Coq build failed"}
        elif not tie.get("lemmas_ok") and ctx.violations:
            # the behavioural part / the oracle disagree too: name the broken source tie in the replay files
            for sec, why in tie.get("not_tied", {}).items():
                if not why.startswith("needs "):
                    ctx.broken.append(f"source tie [{sec}]: {why}"[:400])
        return orig_finish(*a, **k)
    ctx.finish = finish
    return common.run_standard(ctx, sys.modules[__name__])


def diagnose(ctx, path, idxs, cases):
    src = open(path).read()
    txt = src.split("Lemma shard_ok")[0]
    import re as _re
    pred = _re.search(r"forallb \((.*?)\) cases", src).group(1)
    txt += f"Eval vm_compute in (failing ({pred}) cases).\n"
    ok, out = ctx.coq_eval(txt)
    return [idxs[j] for j in common.parse_nat_list(out) if j < len(idxs)]


def klass(c):
    return None


def search(ctx, disagreeing):
    """proof or correspondence broke although no sampled case fails the oracle: widen"""
    out = []
    for c in disagreeing:
        r = oracle(c)
        if r:
            out.append({"why": r, **c})
    if out:
        return out
    rnd = random.Random(ctx.seed + 1)
    for k in range(150 if ctx.quick else 600):
        s = rnd.choice(["non-alphabetical", "reverse", "case-mixed", "numeric-suffix", "prefix"])
        c = observe_direct(rnd, gen_direct(rnd, s, force={"etype": "slow"}))
        r = oracle(c)
        if r:
            out.append({"why": r, **c})
            break
    return out


# ----------------------------------------------------------------------------------------------
# replay
# ----------------------------------------------------------------------------------------------
def _unjson_direct(c):
    c = dict(c)
    c["keys"] = [[k, list(s)] for k, s in c["keys"]]
    c["hist"] = [[nm, list(s), [[fr(v) for v in r] for r in rows]] for nm, s, rows in c["hist"]]
    c["old_step"] = fr(c["old_step"])
    c["old_imm"] = [fr(v) for v in c["old_imm"]] if c["diag"] else [[fr(v) for v in r] for r in c["old_imm"]]
    return c


def replay(rp) -> int:
    c = rp["replay"].get("case")
    if not c:
        print("replay file names no concrete input (broken lemma only):", rp["replay"].get("broken"))
        return 0
    lib()
    if c["kind"] in ("run", "eng"):
        try:
            obs = observe_run(c["cfg"])
        except Exception as ex:
            print("REPLAY FAILS: engine run raised", type(ex).__name__, str(ex)[:300])
            return 1
        for c2 in obs:
            if c2["kind"] == "run" and c2["chain"] == c["chain"] and c2["kernel"] == c.get("kernel", c2["kernel"]):
                r = oracle(c2)
                print(json.dumps(sample_of(c2), default=str))
                if r:
                    print("REPLAY FAILS:", r)
                    return 1
        print("replay passes on the current tree")
        return 0
    c = _unjson_direct(c)
    ref = c.pop("ref", None)
    for k in ("coords", "bj_same", "valid", "err", "new", "step"):
        c.pop(k, None)
    rnd = random.Random(0)
    observe_direct(rnd, c, twin=False)
    if ref:
        ref = dict(ref)
        if "keys" in ref:
            c["ref"] = {"why": ref["why"], **call_code(c, keys=[[k, list(s)] for k, s in ref["keys"]])}
        elif "hist" in ref:
            h2 = [[nm, list(s), [[fr(v) for v in r] for r in rows]] for nm, s, rows in ref["hist"]]
            c["ref"] = {"why": ref["why"], **call_code(c, hist=h2)}
    r = oracle(c)
    print(json.dumps({"keys": c["keys"], "level": c["level"], "diag": c["diag"], "etype": c["etype"], "coords": c["coords"],
                      "valid": c["valid"], "err": c["err"],
                      "new": None if not c["valid"] else ([float(v) for v in c["new"]] if c["diag"] else [[float(v) for v in r_] for r_ in c["new"]])}))
    if r:
        print("REPLAY FAILS:", r)
        return 1
    print("replay passes on the current tree")
    return 0
