"""C06 source tie: Gallina definitions translated from the current Python source of liesel/goose/iwls_utils.py
(solve, mvn_log_prob, mvn_sample), of IWLSKernel._standard_transition (iwls.py) and of RWKernel._standard_transition
(rw.py; with the default of mh_step's log_correction from mh.py) by tools/py2gallina_c06.py, + Qed-closed lemmas that
they are extensionally equal to the hand-written model (coq/Analytic/Gauss.v, IWLS.v) + main C06 theorems re-stated
for the translated functions.  Never raises an alarm by itself: the caller (c06.py) records the outcome in the
evidence (coverage.source_tie) and keeps the behavioural correspondence and the oracle for the verdict.
"""
from __future__ import annotations

import importlib.util
import os
import re

from . import common

TOOL = os.path.join(common.VERIF, "tools", "py2gallina_c06.py")

HEADER = """(* GENERATED on this run by tools/py2gallina_c06.py from the Python source under {root} - do not edit *)
From Coq Require Import Reals List Lra.
Import ListNotations.
From LV Require Import Analytic.Gauss Analytic.GaussProofs Analytic.IWLS Analytic.IWLSProofs Analytic.GenC06Tie.
"""

# definition sections (one per translated function) in the order they are written
SECTIONS = ["solve", "logprob", "sample", "iwls", "rw"]
# the generated text of a section mentions the definitions of these sections
SEC_NEEDS = {"iwls": ["solve", "logprob", "sample"]}

# proof blocks: (name, definition sections needed, proof blocks needed, text)
BLOCKS = [
    ("solve", ["solve"], [], """
Lemma gen_solve_is_model : forall L r, gen_solve L r = solve L r.
Proof. intros L r. unfold gen_solve. tie06_unfold. tie06. Qed.
"""),
    ("logprob", ["logprob"], [], """
Lemma gen_mvn_log_prob_is_model : forall x m L, gen_mvn_log_prob x m L = mvn_log_prob x m L.
Proof. intros x m L. unfold gen_mvn_log_prob. tie06_unfold. tie06. Qed.
"""),
    ("sample", ["sample"], [], """
(* jax.random.normal is the oracle o: the translated function draws o key (length mean) *)
Lemma gen_mvn_sample_is_model : forall K (o : K -> nat -> vec) k m L,
  gen_mvn_sample o k m L = mvn_sample (o k (length m)) m L.
Proof. intros K o k m L. unfold gen_mvn_sample. tie06_unfold. tie06. Qed.
"""),
    ("iwls", ["solve", "logprob", "sample", "iwls"], ["solve", "logprob", "sample"], """
(* the whole transition, with the translated utilities it calls unfolded, is IWLS.v's composition *)
Lemma gen_iwls_standard_transition_is_model : iwls_eq (@gen_iwls_standard_transition).
Proof.
  intros K I split normal mh score ch key s x.
  unfold gen_iwls_standard_transition, gen_solve, gen_mvn_log_prob, gen_mvn_sample. tie06_unfold. tie06.
Qed.
"""),
    ("rw", ["rw"], [], """
Lemma gen_rw_standard_transition_is_model : rw_eq (@gen_rw_standard_transition).
Proof. intros K I split normal mh key s x. unfold gen_rw_standard_transition. tie06_unfold. tie06. Qed.
"""),
    ("cor_utils", ["solve", "logprob", "sample"], ["solve", "logprob", "sample"], """
(* C06_nd_dim1_is_scalar, C06_logpdf_is_density_of_sample for the utilities translated from the source *)
Theorem gen_nd_dim1_is_scalar : forall x m l z r K (o : K -> nat -> vec) k, o k 1%nat = [z] ->
  gen_mvn_log_prob [x] [m] [[l]] = gauss_logpdf_prec x m l
  /\\ gen_mvn_sample o k [m] [[l]] = [gauss_sample z m l]
  /\\ gen_solve [[l]] [r] = [solve1 l r].
Proof.
  exact (tie_nd_dim1_is_scalar gen_solve gen_mvn_log_prob (@gen_mvn_sample)
           gen_solve_is_model gen_mvn_log_prob_is_model gen_mvn_sample_is_model).
Qed.

Theorem gen_logpdf_is_density_of_sample : forall K (o : K -> nat -> vec) k z m l, l <> 0 -> o k 1%nat = [z] ->
  gen_mvn_log_prob (gen_mvn_sample o k [m] [[l]]) [m] [[l]] = std_normal_logpdf z + ln l.
Proof.
  exact (tie_logpdf_is_density_of_sample gen_mvn_log_prob (@gen_mvn_sample)
           gen_mvn_log_prob_is_model gen_mvn_sample_is_model).
Qed.
"""),
    ("cor_logprob", ["logprob"], ["logprob"], """
(* C06_logpdf_is_gaussian, C06_proposal_moments for the mvn_log_prob translated from the source *)
Theorem gen_logpdf_is_gaussian : forall y m l, 0 < l ->
  exp (gen_mvn_log_prob [y] [m] [[l]]) = gauss_pdf y m (/ (l * l)).
Proof. exact (tie_logpdf_is_gaussian gen_mvn_log_prob gen_mvn_log_prob_is_model). Qed.

Theorem gen_proposal_moments : forall score info s, 0 < s -> (forall x, 0 < info x) -> forall x x',
  exp (gen_mvn_log_prob [x'] (iwls_mu_n (lift_v score) (lift_t (chol_of_info info)) s [x])
                        (iwls_prec_n (lift_t (chol_of_info info)) s [x]))
  = gauss_pdf x' (x + s * s / 2 * (/ info x) * score x) (s * s * / info x).
Proof. exact (tie_proposal_moments gen_mvn_log_prob gen_mvn_log_prob_is_model). Qed.
"""),
    ("cor_iwls", ["solve", "logprob", "sample", "iwls"], ["iwls"], """
(* C06_acceptance_is_mh, C06_proposal_is_draw, C06_detailed_balance for the IWLS transition translated from the
   source, run on a block of size one with mh_step read over R (GenC06Tie.mh_step_R) *)
Theorem gen_iwls_acceptance_is_mh : forall lp score ch s, 0 < s -> (forall x, 0 < ch x) -> forall x z u,
  let o := g_iwls_out (@gen_iwls_standard_transition) lp score ch s x z u in
  let x' := iwls_propose score ch s z x in
  out_alpha o = mh_alpha (target lp) (iwls_q score (info_of_chol ch) s) x x'
  /\\ out_step o = s
  /\\ (out_state o = [x'] \\/ out_state o = [x])
  /\\ iwls_q score (info_of_chol ch) s x x' = std_normal_pdf z / (/ iwls_prec ch s x).
Proof. exact (tie_iwls_acceptance_is_mh (@gen_iwls_standard_transition) gen_iwls_standard_transition_is_model). Qed.

Theorem gen_iwls_detailed_balance : forall lp score ch s, 0 < s -> (forall x, 0 < ch x) -> forall x z u u',
  let x' := iwls_propose score ch s z x in
  let z' := (x - iwls_mu score ch s x') * iwls_prec ch s x' in
  iwls_propose score ch s z' x' = x
  /\\ target lp x * iwls_q score (info_of_chol ch) s x x'
       * out_alpha (g_iwls_out (@gen_iwls_standard_transition) lp score ch s x z u)
     = target lp x' * iwls_q score (info_of_chol ch) s x' x
       * out_alpha (g_iwls_out (@gen_iwls_standard_transition) lp score ch s x' z' u').
Proof. exact (tie_iwls_detailed_balance (@gen_iwls_standard_transition) gen_iwls_standard_transition_is_model). Qed.
Print Assumptions gen_iwls_detailed_balance.
"""),
    ("cor_rw", ["rw"], ["rw"], """
(* C06_rw, C06_rw_proposal_is_draw for the RW transition translated from the source *)
Theorem gen_rw : forall lp s, 0 < s -> forall x z u u',
  let x' := rw_propose s z x in
  out_alpha (g_rw_out (@gen_rw_standard_transition) lp s x z u) = mh_alpha (target lp) (rw_q s) x x'
  /\\ out_step (g_rw_out (@gen_rw_standard_transition) lp s x z u) = s
  /\\ (out_state (g_rw_out (@gen_rw_standard_transition) lp s x z u) = [x']
      \\/ out_state (g_rw_out (@gen_rw_standard_transition) lp s x z u) = [x])
  /\\ rw_q s x x' = std_normal_pdf z / s
  /\\ rw_propose s (- z) x' = x
  /\\ target lp x * rw_q s x x' * out_alpha (g_rw_out (@gen_rw_standard_transition) lp s x z u)
     = target lp x' * rw_q s x' x * out_alpha (g_rw_out (@gen_rw_standard_transition) lp s x' (- z) u').
Proof. exact (tie_rw (@gen_rw_standard_transition) gen_rw_standard_transition_is_model). Qed.
"""),
]
BLOCK_FUNCS = {"solve": "iwls_utils.solve", "logprob": "iwls_utils.mvn_log_prob", "sample": "iwls_utils.mvn_sample",
               "iwls": "IWLSKernel._standard_transition (with the utilities it calls)",
               "rw": "RWKernel._standard_transition"}


def load_tool():
    spec = importlib.util.spec_from_file_location("py2gallina_c06", TOOL)
    mod = importlib.util.module_from_spec(spec)
    spec.loader.exec_module(mod)
    return mod


def lemma_names(txt):
    return re.findall(r"^(?:Lemma|Theorem|Corollary)\s+([A-Za-z0-9_']+)", txt, re.M)


def sections(root):
    """translate; returns ({section: {"text", "pre", "info"}}, {name: reason it is not available})"""
    tool = load_tool()
    res = tool.translate(root)
    ok, bad = {}, {}
    for sec in SECTIONS:
        d = res.get(sec, {"error": "not translated"})
        if "error" in d:
            bad[sec] = "translator failed closed: " + d["error"]
        else:
            ok[sec] = d
    skip = {}
    for sec, needs in SEC_NEEDS.items():
        missing = [n for n in needs if n not in ok]
        if sec in ok and missing:
            bad[sec] = (f"translated, but its text calls the translated {', '.join(missing)}, whose translation failed "
                        f"({'; '.join(bad.get(n, '?') for n in missing)})")[:600]
            del ok[sec]
    return ok, bad, skip


def assemble(root, ok, use):
    """file text: the definitions of all translated sections, then the proof blocks in `use`"""
    parts = [HEADER.format(root=root)]
    defmarks, marks = [], []

    def nlines():
        return sum(p.count("\n") + 1 for p in parts)

    parts.append("Open Scope R_scope.")
    for sec in SECTIONS:
        if sec not in ok:
            continue
        start = nlines() + 1
        for i in ok[sec]["info"]:
            parts.append(f"(* {i['file']} : {i['function']}, lines {i['lines'][0]}-{i['lines'][1]}, sha256 {i['sha256']} *)")
        parts.append(ok[sec]["text"])
        defmarks.append((start, nlines(), sec))
    for name, _, _, text in BLOCKS:
        if name in use:
            start = nlines() + 1
            parts.append(text)
            marks.append((start, nlines(), name))
    return "\n".join(parts) + "\n", defmarks, marks


def usable(ok, dropped):
    use = []
    for name, defs, needs, _ in BLOCKS:
        if name in dropped:
            continue
        if all(d in ok for d in defs) and all(n in use for n in needs):
            use.append(name)
    return use


def run(ctx, root):
    """returns the coverage.source_tie record"""
    rec = {"translated": [], "lemmas_ok": False, "lemmas": [], "not_tied": {}, "detail": "",
           "translator": "tools/py2gallina_c06.py", "generated_file": "gen_c06.v (work directory, deleted after the run)"}
    try:
        ok, bad, skip = sections(root)
    except Exception as ex:       # the tie is optional evidence; never let it abort the check
        rec["detail"] = f"SOURCE TIE BROKEN: translator aborted: {type(ex).__name__}: {ex}"
        rec["not_tied"]["all"] = rec["detail"]
        return rec
    rec["not_tied"].update(bad)
    rec["not_tied"].update(skip)
    dropped = set(skip)
    use = usable(ok, dropped)
    failed = False
    for _ in range(len(BLOCKS) + len(SECTIONS) + 1):
        if not use:
            break
        txt, defmarks, marks = assemble(root, ok, use)
        path = ctx.new_shard(txt, "gen_c06")
        rc, out, dt = common.sh(["coqc", "-Q", common.COQ, "LV", "-Q", ctx.work, "Cases", path], timeout=300, cwd=ctx.work)
        rec["coqc_s"] = round(rec.get("coqc_s", 0) + dt, 1)
        if rc == 0:
            ax = sorted(set(re.findall(r"^([A-Za-z_][A-Za-z0-9_.']*)\s*:", out, re.M)) - {"Axioms"})
            extra = [a for a in ax if a not in common.REALS_AXIOMS]
            rec["print_assumptions"] = ("only the standard-library axioms behind Reals: " + ", ".join(ax)) if not extra else \
                ("ADDITIONAL assumptions: " + ", ".join(extra))
            break
        failed = True
        m = re.search(r"line (\d+)", out)
        ln = int(m.group(1)) if m else -1
        msg = " ".join(out.strip().split())[-300:]
        sec = next((s for a, b, s in defmarks if a <= ln <= b), None)
        if sec is not None:        # a generated definition does not type-check: the section goes entirely
            ok.pop(sec, None)
            rec["not_tied"][sec] = f"the definitions generated for {sec} do not type-check: {msg}"
        else:
            blk = next((s for a, b, s in marks if a <= ln <= b), None)
            if blk is None:        # unknown position: give up on the last block
                blk = use[-1]
            upto = "\n".join(txt.split("\n")[:max(ln, 0)])
            names = lemma_names(upto)
            rec["not_tied"][blk] = (f"lemma {names[-1] if names else '?'} does not check for "
                                    f"{BLOCK_FUNCS.get(blk, 'the functions')} as translated from the current source: {msg}")
            dropped.add(blk)
        new = usable(ok, dropped)
        for name, defs, needs, _ in BLOCKS:       # say why the dependants are gone too
            if name in use and name not in new and name not in rec["not_tied"]:
                rec["not_tied"][name] = "needs " + ", ".join(x for x in dict.fromkeys(defs + needs) if x in rec["not_tied"]) + ", which is not tied"
        use = new
    else:
        use = []
    for name, defs, needs, _ in BLOCKS:           # blocks never attempted because a translation is missing
        if name not in use and name not in rec["not_tied"]:
            rec["not_tied"][name] = "needs " + ", ".join(x for x in dict.fromkeys(defs + needs) if x in rec["not_tied"]) + ", which is not tied"
    tied_secs = [s for s in SECTIONS if s in ok and s in use]
    for sec in tied_secs:
        rec["translated"].extend(ok[sec]["info"])
    rec["translated_but_not_proved_equal"] = [i for s in SECTIONS if s in ok and s not in use for i in ok[s]["info"]]
    for name, _, _, text in BLOCKS:
        if name in use:
            rec["lemmas"].extend(lemma_names(text))
    rec["lemmas_ok"] = bool(use) and not rec["not_tied"]
    n = len(rec["lemmas"])
    ctx.obligations += n
    ctx.discharged += n
    if rec["lemmas_ok"]:
        rec["detail"] = ("the C06 theorems about solve / mvn_log_prob / mvn_sample and the IWLS and RW _standard_transition were "
                         "re-established on this run for the functions as translated from the current source (files, line ranges and "
                         "sha256 of the translated text under 'translated'): every gen_*_is_model lemma and every gen_* corollary is "
                         "Qed-closed (advisory: the verdict rests on the behavioural correspondence and the oracle)")
    else:
        rec["detail"] = ("SOURCE TIE BROKEN for " + ", ".join(sorted(rec["not_tied"])) + " - the verdict of this run rests on "
                         "the behavioural correspondence and the oracle for these functions" +
                         ("; still tied: " + ", ".join(use) if use else ""))
        if failed or bad:
            common.log("source tie: " + rec["detail"])
    return rec
