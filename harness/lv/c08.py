"""C08 - recorded chains hold exactly the per-iteration states, thinned as configured.

A. chain.py alone: the real EpochChainManager / ListEpochChain are fed scripts of epochs and chunk
   splits (every composition of every duration <= N for every thinning, plus random multi-epoch
   scripts); combine_all / combine_filtered / combine / get_specific_chain(i).get() / get_epochs are
   compared with the Coq model (agrees_chain) and with the literal per-epoch specification
   (agrees_chain_spec).
B. the real Engine (through EngineBuilder, or the public Engine constructor for an explicit jitted
   duration) with harness stamp kernels (c08_kit.py): get_samples, get_posterior_samples,
   transition_infos, posterior transition infos, kernel_states, generated_quantities per chain
   against the Coq engine model evaluated on the same configuration (agrees_e2e).
C. chunk independence on the real code: the same configuration run with every admissible jitted
   duration and both drivers must return identical results.
Direct oracle: the stamps name the producing (chain, epoch, iteration, kernel); `expect` recomputes
what the property text says must be stored and compares it with the observation.
"""
from __future__ import annotations

import copy
import itertools
import json
import logging
import math
import random
import re

from . import common
from . import c08_kit as kit
from . import c08_tie
from .common import blit, lst, natlit, strlit, zlit

HEADER = """From Coq Require Import String List ZArith Bool Arith.
Import ListNotations.
From LV Require Import Base.ListAux Goose.Epoch Goose.Thin Goose.CorrC08.
Open Scope string_scope.
Open Scope Z_scope.
"""
TY = {0: "Init", 1: "Fast", 2: "Slow", 3: "Burnin", 4: "Post"}
KNOWN_KLASS = "C08-all-excluded-fallback"


def quiet():
    import liesel  # noqa: F401  (its import installs an INFO handler; lower it afterwards)
    logging.getLogger("liesel").setLevel(logging.ERROR)


def econf(e):
    return f"(mkE {TY[e[0]]} {zlit(e[1])} {zlit(e[2])})"


def zl(xs):
    return lst(zlit(x) for x in xs)


def opt(x, f):
    return "None" if x is None else f"(Some {f(x)})"


# =============================================================================================
#  part A: the chain manager alone
# =============================================================================================
def compositions(n):
    """all ordered splits of n into positive parts"""
    if n == 0:
        yield []
        return
    for first in range(1, n + 1):
        for rest in compositions(n - first):
            yield [first] + rest


def run_script(sc):
    """feed one script to the real EpochChainManager; elements are the running numbers 0,1,2,..."""
    import numpy as np
    from liesel.goose.chain import EpochChainManager
    from liesel.goose.epoch import EpochConfig, EpochType

    nch = sc.get("nchains", 2)
    m = EpochChainManager(apply_thinning=bool(sc["thin_on"]))
    nxt = 0
    for (t, d, th), sizes in sc["eps"]:
        m.advance_epoch(EpochConfig(EpochType[kit.TYPES[t]], d, th, None))
        for n in sizes:
            v = np.arange(nxt, nxt + n, dtype=np.int32)
            a = v[None, :] + 100000 * np.arange(nch, dtype=np.int32)[:, None]
            b = a[:, :, None] * 4 + np.arange(3, dtype=np.int32)[None, None, :]
            m.append({"a": a, "b": b})
            nxt += n
    bad, trees = [], []

    def dec(o, keep=True):
        if o.is_none():
            return None
        tree = o.unwrap()
        if keep:
            trees.append(tree)
        if sorted(tree.keys()) != ["a", "b"]:
            bad.append(f"a combined pytree has the leaves {sorted(tree.keys())} (the chunks had 'a' and 'b')")
            return [-1]
        a, b = np.asarray(tree["a"]), np.asarray(tree["b"])
        ok = (a.shape[0] == nch and b.shape[:2] == a.shape and b.shape[2:] == (3,)
              and bool(np.all(a - 100000 * np.arange(nch)[:, None] == a[0][None, :]))
              and bool(np.all(b == a[:, :, None] * 4 + np.arange(3)[None, None, :])))
        if not ok:
            bad.append("leaves / chains of one pytree were sliced differently")
        return [int(x) for x in a[0]]

    def read():
        out = {"all": dec(m.combine_all())}
        out["post"] = dec(m.combine_filtered(lambda c: c.type == EpochType.POSTERIOR))
        out["warm"] = dec(m.combine_filtered(lambda c: EpochType.is_warmup(c.type)))
        out["comb"] = dec(m.combine(sc["sel"]))
        # (the chain handed out by get_specific_chain IS the store; it is read but never edited)
        out["gets"] = [dec(m.get_specific_chain(i).get(), keep=False) for i in range(len(sc["eps"]))]
        out["epochs_ok"] = [(int(e.type), int(e.duration), int(e.thinning)) for e in m.get_epochs()] == \
            [tuple(e) for e, _ in sc["eps"]]
        return out

    first = read()
    # history: combine, edit the returned pytrees in place (add / replace / delete a leaf), combine again
    for tree in trees:
        if "zz" in tree:            # two calls handed out the very same object
            continue
        tree["zz"] = tree["a"]
        tree["a"] = tree["a"] * 0 - 7
        del tree["b"]
    try:
        out = read()
    except Exception as ex:
        out = dict(first)
        bad.append(f"a second read raises {ex!r:.150} after the containers returned by earlier combine calls were edited in place")
    if out != first and not bad:
        diff = [k for k in first if first[k] != out[k]]
        bad.append(f"{diff[0]}: a second read returns {out[diff[0]]} after the container returned by an earlier "
                   f"combine call was edited in place (first read {first[diff[0]]})")
    out["inconsistent"] = bad[:1]
    return out


def spec_script(sc):
    """literal reading: per epoch the elements whose 1-based index within the epoch is a multiple of
    the thinning (all elements for an unthinned manager)"""
    nxt, per = 0, []
    for (t, d, th), sizes in sc["eps"]:
        n = sum(sizes)
        els = list(range(nxt, nxt + n))
        if sc["thin_on"] and th > 1:
            els = [x for j, x in enumerate(els, start=1) if j % th == 0]
        per.append((t, els, len(sizes)))
        nxt += n
    return per


def oracle_a(case):
    sc, ob = case["script"], case["obs"]
    if ob["inconsistent"]:
        return "EpochChainManager: " + ob["inconsistent"][0]
    per = spec_script(sc)
    want_all = [x for _, els, _ in per for x in els]
    want_post = [x for t, els, _ in per if t == 4 for x in els]
    if (ob["all"] or []) != want_all:
        return f"combine_all returns {ob['all']}; the elements at within-epoch positions k,2k,... are {want_all}"
    if (ob["post"] or []) != want_post:
        return f"combine_filtered(POSTERIOR) returns {ob['post']}; the posterior part is {want_post}"
    if not ob["epochs_ok"]:
        return "get_epochs() does not return the epochs in the order they were added"
    want_warm = [x for t, els, _ in per if t in (1, 2, 3) for x in els]
    if (ob["warm"] or []) != want_warm:
        return f"combine_filtered(is_warmup) returns {ob['warm']}; the warmup part is {want_warm}"
    for i, (_, els, _) in enumerate(per):
        if (ob["gets"][i] or []) != els:
            return f"epoch chain {i}: get() returns {ob['gets'][i]}, expected {els}"
    want_comb = [x for i in sc["sel"] for x in per[i][1]]
    if (ob["comb"] or []) != want_comb:
        return f"combine({sc['sel']}) returns {ob['comb']}, expected {want_comb}"
    return None


def gen_a(ctx, rnd):
    scripts = []
    # corpus: the three triples of the repository's own test, and the DESIGN probe
    for (d, th, ch) in [(100, 10, 5), (99, 3, 9), (10, 1, 5)]:
        scripts.append({"thin_on": True, "eps": [[[4, d, th], [ch] * (d // ch)]], "sel": [0], "stratum": "A.corpus_repo_test"})
    scripts.append({"thin_on": True, "sel": [1, 3, 3], "stratum": "A.corpus_design_probe",
                    "eps": [[[0, 1, 1], [1]], [[1, 6, 2], [2, 2, 2]], [[3, 5, 3], [1] * 5], [[2, 7, 3], [7]], [[4, 4, 1], [2, 2]]]})
    # exhaustive: every composition of every duration <= N, every thinning <= duration + 1
    N = 6 if ctx.quick else 9
    for d in range(1, N + 1):
        for th in range(1, d + 2):
            for comp in compositions(d):
                scripts.append({"thin_on": True, "eps": [[[4 if d % th == 0 else 1, d, th], comp]], "sel": [0],
                                "stratum": "A.exhaustive_compositions"})
    # random multi-epoch scripts
    n_rand = 60 if ctx.quick else 400
    for i in range(n_rand):
        kind = ["plain", "thin_coprime", "thin_gt_total", "empty_epoch", "zero_chunks", "two_post", "ones", "mixed"][i % 8]
        thin_on = kind != "plain"
        neps = rnd.randint(1, 5)
        eps = []
        seen_post = False
        for j in range(neps):
            t = 0 if j == 0 and rnd.random() < 0.5 else rnd.choice([1, 2, 3, 4, 4])
            if seen_post:
                t = 4
            if kind == "two_post" and j >= neps - 2:
                t = 4
            seen_post = seen_post or t == 4
            th = rnd.choice([1, 2, 2, 3, 4, 5, 7])
            nchunks = rnd.randint(1, 5)
            if kind == "ones":
                sizes = [1] * rnd.randint(1, 9)
            elif kind == "thin_coprime":
                th = rnd.choice([2, 3, 5])
                sizes = [rnd.choice([s for s in range(1, 8) if math.gcd(s, th) == 1]) for _ in range(nchunks)]
            elif kind == "thin_gt_total":
                sizes = [rnd.randint(1, 3) for _ in range(rnd.randint(1, 2))]
                th = sum(sizes) + rnd.randint(1, 3) if j % 2 == 0 else th
            elif kind == "empty_epoch" and j == neps // 2:
                sizes = []
            else:
                sizes = [rnd.randint(1, 7) for _ in range(nchunks)]
            if kind == "zero_chunks" and th > 1:
                # zero-length chunks only where thinning is applied (there they are provably invisible)
                k = rnd.randint(0, len(sizes))
                sizes = sizes[:k] + [0] + sizes[k:]
            if t == 0:
                sizes, th = [1], 1
            eps.append([[t, max(1, sum(sizes)), th], sizes])
        sel = [rnd.randrange(neps) for _ in range(rnd.randint(0, 3))]
        scripts.append({"thin_on": thin_on, "eps": eps, "sel": sel, "nchains": rnd.choice([1, 2, 3]), "stratum": "A.random_" + kind})
    # equal configurations: two (or three) epochs whose EpochConfig objects compare equal must still be told apart
    for i in range(6 if ctx.quick else 40):
        t = [4, 1, 3, 4, 2, 4][i % 6]
        th = rnd.choice([1, 2, 3])
        d = th * rnd.randint(1, 4)
        def split(total):
            parts, left = [], total
            while left > 0:
                n = rnd.randint(1, left)
                parts.append(n)
                left -= n
            return parts
        eps = [[[0, 1, 1], [1]]] if rnd.random() < 0.5 else []
        if t == 4 and rnd.random() < 0.5:
            eps.append([[1, 5, 2], split(5)])
        reps = rnd.choice([2, 2, 3])
        eps += [[[t, d, th], split(d)] for _ in range(reps)]
        sel = [rnd.randrange(len(eps)) for _ in range(rnd.randint(1, 3))]
        scripts.append({"thin_on": rnd.random() < 0.8, "eps": eps, "sel": sel, "stratum": "A.equal_epoch_configs"})
    cases = []
    for sc in scripts:
        sc.setdefault("sel", [0])
        cases.append({"part": "A", "script": sc, "obs": run_script(sc)})
        ctx.hist(sc["stratum"])
    return cases


def emit_a(ctx, cases):
    paths = []
    for k in range(0, len(cases), 400):
        rows = []
        for c in cases[k:k + 400]:
            sc, ob = c["script"], c["obs"]
            eps = lst(f"({econf(e)}, {lst(natlit(n) for n in sizes)})" for e, sizes in sc["eps"])
            warm, gets, comb = ob["warm"], ob["gets"], ob["comb"]
            rows.append("(mkCC {on} {eps} {al} {po} {wa} {ge} {sel} {co} {ok})".format(
                on=blit(sc["thin_on"]), eps=eps, al=opt(ob["all"], zl), po=opt(ob["post"], zl), wa=opt(warm, zl),
                ge=lst(opt(g, zl) for g in gets), sel=lst(natlit(i) for i in sc["sel"]), co=opt(comb, zl),
                ok=blit(ob["epochs_ok"] and not ob["inconsistent"])))
        txt = HEADER + f"""
Definition cases : list chcase := {lst(rows)}.
Lemma shard_ok : forallb agrees_chain cases = true.
Proof. vm_compute. reflexivity. Qed.
Lemma shard_spec_ok : forallb agrees_chain_spec cases = true.
Proof. vm_compute. reflexivity. Qed.
"""
        paths.append((ctx.new_shard(txt, f"cases_A{k // 400:02d}"), list(range(k, min(k + 400, len(cases)))), "agrees_chain"))
    return paths


# =============================================================================================
#  part B: the engine
# =============================================================================================
def kernel_keys(cfg):
    return [k for ks in cfg["kernels"] for k, _ in ks]


def doc_tracked(cfg):
    """the documented selection: kernels' keys, plus included, minus excluded"""
    out = []
    for k in kernel_keys(cfg) + list(cfg["incl"]):
        if k not in cfg["excl"] and k not in out:
            out.append(k)
    return out


def tracked_value(st, k):
    """the tracked quantity k of ONE chain's model state (DerivedInterface: cs_ = cumulative sum, ct_ = centring)"""
    if k.startswith("cs_") and k[3:] in st:
        return list(itertools.accumulate(st[k[3:]]))
    if k.startswith("ct_") and k[3:] in st:
        x = st[k[3:]]
        return [v * len(x) - sum(x) for v in x]
    return list(st[k])


def expect(cfg):
    """What the property text says the accessors must return, for the stamp kernels (which encode the
    producing chain / epoch / iteration / kernel order into everything they write)."""
    eps, nk, ng = cfg["epochs"], len(cfg["kernels"]), cfg["ngens"]
    sizes = {k: kit.size_of(s) for ks in cfg["kernels"] for k, s in ks}
    sizes.update({k: kit.size_of(s) for k, s in cfg.get("extra", [])})
    tracked = doc_tracked(cfg)
    chains = []
    for cid in range(cfg["nchains"]):
        st = {"c": [0], "cid": [cid], "junk": [77], "acc": [0]}
        for k, n in sizes.items():
            st[k] = [-(cid * 8 + 8) - j for j in range(n)]
        names = list(st) + [k for k in tracked if k not in st]          # + the computed keys cs_<k> / ct_<k>
        samples = {k: [tracked_value(st, k)] for k in names}
        post = {k: [] for k in names}
        kst = [(-1, 0, 0)] * nk
        kstates = [list(kst)]
        infos, post_infos = [], []
        quants = [[(g + 1, 1) for g in range(ng)]]          # initial epoch: c = 0, time_in_epoch advanced to 1
        post_quants = []
        for e_idx, (ty, dur, th) in enumerate(eps):
            if e_idx == 0:
                continue
            kst = [(a, b, c + 1) for (a, b, c) in kst]           # start_epoch
            for t in range(1, dur + 1):
                sv = cid * 100000 + e_idx * 1000 + t
                row = []
                for i in range(1, nk + 1):
                    mark = st["c"][0] % 4
                    for k, s in cfg["kernels"][i - 1]:
                        st[k] = [(sv * 4 + mark) * 8 + j for j in range(sizes[k])]
                    st["c"] = [sv * 4 + i]
                    st["acc"] = [st["acc"][0] + 1]
                    row.append(sv * 4 + i)
                    kst[i - 1] = (sv * 4 + i, kst[i - 1][1] + 1, kst[i - 1][2])
                infos.append(row)
                kstates.append(list(kst))
                if ty == 4:
                    post_infos.append(row)
                if t % th == 0:                                  # the states after iterations k, 2k, ...
                    q = [(st["c"][0] * 2 + g + 1, e_idx * 1000 + t) for g in range(ng)]
                    quants.append(q)
                    for k in samples:
                        samples[k].append(tracked_value(st, k))
                    if ty == 4:
                        post_quants.append(q)
                        for k in samples:
                            post[k].append(tracked_value(st, k))
        has_post = any(e[0] == 4 for e in eps[1:])
        chains.append({"samples": samples, "post": post if has_post else None, "infos": infos if len(eps) > 1 else None,
                       "post_infos": post_infos if has_post else None, "kstates": kstates,
                       "quants": quants, "post_quants": post_quants if has_post else None})
    return {"tracked": tracked, "chains": chains}


def admissible_chunk(cfg):
    durs = [e[1] for e in cfg["epochs"][1:]]
    c = cfg.get("chunk")
    if c is None:
        return True
    return all(d % c == 0 for d in durs)


def oracle_b(case):
    """None | (message, klass)"""
    cfg, ob = case["cfg"], case["obs"]
    if ob.get("error"):
        if admissible_chunk(cfg):
            return (f"the run raised {ob['error']}: {ob.get('message')}", None)
        return None
    if not admissible_chunk(cfg):
        return ("a jitted duration that does not divide an epoch's duration was accepted", None)
    ex = expect(cfg)
    nk, ng = len(cfg["kernels"]), cfg["ngens"]
    shapes = {k: list(kit.SHAPES[s]) for ks in cfg["kernels"] for k, s in ks}
    shapes.update({k: list(kit.SHAPES[s]) for k, s in cfg.get("extra", [])})
    for k in list(cfg["incl"]):
        if k[:3] in ("cs_", "ct_") and k[3:] in shapes:
            shapes[k] = shapes[k[3:]]
    if ob.get("undecodable"):
        return ("after the containers returned by the accessors were edited in place, a second read of the same results "
                f"object cannot be decoded any more: {ob['undecodable']}", None)
    reread = ("second read of the same results object, after the containers returned by the first read were edited in place "
              f"(entry added / replaced / deleted); the first read differed in {ob['reread_diff']}: ") if ob.get("reread_diff") else ""
    try:
        r = _oracle_b_fields(cfg, ob, ex, shapes, nk, ng)
    except (KeyError, IndexError, TypeError, AttributeError) as exn:
        r = (f"the accessors' results do not have the documented structure ({exn!r:.120})", None)
    if r:
        return (reread + r[0], r[1] if not reread else None)
    if reread:
        return (reread + "the accessors are not functions of the stored chains", None)
    return None


def _oracle_b_fields(cfg, ob, ex, shapes, nk, ng):
    key_problem = None
    got_keys = sorted(ob["samples"].keys())
    if got_keys != sorted(ex["tracked"]):
        key_problem = f"get_samples() holds the keys {got_keys}; kernels' keys + positions_included - positions_excluded = {sorted(ex['tracked'])}"
        if ob["posterior"] is not None and sorted(ob["posterior"].keys()) != got_keys:
            return (key_problem + " (and the posterior keys differ again)", None)
    elif ob["posterior"] is not None and sorted(ob["posterior"].keys()) != got_keys:
        return (f"get_posterior_samples() holds the keys {sorted(ob['posterior'].keys())}, get_samples() {got_keys}", None)
    for cid, exc in enumerate(ex["chains"]):
        for k in got_keys:
            if k not in exc["samples"]:
                return (f"unknown key {k} in the samples", None)
            got = ob["samples"][k]["chains"][cid]
            if ob["samples"][k]["shape"] != shapes.get(k, []):
                return (f"samples[{k}] has payload shape {ob['samples'][k]['shape']}, the model state's is {shapes.get(k, [])}", None)
            m = first_diff(got, exc["samples"][k])
            if m is not None:
                return (f"get_samples()[{k!r}], chain {cid}, stored index {m}: " + describe(cfg, cid, k, got, exc["samples"][k], m), None)
            if (ob["posterior"] is None) != (exc["post"] is None):
                return ("get_posterior_samples() " + ("has no samples although there is a posterior epoch" if ob["posterior"] is None
                                                        else "returns samples although there is no posterior epoch"), None)
            if exc["post"] is not None:
                gotp = ob["posterior"][k]["chains"][cid]
                m = first_diff(gotp, exc["post"][k])
                if m is not None:
                    return (f"get_posterior_samples()[{k!r}], chain {cid}, index {m}: " + describe(cfg, cid, k, gotp, exc["post"][k], m), None)
        # transition infos: one per kernel and transition, never thinned
        for name, gi, wi in (("transition_infos", ob["infos"], exc["infos"]), ("posterior transition infos", ob["post_infos"], exc["post_infos"])):
            if (gi is None) != (wi is None):
                return (f"{name}: {'missing' if gi is None else 'present although no such epoch was sampled'}", None)
            if gi is not None:
                if sorted(gi.keys()) != [f"kernel_{i:02d}" for i in range(nk)]:
                    return (f"{name} has the kernels {sorted(gi.keys())}", None)
                rows = [[gi[f"kernel_{i:02d}"][cid][t] for i in range(nk)] for t in range(len(gi["kernel_00"][cid]))]
                m = first_diff(rows, wi)
                if m is not None:
                    return (f"{name}, chain {cid}: entry {m} is {rows[m] if m < len(rows) else 'missing'}, "
                            f"transition {m} is {wi[m] if m < len(wi) else 'none (only ' + str(len(wi)) + ' transitions)'} "
                            f"(stamp = ((chain*100000 + epoch*1000 + iteration)*4 + kernel)", None)
        if ob.get("infos_len_ok") is False:
            return ("transition info fields have different lengths", None)
        if bool(cfg["store_ks"]) != (ob["kstates"] is not None):
            return ("kernel_states " + ("missing although requested" if cfg["store_ks"] else "stored although not requested"), None)
        if ob["kstates"] is not None:
            if len(ob["kstates"]) != nk:
                return (f"kernel_states holds {len(ob['kstates'])} kernels", None)
            rows = [[(ob["kstates"][i]["last"][cid][t], ob["kstates"][i]["ntrans"][cid][t], ob["kstates"][i]["nstart"][cid][t])
                     for i in range(nk)] for t in range(len(ob["kstates"][0]["last"][cid]))]
            m = first_diff(rows, exc["kstates"])
            if m is not None:
                return (f"kernel_states, chain {cid}: entry {m} is {rows[m] if m < len(rows) else 'missing'}, expected "
                        f"{exc['kstates'][m] if m < len(exc['kstates']) else 'nothing'} (last stamp, #transitions, #epochs started)", None)
        if (ng > 0) != (ob["quants"] is not None):
            return ("generated_quantities " + ("missing" if ng else "present without generators"), None)
        if ng > 0:
            def qrows(q):
                return [[(q[f"gen{g + 1}"]["val"][cid][t], q[f"gen{g + 1}"]["ep"][cid][t]) for g in range(ng)]
                        for t in range(len(q["gen1"]["val"][cid]))]
            if sorted(ob["quants"].keys()) != [f"gen{g + 1}" for g in range(ng)]:
                return (f"generated_quantities holds {sorted(ob['quants'].keys())}", None)
            rows = qrows(ob["quants"])
            m = first_diff(rows, exc["quants"])
            if m is not None:
                return (f"generated_quantities, chain {cid}: entry {m} is {rows[m] if m < len(rows) else 'missing'}, expected "
                        f"{exc['quants'][m] if m < len(exc['quants']) else 'nothing'} (value = state stamp*2+gen, epoch*1000+time_in_epoch)", None)
            if (ob["post_quants"] is None) != (exc["post_quants"] is None):
                return ("posterior generated quantities: presence differs from the presence of a posterior epoch", None)
            if exc["post_quants"] is not None:
                rows = qrows(ob["post_quants"])
                m = first_diff(rows, exc["post_quants"])
                if m is not None:
                    return (f"posterior generated quantities, chain {cid}: entry {m} differs", None)
    if key_problem:
        fallback = (not doc_tracked(cfg)) and got_keys == sorted(set(kernel_keys(cfg)))
        return (key_problem, KNOWN_KLASS if fallback else None)
    return None


def first_diff(a, b):
    a = [list(x) if isinstance(x, (list, tuple)) else x for x in a]
    b = [list(x) if isinstance(x, (list, tuple)) else x for x in b]
    a = json.loads(json.dumps(a))
    b = json.loads(json.dumps(b))
    for i in range(max(len(a), len(b))):
        if i >= len(a) or i >= len(b) or a[i] != b[i]:
            return i
    return None


def decode(cfg, v):
    """which (chain, epoch, iteration) wrote the first entry v of a kernel-controlled key"""
    if v < 0:
        return "the initial value"
    sv = (v // 8) // 4
    return f"iteration {sv % 1000} of epoch {(sv // 1000) % 100} (chain {sv // 100000}, previous writer {(v // 8) % 4})"


def describe(cfg, cid, k, got, want, m):
    g = got[m] if m < len(got) else None
    w = want[m] if m < len(want) else None
    if g is None:
        return f"missing (the chain has {len(got)} entries, {len(want)} states are to be stored)"
    if w is None:
        return f"an extra entry {g} (the chain has {len(got)} entries, {len(want)} states are to be stored)"
    if k in kernel_keys(cfg):
        return f"stored {g} = state after {decode(cfg, g[0])}; the state to be stored there is {w} = {decode(cfg, w[0])}"
    return f"stored {g}, the state after the corresponding iteration has {w}"


SHAPE_NAMES = list(kit.SHAPES)


def gen_sched(rnd, base=1, nwarm=None, npost=None, thins=(1, 1, 2, 3, 5), maxk=6):
    nwarm = rnd.randint(0, 3) if nwarm is None else nwarm
    npost = rnd.choice([0, 1, 1, 1, 2, 3]) if npost is None else npost
    if nwarm + npost == 0:
        npost = 1
    eps = [[0, 1, 1]]
    for j in range(nwarm + npost):
        ty = rnd.choice([1, 2, 3]) if j < nwarm else 4
        for _ in range(50):
            dur = base * rnd.randint(1, maxk)
            th = rnd.choice(thins)
            if th <= dur and (ty != 4 or dur % th == 0):
                break
        else:
            th = 1
        eps.append([ty, dur, th])
    return eps


def gen_layout(rnd, nk=None):
    nk = rnd.choice([1, 2, 2, 3]) if nk is None else nk
    names = ["p1", "p2", "p3", "p4", "p5"]
    rnd.shuffle(names)
    kernels, used = [], 0
    for i in range(nk):
        n = 1 if rnd.random() < 0.7 else 2
        kernels.append([[names[used + j], rnd.choice(SHAPE_NAMES)] for j in range(n)])
        used += n
        if used >= 4:
            break
    extra = [["x", rnd.choice(SHAPE_NAMES)]] if rnd.random() < 0.6 else []
    return kernels, extra


def gen_sel(rnd, kernels, extra, kind):
    kk = [k for ks in kernels for k, _ in ks]
    others = ["c", "acc", "junk", "cid"] + [k for k, _ in extra]
    if kind == "default":
        return [], []
    if kind == "incl":
        return rnd.sample(others, rnd.randint(1, 3)), []
    if kind == "excl_one":
        return rnd.sample(others, rnd.randint(0, 2)) or ["c"], [rnd.choice(kk)]
    if kind == "incl_excl_overlap":
        inc = rnd.sample(others, 2)
        return inc, [inc[0]]
    if kind == "incl_dup_kernel_key":
        return [kk[0], "c"], []
    if kind == "excl_unknown":
        return ["acc"], ["nosuchkey"]
    if kind == "excl_all_kernel_keys_incl_other":
        return ["c", "acc"], list(kk)
    if kind == "all_excluded":
        return [], list(kk)
    if kind == "all_excluded_incl_too":
        return [kk[0]], list(kk)
    raise ValueError(kind)


def divisors(n):
    return [d for d in range(1, n + 1) if n % d == 0]


def sched_gcd(eps):
    return math.gcd(*[e[1] for e in eps[1:]]) if len(eps) > 1 else 0


def gen_b(ctx, rnd):
    """list of (cfg, stratum, family) - a family is a set of configurations that must give identical results"""
    out = []
    fam = itertools.count()

    def add(cfg, stratum, family=None):
        cfg = copy.deepcopy(cfg)
        cfg.setdefault("extra", [])
        cfg.setdefault("driver", "all")
        cfg.setdefault("chunk", None)
        cfg.setdefault("seed", 1)
        out.append((cfg, stratum, family))

    # ---- corpus (always first) ----
    probe = {"epochs": [[0, 1, 1], [1, 6, 2], [3, 5, 3], [2, 7, 3], [4, 4, 1]], "nchains": 2,
             "kernels": [[["p1", "v3"]], [["p2", "m22"]]], "extra": [["x", "s"]], "incl": ["c", "x", "acc"], "excl": ["p2"],
             "ngens": 2, "store_ks": True}
    add(probe, "B.corpus_design_probe")
    add({"epochs": [[0, 1, 1]], "nchains": 2, "kernels": [[["p1", "s"]]], "incl": ["c"], "excl": [], "ngens": 1, "store_ks": True},
        "B.corpus_initial_epoch_only")
    # chunk 3 with thinning 2 (counter must carry over chunk borders), warm-up durations not multiples of the thinning
    f = next(fam)
    base = {"epochs": [[0, 1, 1], [1, 9, 2], [2, 15, 5], [3, 9, 2], [4, 6, 2], [4, 12, 3]], "nchains": 2,
            "kernels": [[["p1", "s"]], [["p2", "v3"], ["p3", "m23"]]], "incl": ["c", "acc"], "excl": [], "ngens": 1, "store_ks": True}
    add(base, "B.corpus_chunk3_thin2", f)
    add(dict(base, chunk=1), "B.explicit_chunk", f)
    add(dict(base, chunk=3, driver="step"), "B.explicit_chunk", f)
    # the known finding: every kernel key excluded, nothing included
    add({"epochs": [[0, 1, 1], [1, 4, 2], [4, 4, 1]], "nchains": 1, "kernels": [[["p1", "s"]], [["p2", "v3"]]],
         "incl": [], "excl": ["p1", "p2"], "ngens": 0, "store_ks": False}, "B.sel_all_excluded")
    # a jitted duration that does not divide: RuntimeError
    add({"epochs": [[0, 1, 1], [1, 4, 1], [4, 6, 1]], "nchains": 1, "kernels": [[["p1", "s"]]], "incl": [], "excl": [],
         "ngens": 0, "store_ks": False, "chunk": 4}, "B.error_chunk_not_dividing")

    # two posterior epochs with EQUAL configurations, also handed over later with append_epoch
    f = next(fam)
    eq = {"epochs": [[0, 1, 1], [1, 4, 2], [4, 4, 2], [4, 4, 2]], "nchains": 2, "kernels": [[["p1", "v3"]], [["p2", "s"]]],
          "incl": ["c", "acc"], "excl": [], "ngens": 1, "store_ks": True}
    add(eq, "B.equal_posterior_epochs", f)
    add(dict(eq, chunk=2, driver="append:3:each"), "B.append_epoch_history", f)
    add(dict(eq, chunk=4, driver="append:2:bulk"), "B.append_epoch_history", f)

    # a user-defined ModelInterface whose tracked quantities are COMPUTED per chain (cumulative sum, centring), initial
    # states that differ between the chains: index 0 must be extract_position of each chain's own initial state
    add({"epochs": [[0, 1, 1], [1, 4, 2], [4, 3, 1]], "nchains": 3, "iface": "derived",
         "kernels": [[["p1", "v3"]], [["p2", "s"]]], "extra": [["x", "m22"]],
         "incl": ["cs_p1", "ct_p1", "cs_p2", "ct_p2", "ct_x", "cs_cid", "acc"], "excl": [], "ngens": 1, "store_ks": False},
        "B.computed_tracked_quantities")
    # an excluded key owned by a kernel that declares needs_history (builder path and explicit position_keys)
    nh = {"epochs": [[0, 1, 1], [2, 4, 2], [1, 2, 1], [4, 4, 2]], "nchains": 2, "kernels": [[["p1", "v3"]], [["p2", "s"], ["p3", "v1"]]],
          "needs_hist": [False, True], "incl": ["acc"], "excl": ["p2"], "ngens": 0, "store_ks": True}
    add(nh, "B.sel_excluded_key_of_history_kernel")
    add(dict(nh, chunk=2, excl=["p2", "p3", "p1"], incl=["c"]), "B.sel_excluded_key_of_history_kernel")

    # several builders in one process, some configured in place (.append / .extend on the attribute lists), others left
    # at their defaults or given fresh lists, created / configured in varying order: each engine follows ITS OWN selection
    sess = {"epochs": [[0, 1, 1], [1, 2, 1], [4, 2, 1]], "nchains": 1, "kernels": [[["p1", "s"]], [["p2", "v3"]]],
            "ngens": 0, "store_ks": False}
    add(dict(sess, incl=[], excl=[], sel_mode="default",
             session=[{"when": "before_create", "incl": ["c"], "excl": ["p2"], "mode": "append"}]), "B.session_several_builders")
    add(dict(sess, incl=["acc"], excl=["p1"], sel_mode="append",
             session=[{"when": "after_create", "incl": ["junk", "c"], "excl": ["p2"], "mode": "extend"},
                      {"when": "before_create", "incl": ["cid"], "excl": [], "mode": "assign"}]), "B.session_several_builders")
    add(dict(sess, incl=[], excl=[], sel_mode="default",
             session=[{"when": "after_config", "incl": ["acc"], "excl": [], "mode": "extend"},
                      {"when": "after_create", "incl": [], "excl": ["p1"], "mode": "append"}]), "B.session_several_builders")

    # ---- forced strata ----
    n_rounds = 1 if ctx.quick else 8
    sel_kinds = ["default", "incl", "excl_one", "incl_excl_overlap", "incl_dup_kernel_key", "excl_unknown",
                 "excl_all_kernel_keys_incl_other", "all_excluded_incl_too"]
    for r in range(n_rounds):
        # selections
        for kind in sel_kinds:
            kernels, extra = gen_layout(rnd, nk=rnd.choice([2, 3]))
            incl, excl = gen_sel(rnd, kernels, extra, kind)
            add({"epochs": gen_sched(rnd, maxk=5), "nchains": rnd.choice([1, 2]), "kernels": kernels, "extra": extra,
                 "incl": incl, "excl": excl, "ngens": rnd.choice([0, 1]), "store_ks": rnd.random() < 0.3}, "B.sel_" + kind)
        # thinning strata
        for name, mk in [
            ("warmup_dur_not_multiple_of_thin", lambda: [[0, 1, 1], [1, rnd.choice([5, 7]), rnd.choice([2, 3])], [2, rnd.choice([7, 8]), rnd.choice([3, 5])],
                                                         [3, 5, 2], [4, 6, rnd.choice([2, 3])]]),
            ("thin_equals_dur", lambda: [[0, 1, 1], [1, 3, 3], [3, 5, 5], [4, 4, 4]]),
            ("no_posterior", lambda: gen_sched(rnd, nwarm=rnd.randint(1, 3), npost=0, thins=(2, 3, 1))),
            ("three_posterior", lambda: gen_sched(rnd, nwarm=rnd.randint(0, 1), npost=3, thins=(1, 2, 3))),
            ("posterior_only", lambda: gen_sched(rnd, nwarm=0, npost=rnd.randint(1, 2), thins=(2, 3, 5))),
            ("duration_one_epochs", lambda: [[0, 1, 1], [1, 1, 1], [3, 1, 1], [4, 1, 1], [4, 2, 2]]),
        ]:
            kernels, extra = gen_layout(rnd)
            add({"epochs": mk(), "nchains": rnd.choice([1, 2, 3]), "kernels": kernels, "extra": extra,
                 "incl": rnd.sample(["c", "acc"], rnd.randint(1, 2)), "excl": [], "ngens": rnd.choice([0, 1, 2]),
                 "store_ks": rnd.random() < 0.5, "driver": rnd.choice(["all", "step"])}, "B.thin_" + name)
        # chunk families: gcd > 1, every divisor as explicit jitted duration, both drivers
        for _ in range(1 if ctx.quick else 2):
            g = rnd.choice([2, 3, 4, 6])
            eps = gen_sched(rnd, base=g, nwarm=rnd.randint(1, 2), npost=rnd.randint(1, 2), thins=(1, 2, 3, 5), maxk=3)
            kernels, extra = gen_layout(rnd)
            cfg = {"epochs": eps, "nchains": rnd.choice([1, 2]), "kernels": kernels, "extra": extra, "incl": ["c", "acc"], "excl": [],
                   "ngens": rnd.choice([1, 2]), "store_ks": True}
            f = next(fam)
            add(cfg, "B.chunk_builder_gcd", f)
            ds = divisors(sched_gcd(eps))
            for d in (ds if not ctx.quick else ds[:1] + ds[-2:-1]):
                add(dict(cfg, chunk=d, driver=rnd.choice(["all", "step"])), "B.explicit_chunk", f)
        # equal epoch configurations (warm-up and posterior), batch and append_epoch histories
        th = rnd.choice([1, 2, 3])
        d = th * rnd.randint(1, 3)
        wd, wth = rnd.choice([(4, 2), (3, 1), (6, 3), (5, 2)])
        eps = [[0, 1, 1]] + [[rnd.choice([1, 3]), wd, wth]] * rnd.randint(1, 2) + [[4, d, th]] * rnd.randint(2, 3)
        kernels, extra = gen_layout(rnd)
        cfg = {"epochs": eps, "nchains": rnd.choice([1, 2]), "kernels": kernels, "extra": extra, "incl": ["c", "acc"], "excl": [],
               "ngens": rnd.choice([0, 1]), "store_ks": rnd.random() < 0.5}
        f = next(fam)
        add(cfg, "B.equal_posterior_epochs", f)
        g = sched_gcd(eps)
        k = rnd.randint(1, len(eps) - 1)
        add(dict(cfg, chunk=rnd.choice(divisors(g)), driver=f"append:{k}:{rnd.choice(['each', 'bulk'])}"), "B.append_epoch_history", f)
        if r > 0:
            # sessions of several builders, randomised
            kernels, extra = gen_layout(rnd, nk=2)
            kk = [k for ks in kernels for k, _ in ks]
            pool = ["c", "acc", "junk", "cid"] + [k for k, _ in extra]
            mode = rnd.choice(["default", "default", "append", "extend", "assign"])
            incl = [] if mode == "default" else rnd.sample(pool, rnd.randint(1, 2))
            excl = [] if mode == "default" else rnd.sample(kk, rnd.randint(0, 1))
            session = [{"when": rnd.choice(["before_create", "after_create", "after_config"]),
                        "incl": rnd.sample(pool, rnd.randint(0, 2)), "excl": rnd.sample(kk, rnd.randint(0, 1)),
                        "mode": rnd.choice(["append", "extend", "append", "assign"])} for _ in range(rnd.randint(1, 3))]
            add({"epochs": gen_sched(rnd, maxk=3), "nchains": rnd.choice([1, 2]), "kernels": kernels, "extra": extra, "incl": incl,
                 "excl": excl, "sel_mode": mode, "session": session, "ngens": 0, "store_ks": False}, "B.session_several_builders")
            # computed tracked quantities / history-needing kernels, randomised
            kernels, extra = gen_layout(rnd, nk=rnd.choice([1, 2]))
            kk = [k for ks in kernels for k, _ in ks] + [k for k, _ in extra] + ["cid", "c"]
            incl = [rnd.choice(["cs_", "ct_"]) + k for k in rnd.sample(kk, min(len(kk), rnd.randint(2, 4)))]
            add({"epochs": gen_sched(rnd, maxk=4), "nchains": rnd.choice([2, 3]), "iface": "derived", "kernels": kernels, "extra": extra,
                 "incl": incl, "excl": [], "ngens": 0, "store_ks": False, "driver": rnd.choice(["all", "step"])},
                "B.computed_tracked_quantities")
            kernels, extra = gen_layout(rnd, nk=rnd.choice([2, 3]))
            needs = [rnd.random() < 0.6 for _ in kernels]
            needs[rnd.randrange(len(needs))] = True
            own = [k for ks, n in zip(kernels, needs) if n for k, _ in ks]
            eps = gen_sched(rnd, nwarm=rnd.randint(1, 2), npost=1, maxk=4)
            g = sched_gcd(eps)
            add({"epochs": eps, "nchains": rnd.choice([1, 2]), "kernels": kernels, "extra": extra, "needs_hist": needs,
                 "incl": ["acc"], "excl": [rnd.choice(own)], "ngens": 0, "store_ks": False,
                 "chunk": rnd.choice([None, g])}, "B.sel_excluded_key_of_history_kernel")
        # shapes: every payload shape controlled by some kernel and tracked
        kernels = [[[f"p{i + 1}", s] for i, s in enumerate(SHAPE_NAMES[:3])], [[f"p{i + 4}", s] for i, s in enumerate(SHAPE_NAMES[3:])]]
        add({"epochs": gen_sched(rnd, maxk=4, thins=(1, 2)), "nchains": 2, "kernels": kernels, "extra": [["x", "m42"]],
             "incl": ["x"], "excl": [], "ngens": 0, "store_ks": False}, "B.shapes_all")
        # error stratum
        eps = gen_sched(rnd, base=2, nwarm=1, npost=1, thins=(1, 2), maxk=3)
        bad = next((c for c in (3, 4, 5, 7) if any(e[1] % c for e in eps[1:])), 5)
        add({"epochs": eps, "nchains": 1, "kernels": [[["p1", "s"]]], "incl": [], "excl": [], "ngens": 0, "store_ks": False,
             "chunk": bad}, "B.error_chunk_not_dividing")
    # ---- random ----
    n_rand = 6 if ctx.quick else 120
    for i in range(n_rand):
        kernels, extra = gen_layout(rnd)
        kind = rnd.choice(sel_kinds[:6])
        incl, excl = gen_sel(rnd, kernels, extra, kind)
        base = rnd.choice([1, 1, 2, 3])
        add({"epochs": gen_sched(rnd, base=base, maxk=6 if base == 1 else 4), "nchains": rnd.choice([1, 2, 3]), "kernels": kernels,
             "extra": extra, "incl": incl, "excl": excl, "ngens": rnd.choice([0, 1, 2]), "store_ks": rnd.random() < 0.5,
             "driver": rnd.choice(["all", "step"])}, "B.random")
    return out


def run_b(ctx, plan):
    cases = []
    for cfg, stratum, family in plan:
        ob = kit.run_config(cfg)
        cases.append({"part": "B", "cfg": cfg, "obs": ob, "stratum": stratum, "family": family})
        ctx.hist(stratum)
        ctx.hist("B.max_thinning=%d" % max(e[2] for e in cfg["epochs"]))
        ctx.hist("B.chains=%d" % cfg["nchains"])
        ctx.hist("B.kernels=%d" % len(cfg["kernels"]))
        ctx.hist("B.driver=" + cfg["driver"])
        g = sched_gcd(cfg["epochs"])
        c = cfg["chunk"] if cfg["chunk"] is not None else g
        if c and any(e[2] > 1 and c % e[2] != 0 and e[1] > c for e in cfg["epochs"][1:]):
            ctx.hist("B.thinning_counter_crosses_chunk_border")
    return cases


def pos_lit(p, cid):
    return lst(f"({strlit(k)}, {lst(zl(v) for v in p[k]['chains'][cid])})" for k in sorted(p))


def cobs_lit(cfg, ob, cid):
    nk, ng = len(cfg["kernels"]), cfg["ngens"]

    def infos(gi):
        T = len(gi["kernel_00"][cid]) if nk else 0
        return lst(zl(gi[f"kernel_{i:02d}"][cid][t] for i in range(nk)) for t in range(T))

    def kst(ks):
        T = len(ks[0]["last"][cid])
        return lst(lst(f"({zlit(ks[i]['last'][cid][t])}, {zlit(ks[i]['ntrans'][cid][t])}, {zlit(ks[i]['nstart'][cid][t])})"
                       for i in range(len(ks))) for t in range(T))

    def qs(q):
        T = len(q["gen1"]["val"][cid])
        return lst(lst(f"({zlit(q[f'gen{g + 1}']['val'][cid][t])}, {zlit(q[f'gen{g + 1}']['ep'][cid][t])})" for g in range(ng))
                   for t in range(T))

    return "(mkCO {s} {p} {i} {pi} {k} {q} {pq})".format(
        s=pos_lit(ob["samples"], cid), p=opt(ob["posterior"], lambda p: pos_lit(p, cid)),
        i=opt(ob["infos"], infos), pi=opt(ob["post_infos"], infos),
        k=("None" if ob["kstates"] is None else f"(Some (Some {kst(ob['kstates'])}))"),
        q=("None" if ob["quants"] is None else f"(Some (Some {qs(ob['quants'])}))"),
        pq=("None" if ob["quants"] is None else f"(Some {opt(ob['post_quants'], qs)})"))


def e2e_lit(case):
    cfg, ob = case["cfg"], case["obs"]
    err = bool(ob.get("error"))
    try:
        chains = [] if (err or ob.get("undecodable")) else [cobs_lit(cfg, ob, cid) for cid in range(cfg["nchains"])]
    except (KeyError, IndexError, TypeError, AttributeError):
        chains = []          # malformed observation: no chain to compare, agrees_e2e is false
    return "(mkX {sched} {chunk} {kers} {extra} {incl} {excl} {ng} {st} {err} {chains})".format(
        sched=lst(econf(e) for e in cfg["epochs"]),
        chunk=opt(cfg["chunk"], natlit),
        kers=lst(lst(f"({strlit(k)}, {natlit(kit.size_of(s))})" for k, s in ks) for ks in cfg["kernels"]),
        extra=lst(f"({strlit(k)}, {natlit(kit.size_of(s))})" for k, s in cfg["extra"]),
        incl=lst(strlit(k) for k in cfg["incl"]), excl=lst(strlit(k) for k in cfg["excl"]),
        ng=natlit(cfg["ngens"]), st=blit(cfg["store_ks"]), err=blit(err), chains=lst(chains))


def emit_b(ctx, cases, per=6):
    paths = []
    for k in range(0, len(cases), per):
        rows = [e2e_lit(c) for c in cases[k:k + per]]
        txt = HEADER + f"""
Definition cases : list e2e := {lst(rows)}.
Lemma shard_ok : forallb agrees_e2e cases = true.
Proof. vm_compute. reflexivity. Qed.
"""
        paths.append((ctx.new_shard(txt, f"cases_B{k // per:03d}"), list(range(k, min(k + per, len(cases)))), "agrees_e2e"))
    return paths


def diagnose(ctx, path, pred):
    """indices (within the shard) of the cases on which model and observation disagree"""
    src = open(path).read()
    src = src[:src.index("Lemma shard_ok")]
    ok, out = ctx.coq_eval(src + f"\nEval vm_compute in (map {pred} cases).\n")
    m = re.search(r"=\s*\[(.*?)\]\s*:\s*list bool", out, re.S)
    if not m:
        return None
    vals = [t.strip() for t in m.group(1).replace("\n", " ").split(";") if t.strip()]
    return [i for i, v in enumerate(vals) if v != "true"]


def oracle_families(cases):
    """part C: identical results for every admissible jitted duration / driver"""
    fams = {}
    for c in cases:
        if c["family"] is not None and not c["obs"].get("error"):
            fams.setdefault(c["family"], []).append(c)
    fails = []
    for f, cs in fams.items():
        ref = json.dumps(cs[0]["obs"], sort_keys=True)
        for c in cs[1:]:
            if json.dumps(c["obs"], sort_keys=True) != ref:
                fails.append({"why": f"results depend on the jitted duration / driver: chunk={cs[0]['cfg']['chunk']} ({cs[0]['cfg']['driver']}) "
                                     f"vs chunk={c['cfg']['chunk']} ({c['cfg']['driver']}) on the same configuration with key-ignoring kernels",
                              "part": "C", "cfgs": [cs[0]["cfg"], c["cfg"]]})
                break
    return fails, sum(len(v) for v in fams.values()), len(fams)


# =============================================================================================
def run(ctx) -> int:
    quiet()
    rnd = random.Random(ctx.seed)
    built = ctx.coq_build()
    thm_ok = built and ctx.check_property_file()
    if not built:
        ctx.broken.append("coq build (make) failed")
    forb = ctx.forbidden_scan()
    if forb:
        ctx.broken.append("forbidden constructs: " + "; ".join(forb[:5]))

    import time
    t0 = time.time()
    common.log(f"[C08] build + property file: {t0 - ctx.t0:.1f}s")
    a_cases = gen_a(ctx, rnd)
    common.log(f"[C08] part A: {len(a_cases)} scripts in {time.time() - t0:.1f}s")
    t1 = time.time()
    plan = gen_b(ctx, rnd)
    b_cases = run_b(ctx, plan)
    common.log(f"[C08] part B: {len(b_cases)} engine runs in {time.time() - t1:.1f}s")
    t2 = time.time()

    fails = []            # (why, replay, klass)
    for c in a_cases:
        r = oracle_a(c)
        if r:
            fails.append((r, {"case": {"part": "A", "script": c["script"]}, "observed": c["obs"]}, None))
    for c in b_cases:
        r = oracle_b(c)
        if r:
            fails.append((r[0], {"case": {"part": "B", "cfg": c["cfg"]}, "oracle": r[0], "stratum": c["stratum"]}, r[1]))
    fam_fails, n_fam_runs, n_fams = oracle_families(b_cases)
    for f in fam_fails:
        fails.append((f["why"], {"case": f}, None))
    ctx.hist("C.families", n_fams)
    ctx.hist("C.runs_compared", n_fam_runs)

    disagree = []
    if built:
        shards = emit_a(ctx, a_cases) + emit_b(ctx, b_cases)
        res = ctx.compile_shards([p for p, _, _ in shards])
        for p, idxs, pred in shards:
            ok, out = res[p]
            if ok:
                continue
            name = p.split("/")[-1]
            common.log(f"shard {p} failed:\n{out[-600:]}")
            bad = None
            try:
                bad = diagnose(ctx, p, pred)
                if bad == [] and pred == "agrees_chain":
                    bad = diagnose(ctx, p, "agrees_chain_spec")
            except Exception as ex:          # diagnostics are best effort
                common.log("diagnose failed:", repr(ex))
            pool = a_cases if pred != "agrees_e2e" else b_cases
            for j in (bad if bad else range(min(len(idxs), 3))):
                c = pool[idxs[j]]
                disagree.append({"shard": name, "case": {k: c[k] for k in ("part", "script", "cfg") if k in c}})
            ctx.broken.append(f"correspondence lemma shard_ok in {name}")

    common.log(f"[C08] oracles + shards: {time.time() - t2:.1f}s")
    # second tie between model and code: the source of chain.py (ListChain, ListEpochChain, EpochChainManager) is
    # translated to Gallina now and proved equal to the model (c08_tie.py).  A broken source tie alone is no alarm
    # (a refactoring may leave the translated subset); it is named beside a behavioural disagreement.
    t3 = time.time()
    if built:
        try:
            tie = c08_tie.run(ctx, common.REPO)
        except Exception as ex:      # optional evidence: never turns into an alarm by itself
            tie = {"translated": [], "lemmas_ok": False, "lemmas": [], "not_tied": {"all": f"{type(ex).__name__}: {ex}"},
                   "detail": "SOURCE TIE BROKEN: the tie step aborted; the verdict rests on the behavioural correspondence"}
        for sec in sorted(tie["not_tied"]):
            ctx.hist("T.source_tie_broken." + sec)
        ctx.hist("T.source_tie_lemmas", len(tie["lemmas"]))
        if not tie["lemmas_ok"] and (disagree or any(f[2] is None for f in fails)):   # known findings are no disagreement
            ctx.broken.append("source tie (py2gallina_c08): " + "; ".join(f"{k}: {v}" for k, v in sorted(tie["not_tied"].items()))[:600])
    else:
        tie = {"translated": [], "lemmas_ok": False, "detail": "not attempted: the Coq build failed"}
    ctx.cov["source_tie"] = tie
    common.log(f"[C08] source tie: {time.time() - t3:.1f}s, lemmas_ok={tie['lemmas_ok']}")
    na, nb = len(a_cases), len(b_cases)
    distinct = len({json.dumps(c["script"], sort_keys=True) for c in a_cases}) + \
        len({json.dumps(c["cfg"], sort_keys=True) for c in b_cases})
    ctx.count(na + nb, distinct)
    ctx.cov["rule"] = ("A: distinct chain-manager scripts (epoch configs x chunk splits; every composition of every duration <= "
                       f"{6 if ctx.quick else 9} for every thinning is enumerated); B: distinct engine configurations (schedule, jitted "
                       "duration, driver, kernels/keys/payload shapes, included/excluded keys, generators, kernel-state storage, chains), "
                       "each run on the real Engine and re-evaluated by the Coq model per chain")
    ctx.cov["exhaustive_part_A"] = True
    ctx.sample({"part": "A", "script": a_cases[3]["script"], "observed_combine_all": a_cases[3]["obs"]["all"]})
    for c in b_cases[:2]:
        ctx.sample({"part": "B", "cfg": c["cfg"], "samples_c_chain0": (c["obs"].get("samples") or {}).get("c", {}).get("chains", [None])[0]})
    ctx.assume += ["valid (c0 :: rest) = true (the schedule is one the EpochManager accepts; C16_accept_iff_valid)",
                   "the jitted duration is positive and divides every epoch duration (C08_builder_chunk_ok shows the builder's gcd does)",
                   "C08_chunk_independent: kernels, generators and the kernel hooks ignore their PRNG key",
                   "C08_tracked_keys: the selection kernels' keys + included - excluded is not empty"]
    ctx.tested_not_proved += [
        "lax.scan = left fold, vmap = per-chain map, jit = identity (the engine model is per chain); checked on every run by comparing each chain of the real vmapped/jitted/scanned run with the model",
        "pytree slicing / concatenation of chunks (slice_leaves, concatenate_leaves) acts leafwise and chainwise: tested with two leaves and several chains in part A, all payload shapes in part B",
        "part C: identical results of the real engine for every admissible jitted duration and every driver - sample_all_epochs, sample_next_epoch one by one, epochs handed over later with append_epoch (tested on the generated families; the theorems are about the model run on the whole schedule, the call-trace version of incremental = batch is C07's)",
        "accessors are functions of the stored chains: every engine run and every chain-manager script reads all accessors, edits the returned containers in place (entry added / replaced / deleted) and reads again; the second read is what the model is compared with (aliasing is outside the functional model)",
        "no shared state between EngineBuilder objects: sessions of several builders in one process, configured in place (.append / .extend) or left at their defaults, in varying order; each engine's tracked keys follow its own configuration (object identity / aliasing is outside the functional model)",
        "a user-defined ModelInterface with computed tracked quantities (cumulative sum / centring per chain) and per-chain different initial states: index 0 and all later entries per chain against the model (vmap = per-chain map is modelled, not proved)",
        "payload shape of stored arrays equals the shape in the model state (tested; the model stores flattened payloads)"]
    ctx.extra_tb = ["harness stamp kernels / generators (harness/lv/c08_kit.py) and their Gallina counterparts (Goose/CorrC08.v: stamp_kernel, stamp_gen, c_pre, c_post)",
                    "DictInterface.extract_position / update_state are modelled as dictionary lookup / update",
                    "source tie: tools/py2gallina_c08.py (Python ast -> Gallina for ListChain, ListEpochChain and EpochChainManager of "
                    "chain.py; fails closed outside its subset), its library-call table (np.arange, %, ==, boolean-mask indexing, "
                    "tree_leaves(..)[0].shape[1], slice_leaves, concatenate_leaves, Option) with the semantics given in coq/Goose/GenC08Tie.v, "
                    "the view of a chunk as the list of its time slices, Python ints as unbounded Z; result of this run in coverage.source_tie "
                    "(advisory: the verdict rests on the behavioural correspondence)",
                    "the kernel lifecycle calls between sampling loops (start_epoch, end_epoch, tune, end_warmup) enter the C08 model as arbitrary hook functions that return kernel states only (their exact sequence is C07's subject)"]

    seen, per_part = set(), {}
    for why, rp, kl in fails:
        part = rp["case"].get("part")
        kind = (part, kl, re.sub(r"[0-9]+", "#", why)[:40])
        if kind in seen or per_part.get((part, kl), 0) >= 2:
            continue
        seen.add(kind)
        per_part[(part, kl)] = per_part.get((part, kl), 0) + 1
        ctx.violation(why, rp, True, kl)
    real_fail = [f for f in fails if f[2] is None]
    if (disagree or not thm_ok or forb) and not real_fail:
        found = search(ctx, rnd) if (disagree or not thm_ok) else []
        for why, rp in found[:2]:
            ctx.violation(why, rp, True, None)
        if not found:
            ctx.violation("; ".join(ctx.broken) or "correspondence disagreement",
                          {"broken": ctx.broken, "disagreeing_cases": disagree[:3]}, False, None)
    return ctx.finish()


def search(ctx, rnd):
    """widened property-directed search with the direct oracle only"""
    found = []
    sub = random.Random(rnd.random())

    class Q:        # a ctx stand-in whose histogram is thrown away
        quick = False

        def hist(self, *a, **k):
            pass
    q = Q()
    for c in gen_a(q, sub)[:1500]:
        r = oracle_a(c)
        if r:
            found.append((r, {"case": {"part": "A", "script": c["script"]}, "observed": c["obs"]}))
            break
    plan = gen_b(q, sub)
    sub.shuffle(plan)
    for cfg, stratum, _ in plan[:60]:
        ob = kit.run_config(cfg)
        r = oracle_b({"cfg": cfg, "obs": ob})
        if r and r[1] is None:
            found.append((r[0], {"case": {"part": "B", "cfg": cfg}, "oracle": r[0]}))
            break
    return found


def replay(rp) -> int:
    """re-run the recorded failing input on the real code and judge it with the direct oracle"""
    quiet()
    r = rp.get("replay", rp)
    c = r.get("case")
    if not c and r.get("disagreeing_cases"):
        c = r["disagreeing_cases"][0].get("case")
    if not c:
        print("replay file names no concrete input (broken lemma only):", r.get("broken"))
        return 0
    verdict = None
    if c.get("part") == "A":
        ob = run_script(c["script"])
        verdict = oracle_a({"script": c["script"], "obs": ob})
        print("script:", json.dumps(c["script"]))
        print("combine_all:", ob["all"], " posterior:", ob["post"])
    elif c.get("part") == "B":
        ob = kit.run_config(c["cfg"])
        v = oracle_b({"cfg": c["cfg"], "obs": ob})
        verdict = v[0] if v else None
        print("configuration:", json.dumps(c["cfg"]))
        if v and v[1]:
            print("(known finding class:", v[1] + ")")
    elif c.get("part") == "C":
        obs = [kit.run_config(cfg) for cfg in c["cfgs"]]
        if json.dumps(obs[0], sort_keys=True) != json.dumps(obs[1], sort_keys=True):
            verdict = c.get("why", "results depend on the jitted duration / driver")
        else:
            for cfg, ob in zip(c["cfgs"], obs):
                v = oracle_b({"cfg": cfg, "obs": ob})
                verdict = verdict or (v[0] if v else None)
        print("configurations:", json.dumps(c["cfgs"]))
    if verdict:
        print("REPLAY FAILS:", verdict)
        return 1
    print("replay passes on the current tree")
    return 0
