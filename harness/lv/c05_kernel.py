"""C05, kernel level: RWKernel / MHKernel / IWLSKernel transitions (public kernel.transition).

Every case drives one real transition of a kernel on a DictInterface target or on a small liesel model
and, next to it, computes the ingredients of the Metropolis-Hastings ratio independently of the
kernel (current / proposed log-prob through the model interface, the kernel's own correction: 0 for
RW, MHProposal.log_correction for MH, backward - forward Gaussian proposal log-density for IWLS, and
the uniform draw of the accept key).  Coq then evaluates the model
    kernel_transition Forward = mh_decide (prop - cur + corr)          (Goose/MHKernel.v)
on these ingredients and the shard lemma certifies that the kernel's transition info (error_code,
acceptance_prob, position_moved), the returned model state and the returned kernel state agree.
"""
from __future__ import annotations

import math
import random
from fractions import Fraction

from .common import lst, blit, natlit, qlit

NAN, INF = math.nan, math.inf
KINDS = {"rw": "KRW", "mh": "KMH", "iwls": "KIWLS"}
PARAMS = ["x0", "k", "t0", "t1", "a", "b", "corr", "step", "dcin", "dcprop"]
DEFAULT = {"x0": 0.25, "k": 1.0, "t0": 0.0, "t1": 0.0, "a": 1.0, "b": 1.0, "corr": 0.0, "step": 1.0, "dcin": 0.0, "dcprop": 0.0}
_FNS: dict = {}
_EPOCHS: dict = {}


# ------------------------------------------------------------------------------------------------
# value helpers
def xl(v) -> str:
    v = float(v)
    if math.isnan(v):
        return "XNaN"
    if math.isinf(v):
        return "XPosInf" if v > 0 else "XNegInf"
    return f"(XFin {qlit(Fraction(v))})"


def cls(v) -> str:
    v = float(v)
    return "nan" if math.isnan(v) else ("inf" if v == INF else ("-inf" if v == -INF else "fin"))


def f32sum(cur, prop, corr):
    import numpy as np
    with np.errstate(all="ignore"):
        return np.float32(np.float32(np.float32(prop) - np.float32(cur)) + np.float32(corr))


def exact_class(cur, prop, corr) -> str:
    """class of prop - cur + corr over exact rationals + IEEE specials (what the Coq model computes)"""
    def add(a, b):
        if "nan" in (cls(a), cls(b)):
            return NAN
        if cls(a) != "fin" or cls(b) != "fin":
            if cls(a) != "fin" and cls(b) != "fin":
                return a if a == b else NAN
            return a if cls(a) != "fin" else b
        return 0.0  # finite: class only
    return cls(add(add(prop, -cur), corr))


# ------------------------------------------------------------------------------------------------
# the real kernels and the independent ingredient computation
def _epoch(name):
    import liesel.goose as gs
    if name not in _EPOCHS:
        _EPOCHS[name] = gs.EpochConfig(getattr(gs.EpochType, name), 10, 1, None).to_state(0, 0)
    return _EPOCHS[name]


def _families():
    """family name -> (interface, make_state(params) , chol_of(state) or None, position getter, extra position)"""
    import jax.numpy as jnp
    import liesel.goose as gs
    import liesel.model as lsl
    import tensorflow_probability.substrates.jax.distributions as tfd

    fams = {}

    # D: DictInterface; smooth part -k x^2/2 plus an offset that depends on "is this the start position",
    # so that current / proposed log-prob take prescribed special values whatever the proposal is
    def lp(st):
        return -0.5 * st["k"] * st["x"] ** 2 + jnp.where(st["x"] == st["x0"], st["t"][0], st["t"][1])

    def dpat(code, base):
        # 4 derived entries off the log-prob path; base-4 digit i of code selects {finite, nan, +inf, -inf} for entry i
        code = code.astype(jnp.int32)
        ent = []
        for i in range(4):
            dig = (code // (4 ** i)) % 4
            ent.append(jnp.select([dig == 0, dig == 1, dig == 2], [jnp.float32(base + i), jnp.float32(jnp.nan), jnp.float32(jnp.inf)],
                                  jnp.float32(-jnp.inf)))
        return jnp.stack(ent)

    def mk_d(p):
        return {"x": p["x0"], "x0": p["x0"], "k": p["k"], "t": jnp.stack([p["t0"], p["t1"]]),
                "ch": jnp.stack([p["a"], p["b"]]), "corr": p["corr"], "aux": jnp.float32(7.0),
                "d": dpat(p["dcin"], 21.0), "dprop": dpat(p["dcprop"], 11.0), "n": jnp.int32(3), "flag": jnp.bool_(False)}

    def chol_d(st):
        return jnp.where(st["x"] == st["x0"], st["ch"][0], st["ch"][1]) * jnp.eye(1)

    # the MH kernel of family D proposes, besides x, new derived entries d, an int and a bool leaf
    fams["D"] = dict(model=gs.DictInterface(lp), mk=mk_d, chol=chol_d, getx=lambda st: st["x"],
                     getcorr=lambda st: st["corr"], keys=["x", "d", "n", "flag"],
                     extra=lambda st: {"d": st["dprop"], "n": st["n"] + 1, "flag": jnp.logical_not(st["flag"])})

    # liesel models: x ~ Cauchy (not log-concave: no Cholesky factor of the information for |x| > 1),
    # x ~ Uniform(0, 1) (zero density outside), x ~ Gamma(2, 1) (NaN log-prob for x < 0)
    for nm, dist in (("LC", lsl.Dist(tfd.Cauchy, loc=0.0, scale=1.0)),
                     ("LU", lsl.Dist(tfd.Uniform, low=0.0, high=1.0)),
                     ("LG", lsl.Dist(tfd.Gamma, concentration=2.0, rate=1.0))):
        x = lsl.param(jnp.float32(0.5), dist, name="x")
        corr = lsl.Var(jnp.float32(0.0), name="corr")
        # a cached derived quantity OFF the log-prob path, undefined on part of the parameter space:
        # x < 0: [nan, ., ., nan];  x == 0: [-inf, +inf, -inf, nan];  0 < x < 0.5: [., ., ., nan]
        derived = lsl.Var(lsl.Calc(lambda x: jnp.stack([jnp.log(x), 1.0 / x, -1.0 / x, jnp.sqrt(x - 0.5)]), x), name="derived")
        m = lsl.Model([x, corr, derived])
        itf = gs.LieselInterface(m)
        base = m.state

        def mk_l(p, itf=itf, base=base):
            return itf.update_state({"x": p["x0"], "corr": p["corr"]}, base)

        fams[nm] = dict(model=itf, mk=mk_l, chol=None,
                        getx=lambda st, itf=itf: itf.extract_position(["x"], st)["x"],
                        getcorr=lambda st, itf=itf: itf.extract_position(["corr"], st)["corr"])
    return fams


def _kernel(fam, kern):
    import jax
    import liesel.goose as gs
    F = fam
    if kern == "rw":
        k = gs.RWKernel(["x"], initial_step_size=1.0)
    elif kern == "mh":
        # forced proposal: deterministic shift by the step size, user supplied log_correction
        def proposal_fn(key, st, step):
            return gs.MHProposal({"x": F["getx"](st) + step, **(F["extra"](st) if "extra" in F else {})}, F["getcorr"](st))
        k = gs.MHKernel(F.get("keys", ["x"]), proposal_fn, initial_step_size=1.0)
    else:
        k = gs.IWLSKernel(["x"], chol_info_fn=F["chol"], initial_step_size=1.0)
    k.set_model(F["model"])
    return k


def _one_fn(famname, kern, epoch):
    """one(seed, *params) -> observations of the real kernel + independently computed ingredients"""
    import jax
    import jax.numpy as jnp
    from jax.scipy.stats import norm

    F = _FAMS()[famname]
    model = F["model"]
    k = _kernel(F, kern)
    ep = _epoch(epoch)

    def bits(x):
        x = jnp.asarray(x)
        if jnp.issubdtype(x.dtype, jnp.floating):
            return jax.lax.bitcast_convert_type(x.astype(jnp.float32), jnp.uint32)
        return x

    def one(seed, *pv):
        p = dict(zip(PARAMS, pv))
        st = F["mk"](p)
        key = jax.random.PRNGKey(seed)
        ks = k.init_state(key, st)
        ks = type(ks)(p["step"])
        ks_in = jax.tree_util.tree_leaves(ks)
        out = k.transition(key, ks, st, ep)
        # ---- independent ingredients ----
        key1, subkey = jax.random.split(key)
        u = jax.random.uniform(subkey)
        x0 = F["getx"](st)
        step = p["step"]
        lpx = lambda x: model.log_prob(model.update_state({"x": x}, st))
        cur = model.log_prob(st)
        zero = jnp.float32(0.0)
        user = fwd = bwd = zero
        if kern == "rw":
            xp = x0 + step * jax.random.normal(key1, (1,))[0]
        elif kern == "mh":
            xp = x0 + step
            user = F["getcorr"](st)
        else:
            score = jax.grad(lpx)
            if F["chol"] is not None:
                chol = lambda x: F["chol"](model.update_state({"x": x}, st))[0, 0]
            else:
                chol = lambda x: jnp.sqrt(-jax.grad(score)(x))
            a = chol(x0)
            mu = x0 + ((step ** 2) / 2) * (score(x0) / a / a)
            z = jax.random.normal(key1, (1,))[0]
            xp = mu + z / (a / step)
            fwd = norm.logpdf((xp - mu) * (a / step)) + jnp.log(a / step)
            b = chol(xp)
            mu_p = xp + ((step ** 2) / 2) * (score(xp) / b / b)
            bwd = norm.logpdf((x0 - mu_p) * (b / step)) + jnp.log(b / step)
        extra = F["extra"](st) if (kern == "mh" and "extra" in F) else {}
        stp = model.update_state({"x": xp, **extra}, st)
        prop = model.log_prob(stp)
        # ---- returned states ----
        lin, lout, lprop = (jax.tree_util.tree_leaves(t) for t in (st, out.model_state, stp))
        same_in = jnp.all(jnp.stack([jnp.all(bits(a_) == bits(b_)) for a_, b_ in zip(lin, lout)]))

        def close(a_, b_):
            a_, b_ = jnp.asarray(a_), jnp.asarray(b_)
            if not jnp.issubdtype(a_.dtype, jnp.floating):
                return jnp.all(a_ == b_)
            a_, b_ = a_.astype(jnp.float32), b_.astype(jnp.float32)
            return jnp.all((a_ == b_) | (jnp.isnan(a_) & jnp.isnan(b_))
                           | (jnp.abs(a_ - b_) <= 1e-4 * jnp.maximum(jnp.abs(b_), 1e-3)))
        close_prop = jnp.all(jnp.stack([close(a_, b_) for a_, b_ in zip(lout, lprop)]))
        # per leaf: differs from the proposed / from the input state (named in the failure message)
        _LEAFNAMES[famname] = [jax.tree_util.keystr(kp) for kp, _ in jax.tree_util.tree_flatten_with_path(st)[0]]
        dprop_mask = jnp.stack([~close(a_, b_) for a_, b_ in zip(lout, lprop)])
        din_mask = jnp.stack([~jnp.all(bits(a_) == bits(b_)) for a_, b_ in zip(lin, lout)])
        same_len = len(lin) == len(lout)
        ks_out = jax.tree_util.tree_leaves(out.kernel_state)
        ks_same = jnp.all(jnp.stack([jnp.all(bits(a_) == bits(b_)) for a_, b_ in zip(ks_in, ks_out)])) & (len(ks_in) == len(ks_out))
        prop_is_in = jnp.all(jnp.stack([jnp.all(bits(a_) == bits(b_)) for a_, b_ in zip(lin, lprop)]))
        f = lambda v: jnp.asarray(v, dtype=jnp.float32)
        # does the input / proposed state hold a non-finite entry besides the prescribed tables of family D?

        def nonfin(leaves):
            fl = [jnp.any(~jnp.isfinite(jnp.asarray(l_, dtype=jnp.float32))) for l_ in leaves
                  if jnp.issubdtype(jnp.asarray(l_).dtype, jnp.floating)]
            return jnp.any(jnp.stack(fl))
        if famname == "D":
            nf_in, nf_prop = jnp.any(~jnp.isfinite(st["d"])), jnp.any(~jnp.isfinite(stp["d"]))
        else:
            nf_in, nf_prop = nonfin(lin), nonfin(lprop)
        return (jnp.asarray(out.info.error_code, dtype=jnp.int32), f(out.info.acceptance_prob),
                jnp.asarray(out.info.position_moved, dtype=bool), f(F["getx"](out.model_state)),
                same_in & same_len, close_prop & same_len, ks_same, prop_is_in, nf_in, nf_prop,
                f(cur), f(prop), f(user), f(fwd), f(bwd), f(u), f(xp), dprop_mask, din_mask)
    return one


_FAMCACHE: dict = {}
_LEAFNAMES: dict = {}


def _FAMS():
    if not _FAMCACHE:
        _FAMCACHE.update(_families())
    return _FAMCACHE


def get_fn(fam, kern, epoch, jit=True):
    import jax
    key = (fam, kern, epoch, jit)
    if key not in _FNS:
        one = _one_fn(fam, kern, epoch)
        _FNS[key] = jax.jit(jax.vmap(one)) if jit else one
    return _FNS[key]


OBS = ["code", "p", "moved", "x_new", "same_in", "close_prop", "ks_same", "prop_is_in", "nf_in", "nf_prop",
       "cur", "prop", "user", "fwd", "bwd", "u", "xp", "dprop_mask", "din_mask"]


def fill(c, vals):
    """store the observations of one run into the case dict"""
    import numpy as np
    import jax.numpy as jnp
    o = dict(zip(OBS, vals))
    c["code"] = int(o["code"])
    c["moved"] = bool(o["moved"])
    for k in ("p", "x_new", "cur", "prop", "user", "fwd", "bwd", "u", "xp"):
        c[k] = repr(float(o[k]))
    same_in, close_prop = bool(o["same_in"]), bool(o["close_prop"])
    c["ambiguous"] = bool(o["prop_is_in"])
    c["nonfinite_entries_in_input_state"], c["nonfinite_entries_in_proposed_state"] = bool(o["nf_in"]), bool(o["nf_prop"])
    # 0 = input state bit for bit, 1 = the proposed state, 2 = neither
    c["sel"] = 0 if same_in else (1 if close_prop else 2)
    names = _LEAFNAMES.get(c["fam"], [])
    nm = lambda mask: [names[j] if j < len(names) else str(j) for j, b_ in enumerate(list(mask)) if bool(b_)]
    c["leaves_differing_from_proposed_state"] = nm(o["dprop_mask"])
    c["leaves_differing_from_input_state"] = nm(o["din_mask"])
    c["ks_ok"] = bool(o["ks_same"]) or c["epoch"] != "POSTERIOR"
    corr = {"rw": 0.0, "mh": float(c["user"])}.get(c["kern"])
    if corr is None:
        with np.errstate(all="ignore"):
            corr = float(np.float32(np.float32(float(c["bwd"])) - np.float32(float(c["fwd"]))))
    c["corr_used"] = repr(corr)
    l = f32sum(float(c["cur"]), float(c["prop"]), corr)
    c["l"] = repr(float(l))
    c["l_class_exact"] = exact_class(float(c["cur"]), float(c["prop"]), corr) if c["kern"] != "iwls" else \
        exact_class(float(c["cur"]), float(c["prop"]), exact_corr_iwls(float(c["bwd"]), float(c["fwd"])))
    with np.errstate(all="ignore"):
        e = float(jnp.exp(jnp.float32(-INF if math.isnan(float(l)) else l)))
    c["e"] = repr(e)
    return c


def exact_corr_iwls(bwd, fwd):
    if "nan" in (cls(bwd), cls(fwd)):
        return NAN
    if cls(bwd) != "fin" and cls(fwd) != "fin":
        return NAN if bwd == fwd else bwd
    if cls(bwd) != "fin":
        return bwd
    if cls(fwd) != "fin":
        return -fwd
    return 0.0


def run_cases(cases, jit=True):
    import jax.numpy as jnp
    import numpy as np
    groups: dict = {}
    for i, c in enumerate(cases):
        groups.setdefault((c["fam"], c["kern"], c["epoch"]), []).append(i)
    for (fam, kern, epoch), idxs in groups.items():
        fn = get_fn(fam, kern, epoch, jit)
        if jit:
            seeds = jnp.array([cases[i]["seed"] for i in idxs], dtype=jnp.uint32)
            cols = [jnp.array([np.float32(float(cases[i]["params"].get(k, DEFAULT[k]))) for i in idxs], dtype=jnp.float32) for k in PARAMS]
            outs = [np.asarray(o) for o in fn(seeds, *cols)]
            for j, i in enumerate(idxs):
                fill(cases[i], [o[j] for o in outs])
        else:
            for i in idxs:
                c = cases[i]
                vals = fn(jnp.uint32(c["seed"]), *[jnp.float32(float(c["params"].get(k, DEFAULT[k]))) for k in PARAMS])
                fill(c, [np.asarray(v) for v in vals])
    return cases


# ------------------------------------------------------------------------------------------------
def find_split_keys(nblocks):
    """seeds s with uniform(split(PRNGKey(s))[1]) exactly 0.0 resp. the largest float32 below 1"""
    import jax, jax.numpy as jnp, numpy as np

    @jax.jit
    def f(seeds):
        keys = jax.vmap(jax.random.PRNGKey)(seeds)
        sub = jax.vmap(lambda k: jax.random.split(k)[1])(keys)
        return jax.vmap(jax.random.uniform)(sub)

    z, m = [], []
    for blk in range(nblocks):
        seeds = jnp.arange(blk * 2 ** 22, (blk + 1) * 2 ** 22, dtype=jnp.uint32)
        us = np.asarray(f(seeds))
        sd = np.asarray(seeds)
        z += [int(s) for s in sd[us == 0.0]]
        m += [int(s) for s in sd[us >= np.float32(1 - 2 ** -23)]]
    return z, m


SPLIT_ZERO_SEEDS: list = [5529654, 6086336, 11924198]   # corpus from an offline search (re-verified on every run)
SPLIT_MAX_SEEDS: list = [7870890, 11206488]


def generate(ctx, rnd: random.Random):
    import jax, jax.numpy as jnp, numpy as np
    zk, mk = find_split_keys(2 if ctx.quick else 16)
    # corpus seeds are re-verified (a changed PRNG implementation would silently void the stratum)
    for s in SPLIT_ZERO_SEEDS + SPLIT_MAX_SEEDS:
        uu = float(jax.random.uniform(jax.random.split(jax.random.PRNGKey(s))[1]))
        if uu == 0.0:
            zk.append(s)
        elif uu >= 1 - 2 ** -23:
            mk.append(s)
    zk, mk = sorted(set(zk)), sorted(set(mk))
    ctx.hist("kernel.keys.uniform_exactly_0", len(zk))
    ctx.hist("kernel.keys.uniform_max", len(mk))

    def seeds3():
        s = [rnd.randrange(2 ** 31)]
        if zk:
            s.append(rnd.choice(zk))
        if mk:
            s.append(rnd.choice(mk))
        return s

    cases = []

    def add(fam, kern, epoch, seed, **kw):
        p = dict(DEFAULT)
        p.update(kw)
        cases.append({"kind": "kernel", "fam": fam, "kern": kern, "epoch": epoch, "seed": int(seed),
                      "params": {k: repr(float(np.float32(v))) for k, v in p.items()}})

    SP = [0.0, -INF, INF, NAN]
    fin = lambda: rnd.randint(-32, 32) / 8
    # --- D / MH kernel: all special-value combinations of (current, proposed, user correction) ---
    for t0 in SP + [fin()]:
        for t1 in SP + [fin()]:
            for corr in SP + [fin()]:
                for s in seeds3():
                    add("D", "mh", "POSTERIOR", s, t0=t0, t1=t1, corr=corr, dcin=rnd.choice([0, rnd.randrange(256)]),
                        dcprop=rnd.choice([228, 57, rnd.randrange(256)]))
    # --- D / RW kernel: (current, proposed) ---
    for t0 in SP + [fin()]:
        for t1 in SP + [fin()]:
            for s in seeds3():
                add("D", "rw", "POSTERIOR", s, t0=t0, t1=t1, step=rnd.choice([0.5, 1.0, 2.0]), dcin=rnd.randrange(256))
    # --- D / IWLS kernel: Cholesky factor of the information at the current (a) / proposed (b) position.
    #     b = NaN, inf, 0, -1: backward density NaN;  b = 1e30: backward density -inf;  a = NaN: everything NaN
    for a, b in [(1.0, 1.0), (1.0, 2.0), (2.0, 0.5), (1.0, NAN), (2.0, NAN), (1.0, INF), (1.0, 0.0), (1.0, -1.0),
                 (1.0, 1e30), (0.5, 1e30), (NAN, 1.0), (NAN, NAN), (0.0, 1.0), (INF, 1.0), (1e30, 1.0)]:
        for t0, t1 in [(0.0, 0.0), (fin(), fin()), (0.0, -INF), (-INF, 0.0), (0.0, INF), (0.0, NAN), (NAN, 0.0), (-INF, -INF)]:
            if t0 != 0.0 and not (b != b or b == 1.0):
                continue
            for s in seeds3():
                add("D", "iwls", "POSTERIOR", s, a=a, b=b, t0=t0, t1=t1, step=rnd.choice([0.5, 1.0]), dcin=rnd.randrange(256))
    # --- liesel models ---
    for x0 in (0.9, 0.5, -0.7, 0.99, 1.5):
        for s in seeds3() + [rnd.randrange(2 ** 31) for _ in range(3 if ctx.quick else 12)]:
            add("LC", "iwls", "POSTERIOR", s, x0=x0, step=rnd.choice([1.0, 1.5]))
    for fam, x0s in (("LU", (0.5, 0.9, 1.5, -0.5)), ("LG", (0.5, 0.1, 2.0)), ("LC", (0.9,))):
        for x0 in x0s:
            for s in seeds3() + [rnd.randrange(2 ** 31) for _ in range(2 if ctx.quick else 8)]:
                add(fam, "rw", "POSTERIOR", s, x0=x0, step=rnd.choice([1.0, 2.0]))
            for corr in (0.0, NAN, INF, -INF, fin()):
                for s in seeds3():
                    add(fam, "mh", "POSTERIOR", s, x0=x0, corr=corr, step=rnd.choice([0.25, 1.0, -1.0]))
    # --- liesel Cauchy model, forced MH moves onto / off positions where the derived node is non-finite
    #     (x' == 0 exactly: [-inf, +inf, -inf, nan]; x' < 0: nan) while the log-prob stays finite;
    #     correction +inf: always accepted, -inf: never, finite: by the ratio ---
    for x0, step in ((-1.0, 1.0), (1.0, -1.0), (0.0, 1.0), (0.0, -1.0), (-0.5, -1.0), (-0.5, 1.0), (0.25, 0.5), (2.0, -2.0)):
        for corr in (INF, 0.0, -INF, 5.0):
            for s in seeds3()[: (2 if ctx.quick else 3)]:
                add("LC", "mh", "POSTERIOR", s, x0=x0, step=step, corr=corr)
    # --- adaptation epochs use _adaptive_transition (dual averaging on the kernel state): same info ---
    for kern in ("rw", "mh", "iwls"):
        for (t0, t1, corr, b) in [(0.0, 0.0, 0.0, 1.0), (0.0, NAN, 0.0, 1.0), (0.0, 0.0, NAN, NAN), (0.0, -INF, 0.0, 1.0),
                                  (fin(), fin(), fin(), 2.0)]:
            for s in seeds3():
                add("D", kern, "FAST_ADAPTATION", s, t0=t0, t1=t1, corr=corr, b=b)
    # --- random finite ---
    for _ in range(150 if ctx.quick else 3000):
        kern = rnd.choice(["rw", "mh", "iwls"])
        add("D", kern, "POSTERIOR", rnd.choice(seeds3()), x0=fin() / 4, k=rnd.choice([0.0, 0.5, 1.0, 2.0]),
            t0=fin(), t1=fin(), a=rnd.choice([0.5, 1.0, 2.0]), b=rnd.choice([0.5, 1.0, 2.0, 1.5]),
            corr=rnd.choice([0.0, fin() / 4]), step=rnd.choice([0.5, 1.0, 2.0]))

    run_cases(cases, jit=True)
    # eager (no jit, no vmap) on a sub-sample: same observations
    by = {}
    for i, c in enumerate(cases):
        by.setdefault((c["fam"], c["kern"]), []).append(i)
    n_eager = n_diff = 0
    for (fam, kern), idxs in sorted(by.items()):
        sub = idxs[:: max(1, len(idxs) // (1 if ctx.quick else 12))][: (1 if ctx.quick else 12)]
        pick = [i for i in idxs if cases[i]["code"] == 90][:1] + sub
        for i in pick:
            c2 = {k: cases[i][k] for k in ("kind", "fam", "kern", "epoch", "seed", "params")}
            run_cases([c2], jit=False)
            n_eager += 1
            c = cases[i]
            eq = (c2["code"] == c["code"] and c2["moved"] == c["moved"] and c2["sel"] == c["sel"]
                  and (c2["p"] == c["p"] or abs(float(c2["p"]) - float(c["p"])) <= 1e-4))
            if not eq:
                n_diff += 1
                c["eager_differs"] = {k: c2[k] for k in ("code", "p", "moved", "sel")}
    ctx.tested_not_proved.append(f"kernel level: eager vs jit+vmap kernel.transition on {n_eager} cases: {n_diff} differences")
    kept = []
    for c in cases:
        strat = f"kernel.{c['fam']}.{c['kern']}"
        if c["ambiguous"]:
            ctx.hist("kernel.dropped(proposed state == input state)")
            continue
        if cls(float(c["l"])) != c["l_class_exact"]:
            ctx.hist("kernel.dropped(float32 overflow of the ratio)")
            continue
        kept.append(c)
        ctx.hist(strat)
        ctx.hist("kernel.ingredient_classes cur=%s prop=%s corr=%s" % (cls(float(c["cur"])), cls(float(c["prop"])), cls(float(c["corr_used"]))))
        if c["kern"] == "iwls":
            ctx.hist("kernel.iwls fwd=%s bwd=%s" % (cls(float(c["fwd"])), cls(float(c["bwd"]))))
        uu = float(c["u"])
        ctx.hist("kernel.u==0" if uu == 0 else ("kernel.u max" if uu >= 1 - 2 ** -23 else "kernel.u random"))
        ctx.hist(f"kernel.code={c['code']}")
        ctx.hist("kernel.accepted" if c["moved"] else "kernel.rejected")
        ctx.hist(f"kernel.epoch={c['epoch']}")
        ctx.hist("kernel.state.%s non-finite entries: input=%s proposed=%s" % ("accepted" if c["moved"] else "rejected",
                 c["nonfinite_entries_in_input_state"], c["nonfinite_entries_in_proposed_state"]))
    kept.sort(key=lambda c: 0 if c["fam"] != "D" else 1)    # liesel-model cases are reported first
    for c in [c for c in kept if c["kern"] == "iwls" and cls(float(c["bwd"])) == "nan"][:1] + \
             [c for c in kept if c["fam"] == "LC" and c["code"] == 90][:1]:
        ctx.sample({k: str(v) for k, v in c.items()}, limit=10)
    return kept


# ------------------------------------------------------------------------------------------------
def row(c) -> str:
    g = "(mkKI " + " ".join(xl(c[k]) for k in ("cur", "prop", "user", "fwd", "bwd", "u")) + ")"
    return "(mkKCase " + " ".join([KINDS[c["kern"]], g, xl(c["e"]), natlit(c["code"]), xl(c["p"]), blit(c["moved"]),
                                   natlit(c["sel"]), blit(c["ks_ok"] and "eager_differs" not in c)]) + ")"


def oracle(c):
    """the property read literally on the kernel's transition info and returned state"""
    p, u = float(c["p"]), float(c["u"])
    who = f"{c['kern'].upper()} kernel ({c['fam']}): "
    if math.isnan(p) or not (0.0 <= p <= 1.0):
        return who + f"acceptance probability {p} outside [0,1]"
    cur, prop, corr = float(c["cur"]), float(c["prop"]), float(c["corr_used"])
    x = float(c["l"])
    ingr = f"current log-prob {cur}, proposed log-prob {prop}, correction {corr}" + (
        f" (= backward {c['bwd']} - forward {c['fwd']} proposal log-density)" if c["kern"] == "iwls" else "")
    if math.isnan(x):
        if c["code"] != 90 or c["moved"] or p != 0.0 or c["sel"] != 0:
            return who + (f"undefined ratio ({ingr}) but transition info has error_code {c['code']}, acceptance_prob {p}, "
                          f"position_moved {c['moved']} (expected code 90, probability 0 and the input state returned)")
    else:
        if c["code"] != 0:
            return who + f"error code {c['code']} on a defined ratio ({ingr})"
        want = 0.0 if x == -INF else (1.0 if x >= 0 else math.exp(x))
        if abs(p - want) > 3e-4 * max(want, 1e-30):
            return who + f"reported acceptance probability {p} is not min(1, exp(log-ratio)) = {want} ({ingr})"
    if c["moved"] and not (u < p):
        return who + f"proposal accepted although the uniform draw {u} does not lie below the acceptance probability {p}"
    if not c["moved"] and u < p:
        return who + f"proposal rejected although the uniform draw {u} lies below the acceptance probability {p}"
    if p == 1.0 and not c["moved"]:
        return who + "acceptance probability 1 but proposal rejected"
    if c["sel"] != (1 if c["moved"] else 0):
        return who + ("returned model state is " + ["the input state", "the proposed state", "neither the input nor the proposed state"][c["sel"]]
                      + f" although position_moved = {c['moved']}"
                      + (f"; leaves of the returned state that differ from the proposed state (update_state of the proposal): "
                         f"{c['leaves_differing_from_proposed_state']}, from the input state: {c['leaves_differing_from_input_state']}"
                         f" (non-finite entries in the input state: {c['nonfinite_entries_in_input_state']}, in the proposed state: "
                         f"{c['nonfinite_entries_in_proposed_state']})" if c["sel"] == 2 else ""))
    if not c["ks_ok"]:
        return who + "kernel state changed by a transition outside an adaptation epoch"
    if "eager_differs" in c:
        return who + f"eager transition differs from jit+vmap: {c['eager_differs']}"
    return None


def replay_case(c) -> int:
    c = {k: c[k] for k in ("kind", "fam", "kern", "epoch", "seed", "params")}
    c["seed"] = int(c["seed"])
    if isinstance(c["params"], str):
        import ast
        c["params"] = ast.literal_eval(c["params"])
    rc = 0
    for jit in (True, False):
        c2 = dict(c)
        run_cases([c2], jit=jit)
        r = oracle(c2)
        print(("jit+vmap" if jit else "eager"), {k: str(v) for k, v in c2.items()})
        if r:
            print("REPLAY FAILS:", r)
            rc = 1
    if not rc:
        print("replay passes on the current tree")
    return rc
