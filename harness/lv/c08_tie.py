"""C08 source tie: Gallina definitions translated from the current Python source of liesel/goose/chain.py
(tools/py2gallina_c08.py) + Qed-closed lemmas that they are extensionally equal to the hand-written model of
coq/Goose/Thin.v + the chain theorems of C08 re-stated for the translated functions.  Never raises an alarm by
itself: the caller (c08.run) records the outcome in the evidence (coverage.source_tie) and keeps the behavioural
correspondence for the verdict.
"""
from __future__ import annotations

import importlib.util
import os
import re

from . import common

TOOL = os.path.join(common.VERIF, "tools", "py2gallina_c08.py")

HEADER = """(* GENERATED on this run by tools/py2gallina_c08.py from the Python source under {root} - do not edit *)
From Coq Require Import List ZArith Bool Arith Lia.
Import ListNotations.
From LV Require Import Goose.Epoch Goose.Thin Goose.ThinProofs Goose.GenC08Tie.
Open Scope Z_scope.
"""

# the generated names the lemma templates mention, per section (a method that is renamed or whose parameter
# list changes makes the template ill-typed: the section then degrades to the behavioural tie)
PROOFS = {
    "listchain": """
Lemma gen_ListChain_init_is_model : forall A, gen_ListChain_init (A:=A) = GOk [].
Proof. reflexivity. Qed.
Lemma gen_ListChain_append_is_model : forall A (l : list (list A)) c,
  gen_ListChain_append l c = GOk (l ++ [c], tt).
Proof. reflexivity. Qed.
(* get(): Option(None) iff nothing is stored, else the concatenation; the stored chunks are merged into one *)
Lemma gen_ListChain_get_is_model : forall A (l : list (list A)),
  gen_ListChain_get l = GOk (squash l, match l with [] => None | _ => Some (concat l) end).
Proof.
  intros A l. unfold gen_ListChain_get, gen_ListChain__concatenate. destruct l as [|c l]; reflexivity.
Qed.
""",
    "epochchain": """
(* __init__: the counter starts at 1, nothing stored *)
Lemma gen_ListEpochChain_init_is_model : forall A cfg on,
  gen_ListEpochChain_init (A:=A) cfg on = GOk (ec_new cfg on).
Proof. reflexivity. Qed.
Lemma gen_ListEpochChain_epoch_is_model : forall A (ch : echain A), gen_ListEpochChain_epoch ch = ec_cfg ch.
Proof. intros A [cfg on c l]. reflexivity. Qed.
(* append: thinning counter arithmetic, keep mask, empty-selection handling = the model's ec_append *)
Lemma gen_ListEpochChain_append_is_model : forall A (ch : echain A) chunk,
  gen_ListEpochChain_append ch chunk = GOk (ec_append ch chunk, tt).
Proof.
  intros A [cfg on c l] chunk.
  unfold gen_ListEpochChain_append, gen_ListEpochChain_epoch, gen_ListChain_append, ec_append.
  cbn [ec_cfg ec_thin ec_counter ec_chunks]. cbv zeta. rewrite ?map_map, ?Z.gtb_ltb, ?Z.geb_leb.
  destruct on; rewrite ?andb_true_r, ?andb_false_r; cbn [andb]; [|reflexivity].
  destruct (Z.ltb_spec 1 (thin cfg)) as [Hth|Hth].
  - assert (Hth' : (1 <? thin cfg) = true) by (apply Z.ltb_lt; exact Hth).
    rewrite (tie_mask_idx _ (thin cfg) c _ Hth') by c08_pointwise.
    cbn [gbind]. rewrite ?tie_len_keep, ?tie_take_keep. cbn [gbind].
    destruct (keep_from (thin cfg) c chunk) as [|k0 kr] eqn:Ek; c08_crush.
  - c08_crush.
Qed.

(* C08_thin_chunking / C08_unthinned_chunking for the constructor and append translated from the source:
   chain = ListEpochChain(cfg, on); for chunk in chunks: chain.append(chunk)  never raises and stores exactly
   the specified states, for any split into chunks *)
Theorem gen_thin_chunking : forall A cfg (chunks : list (list A)), 1 <= thin cfg ->
  exists ch, new_and_append gen_ListEpochChain_init gen_ListEpochChain_append cfg true chunks = GOk ch
             /\\ chain_list ch = thin_spec (thin cfg) (concat chunks).
Proof.
  intros A. exact (@tie_thin_chunking A _ _ (gen_ListEpochChain_init_is_model A) (gen_ListEpochChain_append_is_model A)).
Qed.
Theorem gen_unthinned_chunking : forall A cfg (chunks : list (list A)),
  exists ch, new_and_append gen_ListEpochChain_init gen_ListEpochChain_append cfg false chunks = GOk ch
             /\\ chain_list ch = concat chunks.
Proof.
  intros A. exact (@tie_unthinned_chunking A _ _ (gen_ListEpochChain_init_is_model A) (gen_ListEpochChain_append_is_model A)).
Qed.
Print Assumptions gen_thin_chunking.
""",
    "chainget": """
(* C08_epoch_chain_get for the translated constructor / append / get; the chunks get() leaves behind are
   equivalent to the ones before (same concatenation, empty iff empty) *)
Theorem gen_epoch_chain_get : forall A cfg on (chunks : list (list A)), chunks <> [] ->
  exists ch l',
    new_and_append gen_ListEpochChain_init gen_ListEpochChain_append cfg on chunks = GOk ch
    /\\ gen_ListChain_get (ec_chunks ch) = GOk (l', get_spec on (thin cfg) (concat chunks))
    /\\ chunks_equiv l' (ec_chunks ch).
Proof.
  intros A. exact (@tie_epoch_chain_get A _ _ _ (gen_ListEpochChain_init_is_model A)
                     (gen_ListEpochChain_append_is_model A) (gen_ListChain_get_is_model A)).
Qed.
(* the model treats get() as pure although the code merges the stored chunks: a get() between appends
   returns the model's value and is invisible to every later append / get *)
Theorem gen_get_invisible : forall A (ch : echain A) l' v chunks,
  gen_ListChain_get (ec_chunks ch) = GOk (l', v) ->
  v = ec_get ch /\\
  exists a' b',
    run_appends gen_ListEpochChain_append (mkEC (ec_cfg ch) (ec_thin ch) (ec_counter ch) l') chunks = GOk a'
    /\\ run_appends gen_ListEpochChain_append ch chunks = GOk b'
    /\\ ec_get a' = ec_get b' /\\ chain_list a' = chain_list b'.
Proof.
  intros A. exact (@tie_get_invisible A _ _ (gen_ListEpochChain_append_is_model A) (gen_ListChain_get_is_model A)).
Qed.
Print Assumptions gen_epoch_chain_get.
""",
    "manager": """
Lemma gen_ECM_init_is_model : forall A on, gen_EpochChainManager_init (A:=A) on = GOk (mgr_obj (cm_new on)).
Proof. reflexivity. Qed.
Lemma gen_ECM_advance_epoch_is_model : forall A (m : cmgr A) cfg,
  gen_EpochChainManager_advance_epoch (mgr_obj m) cfg = GOk (mgr_obj (cm_advance m cfg), tt).
Proof.
  intros A [on rc] cfg. unfold gen_EpochChainManager_advance_epoch, mgr_obj, cm_advance, cm_chains.
  cbn [cm_thin cm_rchains]. cbv zeta. rewrite gen_ListEpochChain_init_is_model. cbn [gbind rev]. reflexivity.
Qed.
(* append: IndexError before the first epoch, else the model's append on the current (= last) chain *)
Lemma gen_ECM_append_is_model : forall A (m : cmgr A) chunk,
  gen_EpochChainManager_append (mgr_obj m) chunk
  = match cm_append m chunk with Some m' => GOk (mgr_obj m', tt) | None => GRaise E_IndexError end.
Proof.
  intros A [on rc] chunk. unfold gen_EpochChainManager_append, mgr_obj, cm_append, cm_chains.
  cbn [cm_thin cm_rchains]. cbv zeta. destruct rc as [|c r]; [reflexivity|].
  rewrite glast_rev_cons. cbn [gbind]. rewrite gen_ListEpochChain_append_is_model. cbn [gbind].
  rewrite gset_last_rev_cons. reflexivity.
Qed.
Lemma gen_ECM_get_current_chain_is_model : forall A (m : cmgr A),
  gen_EpochChainManager_get_current_chain (mgr_obj m)
  = match cm_rchains m with [] => GRaise E_IndexError | c :: _ => GOk (mgr_obj m, c) end.
Proof.
  intros A [on rc]. unfold gen_EpochChainManager_get_current_chain, mgr_obj, cm_chains.
  cbn [cm_thin cm_rchains]. cbv zeta. destruct rc as [|c r]; [reflexivity|]. rewrite glast_rev_cons. reflexivity.
Qed.
""",
    "combine": """
(* combine_filtered / combine_all: the model's value; the manager is left with get() applied to the selected chains *)
Lemma gen_ECM_combine_filtered_is_model : forall A (m : cmgr A) p,
  gen_EpochChainManager_combine_filtered (mgr_obj m) p
  = GOk (mgr_obj (cm_squash_sel p m), cm_combine_filtered p m).
Proof.
  intros A [on rc] p.
  unfold gen_EpochChainManager_combine_filtered, mgr_obj, cm_squash_sel, cm_combine_filtered, cm_chains, combine_chunks.
  cbn [cm_thin cm_rchains]. rewrite gen_ListChain_init_is_model. cbn [gbind]. cbv zeta.
  rewrite (tie_combine_loop p)
    by (intros [cfg0 on0 cnt0 l0] acc0; cbv beta zeta; rewrite ?gen_ListEpochChain_epoch_is_model;
        cbn [ec_cfg ec_get ec_chunks ec_squash ec_thin ec_counter]; destruct (p cfg0); [|reflexivity];
        rewrite ?gen_ListChain_get_is_model; cbn [gbind]; destruct l0; cbn; rewrite ?app_nil_r; reflexivity).
  cbn [gbind fst snd app]. rewrite gen_ListChain_get_is_model. cbn [gbind]. rewrite map_rev.
  match goal with |- context [flat_map ?f ?l] => destruct (flat_map f l) end; reflexivity.
Qed.
Lemma gen_ECM_combine_all_is_model : forall A (m : cmgr A),
  gen_EpochChainManager_combine_all (mgr_obj m)
  = GOk (mgr_obj (cm_squash_sel (fun _ => true) m), cm_combine_all m).
Proof.
  intros A [on rc].
  unfold gen_EpochChainManager_combine_all, mgr_obj, cm_squash_sel, cm_combine_all, cm_chains, combine_chunks.
  cbn [cm_thin cm_rchains]. rewrite gen_ListChain_init_is_model. cbn [gbind]. cbv zeta.
  rewrite (tie_combine_loop (fun _ => true))
    by (intros [cfg0 on0 cnt0 l0] acc0; cbv beta zeta;
        cbn [ec_cfg ec_get ec_chunks ec_squash ec_thin ec_counter];
        rewrite ?gen_ListChain_get_is_model; cbn [gbind]; destruct l0; cbn; rewrite ?app_nil_r; reflexivity).
  cbn [gbind fst snd app]. rewrite gen_ListChain_get_is_model, filter_all_true. cbn [gbind]. rewrite map_rev.
  match goal with |- context [flat_map ?f ?l] => destruct (flat_map f l) end; reflexivity.
Qed.
Print Assumptions gen_ECM_combine_filtered_is_model.
""",
}

# sections in file order; "chainget" has no definitions of its own
ORDER = ["listchain", "epochchain", "chainget", "manager", "combine"]
TRANSLATED = ["listchain", "epochchain", "manager", "combine"]
# lemmas a section's proofs rewrite with (beyond the definitions, which are always present)
PROOF_DEPS = {"listchain": [], "epochchain": [], "chainget": ["listchain", "epochchain"],
              "manager": ["epochchain"], "combine": ["listchain", "epochchain"]}
# definitions a section's statements mention
DEF_DEPS = {"listchain": ["listchain"], "epochchain": ["listchain", "epochchain"],
            "chainget": ["listchain", "epochchain"], "manager": ["epochchain", "manager"],
            "combine": ["listchain", "epochchain", "combine"]}
# constructor defaults the model / the engine rely on (ListEpochChain(epoch) and EpochChainManager() do not thin)
WANT_DEFAULTS = {"gen_ListEpochChain_init": {"apply_thinning": False}, "gen_EpochChainManager_init": {"apply_thinning": False}}


def load_tool():
    spec = importlib.util.spec_from_file_location("py2gallina_c08", TOOL)
    mod = importlib.util.module_from_spec(spec)
    spec.loader.exec_module(mod)
    return mod


def lemma_names(txt):
    return re.findall(r"^(?:Lemma|Theorem|Corollary)\s+([A-Za-z0-9_']+)", txt, re.M)


def sections(root):
    """translate; returns ({section: {"defs", "info"}}, {section: reason it is not available})"""
    tool = load_tool()
    res = tool.translate(root, tuple(TRANSLATED))
    ok, bad = {}, {}
    for sec in TRANSLATED:
        d = res.get(sec, {"error": "not translated"})
        if "error" in d:
            bad[sec] = "translator failed closed: " + d["error"]
            continue
        wrong = {g: (d.get("defaults", {}).get(g), w) for g, w in WANT_DEFAULTS.items()
                 if g in d.get("params", {}) and d.get("defaults", {}).get(g) != w}
        if wrong:
            bad[sec] = f"constructor defaults differ from the ones the model assumes (got, expected): {wrong}"
            continue
        ok[sec] = {"defs": d["text"], "info": d["info"]}
    return ok, bad


def assemble(root, ok, use):
    parts = [HEADER.format(root=root)]
    marks = []          # (first line, last line, section, "defs" | "proofs")
    for sec in ORDER:
        if sec in ok:
            for i in ok[sec]["info"]:
                parts.append(f"(* {i['file']} : {i['function']}, lines {i['lines'][0]}-{i['lines'][1]}, sha256 {i['sha256']} *)")
            start = sum(p.count("\n") + 1 for p in parts) + 1
            parts.append(ok[sec]["defs"])
            marks.append((start, sum(p.count("\n") + 1 for p in parts), sec, "defs"))
        if sec in use:
            start = sum(p.count("\n") + 1 for p in parts) + 1
            parts.append(PROOFS[sec])
            marks.append((start, sum(p.count("\n") + 1 for p in parts), sec, "proofs"))
    return "\n".join(parts) + "\n", marks


def run(ctx, root):
    """returns the coverage.source_tie record"""
    rec = {"translated": [], "lemmas_ok": False, "lemmas": [], "not_tied": {}, "detail": "",
           "translator": "tools/py2gallina_c08.py", "generated_file": "gen_c08.v (work directory, deleted after the run)"}
    try:
        ok, bad = sections(root)
    except Exception as ex:       # the tie is optional evidence; never let it abort the check
        rec["not_tied"]["all"] = f"translator aborted: {type(ex).__name__}: {ex}"
        rec["detail"] = "SOURCE TIE BROKEN: " + rec["not_tied"]["all"]
        return rec
    rec["not_tied"].update(bad)

    def usable(cands):
        out = []
        for s in ORDER:
            if s in cands and all(d in ok for d in DEF_DEPS[s]) and all(d in out for d in PROOF_DEPS[s]):
                out.append(s)
        return out
    use = usable(set(ORDER))
    for s in ORDER:
        if s not in use and s not in rec["not_tied"]:
            rec["not_tied"][s] = "needs the translation / lemmas of " + ", ".join(
                d for d in sorted(set(DEF_DEPS[s] + PROOF_DEPS[s])) if d not in use and d != s)
    for _ in range(2 * len(ORDER) + 2):
        if not use:
            break
        txt, marks = assemble(root, ok, use)
        path = ctx.new_shard(txt, "gen_c08")
        rc, out, dt = common.sh(["coqc", "-Q", common.COQ, "LV", "-Q", ctx.work, "Cases", path], timeout=300, cwd=ctx.work)
        rec["coqc_s"] = round(dt, 1)
        if rc == 0:
            n_pa = len(re.findall(r"^Print Assumptions", txt, re.M))
            n_closed = out.count("Closed under the global context")
            rec["print_assumptions"] = ("closed under the global context (no axioms)" if n_pa == n_closed else
                                        " ".join(out.split())[-400:])
            break
        m = re.search(r"line (\d+)", out)
        ln = int(m.group(1)) if m else -1
        hit = next(((s, kind) for a, b, s, kind in marks if a <= ln <= b), None)
        msg = " ".join(out.strip().split())[-300:]
        if hit is None:            # unknown place: give up on the whole tie rather than guess
            for s in use:
                rec["not_tied"].setdefault(s, "generated file does not compile: " + msg)
            use = []
            break
        culprit, kind = hit
        if kind == "defs":
            rec["not_tied"][culprit] = "the translated definitions do not type-check: " + msg
            ok.pop(culprit, None)
        else:
            names = lemma_names("\n".join(txt.split("\n")[:ln]))
            rec["not_tied"][culprit] = (f"lemma {names[-1] if names else '?'} does not check for the functions as translated "
                                        f"from the current source: {msg}")
        before = list(use)
        use = usable(set(use) - {culprit})
        for s in before:
            if s not in use and s != culprit:
                rec["not_tied"].setdefault(s, f"needs the definitions / lemmas of {culprit}")
    else:
        use = []
    if use and "print_assumptions" not in rec:
        use = []
    for sec in use:
        if sec in ok:
            rec["translated"].extend(ok[sec]["info"])
        rec["lemmas"].extend(lemma_names(PROOFS[sec]))
    rec["lemmas_ok"] = bool(use) and not rec["not_tied"]
    n = len(rec["lemmas"])
    ctx.obligations += n
    ctx.discharged += n
    if rec["lemmas_ok"]:
        rec["detail"] = ("the chain theorems of C08 (thin_chunking, unthinned_chunking, epoch_chain_get) and the model equalities "
                         "for ListChain / ListEpochChain / EpochChainManager were re-established on this run for the functions as "
                         "translated from the current source (files, line ranges and sha256 of the translated text under "
                         "'translated'): every gen_*_is_model lemma and every gen_* corollary is Qed-closed")
    else:
        rec["detail"] = ("SOURCE TIE BROKEN for " + ", ".join(sorted(rec["not_tied"])) + " - the verdict of this run rests on "
                         "the behavioural correspondence and the oracle for these functions" +
                         ("; still tied: " + ", ".join(use) if use else ""))
        common.log("source tie: " + rec["detail"])
        for s, why in sorted(rec["not_tied"].items()):
            common.log(f"  {s}: {why[:300]}")
    return rec
