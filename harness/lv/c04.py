"""C04 - every built-in kernel leaves the target invariant (finite-space theorems + glue).

What is tied to the Coq model (Goose/Markov.v, glue in Goose/CorrC04.v) on every run:

 fin   finite dict models and finite Liesel models (block a x block b, dyadic weights): the EXACT one-step
       transition matrix of MHKernel (harness proposal with known table q and its log-correction), of
       GibbsKernel / finite_discrete_gibbs_kernel and of a KernelSequence of them is extracted from the real
       code by enumerating every random choice (forced through patched jax.random.{uniform,categorical}
       and the harness proposal) and weighting each path with the probabilities the code itself reports
       (info.acceptance_prob, the logits handed to categorical).  R-lemmas: every entry equals the entry
       of mh_kernel / gibbs_kernel; the sequence matrix equals seq_kernels of the extracted factors; the
       extracted matrices leave w invariant.
 cont  RWKernel / IWLSKernel on continuous 1-d blocks (dict targets and a Liesel model with a transformed
       parameter): the normal draw is forced in both directions; R-lemmas: the proposal is the model's
       location-scale map of z, the reported acceptance probability is min(1, pi(y)q(y,x)/(pi(x)q(x,y))) of
       the model, and the detailed-balance residual vanishes.
 glue  HMCKernel / NUTSKernel: log_prob_fn equals the model density of the block with the rest fixed
       (R-lemma), the transition equals blackjax's own step on that density with the same key / step size /
       inverse mass matrix (differential test, blackjax trusted), the position is written back into a
       coherent model state (R-lemma), tuning state untouched.

The direct oracle reads the property literally on the observations: invariance residual of the extracted
matrices, detailed-balance residual of forced forward/backward moves, equality with blackjax.
"""
from __future__ import annotations

import contextlib
import itertools
import math
import random
from fractions import Fraction
from unittest import mock

from . import common
from .common import lst, blit, natlit, rlit

HEADER = """From Coq Require Import Reals List Bool Lra.
From Interval Require Import Tactic.
From LV Require Import Goose.Markov Goose.CorrC04.
Import ListNotations.
Open Scope R_scope.
"""
TOL = 1e-9
U1 = 1.0 - 2.0 ** -53          # the largest double below 1: rejects whenever acceptance_prob < 1
KEY_SEED = 20260930

FORCED = {"u": [], "z": [], "cat": [], "tgt": []}
CAP = {"logits": [], "seen": []}


def _pop(name):
    q = FORCED[name]
    if not q:
        raise RuntimeError(f"forced queue '{name}' is empty: the implementation drew a random number the model does not know")
    return q.pop(0) if len(q) > 1 else q[0]


def _reset(**kw):
    for k in FORCED:
        FORCED[k] = list(kw.get(k, []))
    CAP["logits"], CAP["seen"] = [], []


_JAX = {}


def J():
    """lazy imports; float64 everywhere"""
    if _JAX:
        return _JAX
    import jax
    jax.config.update("jax_enable_x64", True)
    import jax.numpy as jnp
    import numpy as np
    import liesel.goose as gs
    import liesel.model as lsl
    from liesel.goose.epoch import EpochConfig, EpochType
    _JAX.update(jax=jax, jnp=jnp, np=np, gs=gs, lsl=lsl, EpochConfig=EpochConfig, EpochType=EpochType)
    return _JAX


def epoch(kind="posterior"):
    j = J()
    t = {"posterior": j["EpochType"].POSTERIOR, "burnin": j["EpochType"].BURNIN}[kind]
    return j["EpochConfig"](t, 10, 1, None).to_state(3, 40)


@contextlib.contextmanager
def forcing(which=("u", "z", "cat")):
    j = J()
    jax, jnp, np = j["jax"], j["jnp"], j["np"]
    from jax.experimental import io_callback
    cdt = jax.dtypes.canonicalize_dtype

    def f_uniform(key, shape=(), dtype=float, minval=0.0, maxval=1.0):
        dt, shape = cdt(dtype), tuple(shape)
        return io_callback(lambda: np.full(shape, _pop("u"), dt), jax.ShapeDtypeStruct(shape, dt), ordered=True)

    def f_normal(key, shape=(), dtype=float):
        dt, shape = cdt(dtype), tuple(shape)
        return io_callback(lambda: np.asarray(_pop("z"), dt).reshape(shape), jax.ShapeDtypeStruct(shape, dt), ordered=True)

    def f_cat(key, logits, axis=-1, shape=None):
        def cb(lg):
            CAP["logits"].append(np.asarray(lg, float))
            return np.asarray(_pop("cat"), cdt(int))
        return io_callback(cb, jax.ShapeDtypeStruct((), cdt(int)), logits, ordered=True)

    with contextlib.ExitStack() as es:
        if "u" in which:
            es.enter_context(mock.patch("jax.random.uniform", f_uniform))
        if "z" in which:
            es.enter_context(mock.patch("jax.random.normal", f_normal))
        if "cat" in which:
            es.enter_context(mock.patch("jax.random.categorical", f_cat))
        yield


def F(x):
    return Fraction(x)


def fr(s):
    return Fraction(str(s))


# =================================================================================================
# finite models
# =================================================================================================
def fin_env(spec):
    """build the real interface + kernels for a finite case"""
    j = J()
    jax, jnp, np, gs, lsl = j["jax"], j["jnp"], j["np"], j["gs"], j["lsl"]
    from jax.experimental import io_callback
    from liesel.goose.mh_kernel import MHKernel, MHProposal
    from liesel.goose.kernel_sequence import KernelSequence
    na, nb = spec["na"], spec["nb"]
    w = np.array([[float(fr(v)) for v in row] for row in spec["w"]])
    size = {"a": na, "b": nb}
    if spec["iface"] == "dict":
        lw = jnp.asarray(np.log(w))
        iface = gs.DictInterface(lambda st: lw[st["a"], st["b"]])

        def state_of(a, b):
            return {"a": jnp.asarray(a, int), "b": jnp.asarray(b, int)}
        model = None
    else:
        import tensorflow_probability.substrates.jax.distributions as tfd
        pa = w.sum(1) / w.sum()
        pba = w / w.sum(1, keepdims=True)
        va = lsl.Var(jnp.asarray(0.0), lsl.Dist(tfd.FiniteDiscrete, outcomes=lsl.Value(np.arange(na, dtype=float)),
                                               probs=lsl.Value(pa)), name="a")
        row = lsl.Calc(lambda a: jnp.asarray(pba)[jnp.asarray(a).astype(int)], va)
        vb = lsl.Var(jnp.asarray(0.0), lsl.Dist(tfd.FiniteDiscrete, outcomes=lsl.Value(np.arange(nb, dtype=float)),
                                               probs=row), name="b")
        extra = []
        if spec.get("derived"):
            # derived nodes that NO distribution depends on (not upstream of the log-prob): a user kernel function
            # may read them; they must be up to date in every model state a kernel is handed
            extra = [lsl.Var(lsl.Calc(lambda v: v + 0.0, va), name="da"), lsl.Var(lsl.Calc(lambda v: v + 0.0, vb), name="db")]
        model = lsl.GraphBuilder(to_float32=False).add(va, vb, *extra).build_model()
        iface = gs.LieselInterface(model)
        base = model.state

        def state_of(a, b):
            return iface.update_state({"a": jnp.asarray(float(a)), "b": jnp.asarray(float(b))}, base)

    def read(ms):
        p = iface.extract_position(["a", "b"], ms)
        return int(round(float(p["a"]))), int(round(float(p["b"])))

    kernels = []
    for i, k in enumerate(spec["kernels"]):
        blk = k["blk"]
        other = "b" if blk == "a" else "a"
        okey = ("d" + other) if k.get("reads") == "derived" else other     # where the kernel function reads the rest
        n = size[blk]
        if k["type"] == "gibbs":
            if k.get("reads") == "derived":
                lwt = jnp.asarray(np.log(w))

                def trans(prng_key, model_state, blk=blk, okey=okey, n=n):
                    r = jnp.asarray(iface.extract_position([okey], model_state)[okey]).astype(int)
                    logits = lwt[:, r] if blk == "a" else lwt[r, :]
                    return {blk: jnp.arange(n, dtype=float)[jax.random.categorical(prng_key, logits=logits)]}
                ker = gs.GibbsKernel([blk], trans)
            elif spec["iface"] == "liesel":
                from liesel.model.goose import finite_discrete_gibbs_kernel
                ker = finite_discrete_gibbs_kernel(blk, model)
            else:
                def trans(prng_key, model_state, blk=blk, n=n):
                    vals = jnp.arange(n)
                    lps = jax.vmap(lambda v: iface.log_prob(iface.update_state({blk: v}, model_state)))(vals)
                    return {blk: vals[jax.random.categorical(prng_key, logits=lps)]}
                ker = gs.GibbsKernel([blk], trans)
        else:
            q = np.array([[[float(fr(v)) for v in r] for r in t] for t in k["q"]])        # [rest][x][y]
            with np.errstate(all="ignore"):
                corr = np.where((q > 0) & (np.swapaxes(q, 1, 2) > 0), np.log(np.swapaxes(q, 1, 2) / q), 0.0)
            corr = jnp.asarray(np.nan_to_num(corr * k.get("corr_scale", 1.0)))

            def prop(key, model_state, step, blk=blk, other=okey, corr=corr):
                p = iface.extract_position([blk, other], model_state)
                cur, rest = jnp.asarray(p[blk]), jnp.asarray(p[other])

                def cb(c, r):
                    CAP["seen"].append((int(round(float(c))), int(round(float(r)))))
                    return np.asarray(_pop("tgt"), np.int64)
                tgt = io_callback(cb, jax.ShapeDtypeStruct((), jnp.int64), cur, rest, ordered=True)
                return MHProposal({blk: tgt.astype(cur.dtype)}, corr[rest.astype(int), cur.astype(int), tgt])
            ker = MHKernel([blk], prop)
        ker.set_model(iface)
        ker.identifier = f"kernel_{i:02d}"
        kernels.append(ker)
    return {"iface": iface, "state_of": state_of, "read": read, "kernels": kernels, "size": size,
            "seq": KernelSequence(kernels) if len(kernels) > 1 else None}


def fin_choices(spec, idxs, size):
    out = []
    for i in idxs:
        k = spec["kernels"][i]
        n = size[k["blk"]]
        if k["type"] == "gibbs":
            out.append([("cat", c) for c in range(n)])
        else:
            out.append([("mh", t, u) for t in range(n) for u in (0.0, U1)])
    return out


def fin_extract(spec, env, idxs, jit=True, starts=None):
    """transition matrix of the kernels idxs (one kernel: kernel.transition; several: KernelSequence.transition)"""
    j = J()
    jax, np = j["jax"], j["np"]
    na, nb = spec["na"], spec["nb"]
    n = na * nb
    key = jax.random.PRNGKey(KEY_SEED)
    ep = epoch(spec.get("epoch", "posterior"))
    st0 = env["state_of"](0, 0)
    if len(idxs) == 1:
        obj = env["kernels"][idxs[0]]
        ks0 = obj.init_state(key, st0)
    else:
        assert list(idxs) == list(range(len(env["kernels"])))
        obj = env["seq"]
        ks0 = obj.init_states(key, st0)
    step = (lambda ks, ms: obj.transition(key, ks, ms, ep))
    if jit:
        step = jax.jit(step)
    T = np.zeros((n, n))
    notes = []
    nruns = 0
    for x in (starts if starts is not None else range(n)):
        a, b = divmod(x, nb)
        for combo in itertools.product(*fin_choices(spec, idxs, env["size"])):
            _reset(cat=[c[1] for c in combo if c[0] == "cat"], tgt=[c[1] for c in combo if c[0] == "mh"],
                   u=[c[2] for c in combo if c[0] == "mh"])
            out = step(ks0, env["state_of"](a, b))
            jax.block_until_ready(out.model_state)
            nruns += 1
            fa, fb = env["read"](out.model_state)
            infos = [out.info] if len(idxs) == 1 else [out.infos[env["kernels"][i].identifier] for i in idxs]
            wgt, gi, mi = 1.0, 0, 0
            cur_state = (a, b)
            for c, i, info in zip(combo, idxs, infos):
                k = spec["kernels"][i]
                bi = 0 if k["blk"] == "a" else 1
                if c[0] == "cat":
                    lg = CAP["logits"][gi]
                    gi += 1
                    p = np.exp(lg - lg.max())
                    p = p / p.sum()
                    wgt *= float(p[c[1]])
                else:
                    cur, rest = CAP["seen"][mi]
                    mi += 1
                    acc = float(info.acceptance_prob)
                    moved = bool(info.position_moved)
                    qv = float(fr(k["q"][rest][cur][c[1]]))
                    wgt *= qv * (acc if c[2] == 0.0 else 1.0 - acc)
                    if qv > 0 and int(info.error_code) != 0:
                        notes.append(f"error code {int(info.error_code)} from state {(a, b)} with choices {combo}")
                    if qv > 0 and moved != (c[2] < acc):
                        notes.append(f"position_moved={moved} but forced uniform {c[2]} and acceptance_prob {acc} "
                                     f"(state {(a, b)}, choices {combo})")
            T[x, fa * nb + fb] += wgt
    return T, notes, nruns


def fin_observe(spec, eager_check=False):
    np = J()["np"]
    env = fin_env(spec)
    nk = len(spec["kernels"])
    obs = {"T": [], "notes": [], "runs": 0}
    with forcing():
        for i in range(nk):
            T, notes, nr = fin_extract(spec, env, [i])
            obs["T"].append(T.tolist())
            obs["notes"] += notes
            obs["runs"] += nr
        if nk > 1:
            T, notes, nr = fin_extract(spec, env, list(range(nk)))
            obs["TS"] = T.tolist()
            obs["notes"] += notes
            obs["runs"] += nr
        if eager_check:
            idxs = list(range(nk))
            Te, _, nr = fin_extract(spec, env, idxs, jit=False, starts=[0])
            ref = np.array(obs["TS"] if nk > 1 else obs["T"][0])[0]
            obs["eager_diff"] = float(np.abs(Te[0] - ref).max())
            obs["runs"] += nr
    return obs


def fin_lift(spec, k):
    """joint proposal table of a block kernel: q_full[x][y]"""
    na, nb = spec["na"], spec["nb"]
    n = na * nb
    q = [[Fraction(0)] * n for _ in range(n)]
    for x in range(n):
        a, b = divmod(x, nb)
        for y in range(n):
            a2, b2 = divmod(y, nb)
            if k["blk"] == "a" and b == b2:
                q[x][y] = fr(k["q"][b][a][a2])
            if k["blk"] == "b" and a == a2:
                q[x][y] = fr(k["q"][a][b][b2])
    return q


def fin_model_matrix(spec, k):
    """float evaluation of the Coq model (diagnostics + oracle cross-check only)"""
    na, nb = spec["na"], spec["nb"]
    n = na * nb
    w = [float(fr(spec["w"][x // nb][x % nb])) for x in range(n)]
    P = [[0.0] * n for _ in range(n)]
    if k["type"] == "gibbs":
        rest = [(x % nb) if k["blk"] == "a" else (x // nb) for x in range(n)]
        for x in range(n):
            z = sum(w[t] for t in range(n) if rest[t] == rest[x])
            for y in range(n):
                P[x][y] = w[y] / z if rest[x] == rest[y] else 0.0
    else:
        q = fin_lift(spec, k)
        for x in range(n):
            for y in range(n):
                if x != y and q[x][y] > 0:
                    r = (w[y] * float(q[y][x])) / (w[x] * float(q[x][y]))
                    P[x][y] = float(q[x][y]) * min(1.0, r)
            P[x][x] = 1.0 - sum(P[x][y] for y in range(n) if y != x)
    return P


def fin_oracle(c):
    np = J()["np"]
    spec, obs = c["spec"], c["obs"]
    nb = spec["nb"]
    n = spec["na"] * nb
    w = np.array([float(fr(spec["w"][x // nb][x % nb])) for x in range(n)])
    if obs["notes"]:
        return obs["notes"][0]
    mats = [(f"kernel {i} ({spec['kernels'][i]['type']} on block {spec['kernels'][i]['blk']})", np.array(T))
            for i, T in enumerate(obs["T"])]
    if "TS" in obs:
        mats.append(("kernel sequence", np.array(obs["TS"])))
    for name, T in mats:
        if (T < -1e-12).any() or np.abs(T.sum(1) - 1).max() > 1e-9:
            return f"{name}: extracted transition matrix is not stochastic (row sums {T.sum(1).tolist()})"
    for i, k in enumerate(spec["kernels"]):
        T = np.array(obs["T"][i])
        for x in range(n):
            for y in range(n):
                same_rest = (x % nb == y % nb) if k["blk"] == "a" else (x // nb == y // nb)
                if not same_rest and T[x, y] > 1e-12:
                    return f"kernel {i} on block {k['blk']} changed the other block: P[{divmod(x, nb)}->{divmod(y, nb)}] = {T[x, y]}"
    for name, T in mats:
        res = w @ T - w
        yb = int(np.abs(res).argmax())
        if abs(res[yb]) > 1e-9 * w.sum():
            return (f"{name} does not leave the target invariant: sum_x w(x) P(x,y) - w(y) = {res[yb]:.3e} at "
                    f"y = (a={yb // nb}, b={yb % nb}); weights {w.tolist()}")
    if "eager_diff" in obs and obs["eager_diff"] > 1e-9:
        return f"eager and jitted transition disagree by {obs['eager_diff']}"
    return None


def tab(rows):
    return "(tab2R " + lst(lst(rlit(v) for v in r) for r in rows) + ")"


def fin_defs(spec):
    nb = spec["nb"]
    n = spec["na"] * nb
    s = f"Definition xs := {lst(natlit(x) for x in range(n))}.\n"
    s += f"Definition w := tabR {lst(rlit(fr(spec['w'][x // nb][x % nb])) for x in range(n))}.\n"
    for i, k in enumerate(spec["kernels"]):
        if k["type"] == "gibbs":
            rest = [(x % nb) if k["blk"] == "a" else (x // nb) for x in range(n)]
            s += f"Definition K{i} := gibbs_kernel xs Nat.eqb (tabN {lst(natlit(r) for r in rest)}) w.\n"
        else:
            q = fin_lift(spec, k)
            s += f"Definition q{i} := {tab(q)}.\n"
            s += f"Definition s{i} := tab2B {lst(lst(blit(v > 0) for v in r) for r in q)}.\n"
            s += f"Definition K{i} := mh_kernel Nat.eqb xs w q{i} (corr_tab s{i} q{i}).\n"
    return s


def fin_emit(ctx, ci, c):
    spec, obs = c["spec"], c["obs"]
    n = spec["na"] * spec["nb"]
    tol = rlit(Fraction(1, 10 ** 9))
    paths = []
    defs = fin_defs(spec)
    for i, k in enumerate(spec["kernels"]):
        unf = f"unfold K{i}, xs, w" + (f", q{i}, s{i}" if k["type"] == "mh" else "")
        txt = HEADER + defs + f"Definition T{i} := {tab([[F(v) for v in r] for r in obs['T'][i]])}.\n"
        for x in range(n):
            for y in range(n):
                txt += (f"Lemma entry_k{i}_{x}_{y} : Rabs (K{i} {natlit(x)} {natlit(y)} - T{i} {natlit(x)} {natlit(y)}) <= {tol}.\n"
                        f"Proof. {unf}, T{i}. c04_solve. Qed.\n")
        paths.append(ctx.new_shard(txt, f"c{ci:03d}_fin_k{i}"))
    txt = HEADER + defs
    names = []
    for i in range(len(spec["kernels"])):
        txt += f"Definition T{i} := {tab([[F(v) for v in r] for r in obs['T'][i]])}.\n"
        names.append(f"T{i}")
    mats = list(names)
    if "TS" in obs:
        txt += f"Definition TS := {tab([[F(v) for v in r] for r in obs['TS']])}.\n"
        mats.append("TS")
        for x in range(n):
            for y in range(n):
                txt += (f"Lemma seq_{x}_{y} : Rabs (seq_kernels Nat.eqb xs {lst(names)} {natlit(x)} {natlit(y)} - TS {natlit(x)} {natlit(y)}) <= {tol}.\n"
                        f"Proof. unfold xs, TS, {', '.join(names)}. c04_solve. Qed.\n")
    for m in mats:
        for y in range(n):
            txt += (f"Lemma inv_{m}_{y} : Rabs (rsum xs (fun x => w x * {m} x {natlit(y)}) - w {natlit(y)}) <= {tol}.\n"
                    f"Proof. unfold xs, w, {m}. c04_solve. Qed.\n")
    paths.append(ctx.new_shard(txt, f"c{ci:03d}_fin_seq"))
    return paths


# =================================================================================================
# continuous blocks: RW / IWLS
# =================================================================================================
def ctarget(t):
    """closed forms (python floats) of log density / score / information of the block, and Coq terms"""
    nm = t["name"]
    if nm == "gauss":
        m, s = float(fr(t["m"])), float(fr(t["s"]))
        args = f"{rlit(fr(t['m']))} {rlit(fr(t['s']))}"
        return (lambda v: -(v - m) ** 2 / (2 * s * s), lambda v: -(v - m) / (s * s), lambda v: 1 / (s * s),
                f"(lp_gauss {args})", f"(sc_gauss {args})", f"(in_gauss {args})")
    if nm == "quartic":
        return (lambda v: -v ** 4 / 4 - v ** 2 / 2, lambda v: -v ** 3 - v, lambda v: 3 * v * v + 1,
                "lp_quartic", "sc_quartic", "in_quartic")
    if nm == "loggamma":
        a = float(fr(t["a"]))
        return (lambda v: a * v - math.exp(v), lambda v: a - math.exp(v), lambda v: math.exp(v),
                f"(lp_loggamma {rlit(fr(t['a']))})", f"(sc_loggamma {rlit(fr(t['a']))})", f"(in_loggamma {rlit(fr(t['a']))})")
    if nm == "pair":
        o = float(fr(t["other"]))
        ol = rlit(fr(t["other"]))
        if t["blk"] == "a":
            return (lambda v: -v * v / 2 - (o - v) ** 2 / 2, lambda v: -v + (o - v), lambda v: 2.0,
                    f"(fun a => lp_pair a {ol})", f"(sc_pair_a {ol})", f"(in_pair_a {ol})")
        return (lambda v: -o * o / 2 - (v - o) ** 2 / 2, lambda v: -(v - o), lambda v: 1.0,
                f"(lp_pair {ol})", f"(sc_pair_b {ol})", f"(in_pair_b {ol})")
    if nm == "lm":
        ys = [float(fr(v)) for v in t["ys"]]
        tau, rate, o = float(fr(t["tau"])), float(fr(t["rate"])), float(fr(t["other"]))
        pre = f"{lst(rlit(fr(v)) for v in t['ys'])} {rlit(fr(t['tau']))} {rlit(fr(t['rate']))}"
        ol = rlit(fr(t["other"]))
        g = lambda y, m, sd: -math.log(sd) - (y - m) ** 2 / (2 * sd * sd) - math.log(2 * math.pi) / 2
        full = lambda mu, th: (sum(g(y, mu, math.exp(th)) for y in ys) + g(mu, 0.0, tau)
                               + (math.log(rate) - rate * math.exp(th)) + th)
        nn = len(ys)
        if t["blk"] == "mu":
            th = o
            return (lambda v: full(v, th),
                    lambda v: sum((y - v) for y in ys) / math.exp(th) ** 2 - v / tau ** 2,
                    lambda v: nn / math.exp(th) ** 2 + 1 / tau ** 2,
                    f"(fun m => lp_lm {pre} m {ol})", f"(sc_lm_mu {pre} {ol})", f"(in_lm_mu {pre} {ol})")
        mu = o
        ss = sum((y - mu) ** 2 for y in ys)
        return (lambda v: full(mu, v),
                lambda v: -nn + ss / math.exp(v) ** 2 - rate * math.exp(v) + 1,
                lambda v: 2 * ss / math.exp(v) ** 2 + rate * math.exp(v),
                f"(lp_lm {pre} {ol})", f"(sc_lm_theta {pre} {ol})", f"(in_lm_theta {pre} {ol})")
    if nm == "hier":
        yv, sd, o = float(fr(t["y"])), float(fr(t["sd"])), float(fr(t["other"]))
        pre = f"{rlit(fr(t['y']))} {rlit(fr(t['sd']))}"
        ol = rlit(fr(t["other"]))
        sg = lambda u: 1.0 / (1.0 + math.exp(-u))
        full = lambda tt, u: (4 * tt - math.exp(tt) - math.log(6.0) - math.log1p(math.exp(-u)) - math.log1p(math.exp(u))
                              - math.log(sd) - (yv - math.exp(tt) * sg(u)) ** 2 / (2 * sd * sd) - math.log(2 * math.pi) / 2)
        if t["blk"] == "t":
            u = o
            xx = lambda v: math.exp(v) * sg(u)
            return (lambda v: full(v, u), lambda v: 4 - math.exp(v) + (yv - xx(v)) * xx(v) / sd ** 2,
                    lambda v: math.exp(v) + xx(v) * (2 * xx(v) - yv) / sd ** 2,
                    f"(fun t => lp_hier {pre} t {ol})", f"(sc_hier_t {pre} {ol})", f"(in_hier_t {pre} {ol})")
        tt = o
        th = math.exp(tt)
        d1 = lambda v: sg(v) * (1 - sg(v))
        return (lambda v: full(tt, v),
                lambda v: 1 - 2 * sg(v) + (yv - th * sg(v)) * th * d1(v) / sd ** 2,
                lambda v: 2 * d1(v) + ((th * d1(v)) ** 2 - (yv - th * sg(v)) * th * d1(v) * (1 - 2 * sg(v))) / sd ** 2,
                f"(lp_hier {pre} {ol})", f"(sc_hier_u {pre} {ol})", f"(in_hier_u {pre} {ol})")
    raise ValueError(nm)


def hier_model(t):
    """theta ~ Gamma(4,1) (transformed with Exp), x | theta ~ Uniform(0, theta) transformed with its DEFAULT event space
    bijector, the sigmoid onto (0, theta): the bijector of x depends on another sampled parameter; y ~ N(x, sd)"""
    j = J()
    jnp, np, gs, lsl = j["jnp"], j["np"], j["gs"], j["lsl"]
    kk = ("hier", t["y"], t["sd"])
    if kk in _LM_CACHE:
        return _LM_CACHE[kk]
    import tensorflow_probability.substrates.jax.distributions as tfd
    import tensorflow_probability.substrates.jax.bijectors as tfb
    f64 = lambda v: lsl.Value(np.float64(v))
    theta = lsl.Var(jnp.asarray(1.0), lsl.Dist(tfd.Gamma, concentration=f64(4.0), rate=f64(1.0)), name="theta")
    theta.parameter = True
    x = lsl.Var(jnp.asarray(0.5), lsl.Dist(tfd.Uniform, low=f64(0.0), high=theta), name="x")
    x.parameter = True
    y = lsl.Var(jnp.asarray(float(fr(t["y"]))), lsl.Dist(tfd.Normal, loc=x, scale=f64(float(fr(t["sd"])))), name="y")
    y.observed = True
    tt = theta.transform(tfb.Exp())
    ux = x.transform()
    model = lsl.GraphBuilder(to_float32=False).add(y).build_model()
    _LM_CACHE[kk] = (gs.LieselInterface(model), model.state, tt.name, ux.name)
    return _LM_CACHE[kk]


_LM_CACHE = {}


def lm_model(t):
    """Liesel model  y_i ~ N(mu, sigma), mu ~ N(0, tau), sigma ~ Exponential(rate), sigma = exp(theta)"""
    j = J()
    jnp, np, gs, lsl = j["jnp"], j["np"], j["gs"], j["lsl"]
    kk = (tuple(t["ys"]), t["tau"], t["rate"])
    if kk in _LM_CACHE:
        return _LM_CACHE[kk]
    import tensorflow_probability.substrates.jax.distributions as tfd
    import tensorflow_probability.substrates.jax.bijectors as tfb
    ys = np.array([float(fr(v)) for v in t["ys"]])
    mu = lsl.Var(jnp.asarray(0.0), lsl.Dist(tfd.Normal, loc=lsl.Value(np.float64(0.0)),
                                            scale=lsl.Value(np.float64(float(fr(t["tau"]))))), name="mu")
    mu.parameter = True
    sigma = lsl.Var(jnp.asarray(1.0), lsl.Dist(tfd.Exponential, rate=lsl.Value(np.float64(float(fr(t["rate"]))))), name="sigma")
    sigma.parameter = True
    y = lsl.Var(ys, lsl.Dist(tfd.Normal, loc=mu, scale=sigma), name="y")
    y.observed = True
    th = sigma.transform(tfb.Exp())
    model = lsl.GraphBuilder(to_float32=False).add(y).build_model()
    iface = gs.LieselInterface(model)
    _LM_CACHE[kk] = (iface, model.state, th.name)
    return _LM_CACHE[kk]


_IFACE = {}
_STEP = {}


def cont_env(t):
    """(iface, state_of(block value), block key, read(ms) -> (block value, other value), other value, cache key).
    Parameters of the dict targets ride in the model state, so one interface (and one compiled transition)
    serves all cases of a family."""
    j = J()
    jnp, gs = j["jnp"], j["gs"]
    nm = t["name"]
    A = lambda v: jnp.asarray(float(v))
    if nm in ("gauss", "quartic", "loggamma"):
        if nm not in _IFACE:
            f = {"gauss": lambda st: -(st["x"] - st["p1"]) ** 2 / (2 * st["p2"] * st["p2"]),
                 "quartic": lambda st: -st["x"] ** 4 / 4 - st["x"] ** 2 / 2,
                 "loggamma": lambda st: st["p1"] * st["x"] - jnp.exp(st["x"])}[nm]
            _IFACE[nm] = gs.DictInterface(f)
        p1 = float(fr(t.get("m", t.get("a", "0"))))
        p2 = float(fr(t.get("s", "1")))
        return _IFACE[nm], (lambda v: {"x": A(v), "p1": A(p1), "p2": A(p2), "aux": A(7.0)}), "x", \
            (lambda ms: (float(ms["x"]), float(ms["aux"]))), 7.0, nm
    if nm == "pair":
        if nm not in _IFACE:
            _IFACE[nm] = gs.DictInterface(lambda st: -st["a"] ** 2 / 2 - (st["b"] - st["a"]) ** 2 / 2)
        blk, oth = t["blk"], ("b" if t["blk"] == "a" else "a")
        o = float(fr(t["other"]))
        return _IFACE[nm], (lambda v: {blk: A(v), oth: A(o)}), blk, (lambda ms: (float(ms[blk]), float(ms[oth]))), o, nm
    if nm == "lm":
        iface, base, thname = lm_model(t)
        blk, oth = ("mu", thname) if t["blk"] == "mu" else (thname, "mu")
        o = float(fr(t["other"]))

        def state_of(v):
            return iface.update_state({blk: A(v), oth: A(o)}, base)

        def read(ms):
            p = iface.extract_position([blk, oth], ms)
            return float(p[blk]), float(p[oth])
        return iface, state_of, blk, read, o, ("lm", tuple(t["ys"]), t["tau"], t["rate"])
    if nm == "hier":
        iface, base, tname, uname = hier_model(t)
        blk, oth = (tname, uname) if t["blk"] == "t" else (uname, tname)
        o = float(fr(t["other"]))

        def state_of(v):
            return iface.update_state({blk: A(v), oth: A(o)}, base)

        def read(ms):
            p = iface.extract_position([blk, oth], ms)
            return float(p[blk]), float(p[oth])
        return iface, state_of, blk, read, o, ("hier", t["y"], t["sd"])
    raise ValueError(nm)


def kstate_sig(ks):
    j = J()
    return [float(v) for leaf in j["jax"].tree_util.tree_leaves(ks) for v in j["np"].ravel(j["np"].asarray(leaf))]


def cont_observe(spec):
    j = J()
    jax, gs = j["jax"], j["gs"]
    t = spec["target"]
    iface, state_of, blk, read, other, tkey = cont_env(t)
    s = float(fr(spec["step"]))
    x, z = float(fr(spec["x"])), float(fr(spec["z"]))
    K = gs.RWKernel if spec["kernel"] == "rw" else gs.IWLSKernel
    key = jax.random.PRNGKey(KEY_SEED)
    use_jit = spec["kernel"] == "iwls" or t["name"] in ("lm", "hier") or spec.get("jit", False)
    ck = (tkey, blk, spec["kernel"], use_jit)
    if ck not in _STEP:
        ker = K([blk], initial_step_size=1.0)
        ker.set_model(iface)
        f = lambda ks_, ms_, ep_: ker.transition(key, ks_, ms_, ep_)
        _STEP[ck] = jax.jit(f) if use_jit else f
    step = _STEP[ck]
    k0 = K([blk], initial_step_size=s)
    k0.set_model(iface)
    ks = k0.init_state(key, state_of(x))
    ep = epoch(spec.get("epoch", "posterior"))
    lp, sc, inf = ctarget(t)[:3]
    obs = {"jit": use_jit}

    def run(v, zz, u):
        _reset(z=[zz], u=[u])
        out = step(ks, state_of(v), ep)
        nv, no = read(out.model_state)
        return {"new": nv, "other": no, "acc": float(out.info.acceptance_prob), "moved": bool(out.info.position_moved),
                "code": int(out.info.error_code), "lp": float(iface.log_prob(out.model_state)),
                "ks_same": kstate_sig(out.kernel_state) == kstate_sig(ks)}

    with forcing():
        fwd = run(x, z, 0.0)
        rej = run(x, z, U1)
        y = fwd["new"]
        if spec["kernel"] == "rw":
            zb = (x - y) / s
        else:
            iy = inf(y) if (math.isfinite(y) and inf(y) > 0) else 1.0
            mu_y = y + s * s / 2 * sc(y) / iy if math.isfinite(y) else x
            zb = (x - mu_y) * math.sqrt(iy) / s
        bwd = run(y if math.isfinite(y) else x, zb, 0.0)
    obs.update(fwd=fwd, rej=rej, bwd=bwd, zb=zb, other=other)
    obs["degenerate"] = (fwd["acc"] < 1e-12 or bwd["acc"] < 1e-12 or y == x) and fwd["code"] == 0 and bwd["code"] == 0
    if spec["kernel"] == "iwls" and not (inf(x) > 1e-6 and math.isfinite(y) and inf(y) > 1e-6):
        obs["degenerate"] = True          # IWLS needs a positive information at both ends (Cholesky)
    return obs


def cont_logq(spec):
    t = spec["target"]
    lp, sc, inf = ctarget(t)[:3]
    s = float(fr(spec["step"]))
    npdf = lambda v, m, sd: -math.log(sd) - (v - m) ** 2 / (2 * sd * sd) - math.log(2 * math.pi) / 2
    if spec["kernel"] == "rw":
        return lambda u, v: npdf(v, u, s)
    return lambda u, v: npdf(v, u + s * s / 2 * sc(u) / inf(u), s / math.sqrt(inf(u)))


def cont_oracle(c):
    spec, o = c["spec"], c["obs"]
    lp = ctarget(spec["target"])[0]
    logq = cont_logq(spec)
    x = float(fr(spec["x"]))
    fwd, rej, bwd = o["fwd"], o["rej"], o["bwd"]
    y = fwd["new"]
    desc = f"{spec['kernel']} on {spec['target']} step {spec['step']} x={x} z={spec['z']}"
    if o.get("degenerate"):
        return None
    for nm, r in (("forward", fwd), ("rejected", rej), ("backward", bwd)):
        if r["code"] != 0:
            return f"{desc}: error code {r['code']} in the {nm} move"
        if abs(r["other"] - o["other"]) > 0:
            return f"{desc}: the {nm} move changed a part of the state outside the kernel's block"
        if not r["ks_same"]:
            return f"{desc}: tuning state changed in a {spec.get('epoch', 'posterior')} epoch"
    if o.get("degenerate"):
        return None
    if not fwd["moved"]:
        return f"{desc}: forced acceptance (uniform 0) did not move the chain (acceptance prob {fwd['acc']})"
    if rej["acc"] < 1 and (rej["moved"] or rej["new"] != x):
        return f"{desc}: forced rejection (uniform just below 1, acceptance prob {rej['acc']}) moved the chain to {rej['new']}"
    if abs(bwd["new"] - x) > 1e-9 * (1 + abs(x)) and bwd["moved"]:
        return f"{desc}: the reverse draw z'={o['zb']} from y={y} does not propose x (got {bwd['new']}): proposal is not the documented location-scale map"
    L = math.exp(lp(x) + logq(x, y)) * fwd["acc"]
    R = math.exp(lp(y) + logq(y, x)) * bwd["acc"]
    scale = max(math.exp(lp(x) + logq(x, y)), math.exp(lp(y) + logq(y, x)))
    if abs(L - R) > 1e-8 * scale:
        return (f"{desc}: detailed balance fails: pi(x)q(x,y)a(x->y) = {L:.12e} but pi(y)q(y,x)a(y->x) = {R:.12e} "
                f"(y={y}, a_fwd={fwd['acc']}, a_bwd={bwd['acc']})")
    if abs(fwd["lp"] - lp(y)) > 1e-8 * (1 + abs(lp(y))) and spec["target"]["name"] in ("pair", "lm", "hier"):
        return f"{desc}: log_prob of the returned state {fwd['lp']} is not the density at the new position {lp(y)}"
    return None


def cont_emit_goals(ci, c):
    spec, o = c["spec"], c["obs"]
    lpT, scT, inT = ctarget(spec["target"])[3:]
    s = rlit(fr(spec["step"]))
    x, z = rlit(fr(spec["x"])), rlit(fr(spec["z"]))
    y, yb = rlit(F(o["fwd"]["new"])), rlit(F(o["bwd"]["new"]))
    af, ab = rlit(F(o["fwd"]["acc"])), rlit(F(o["bwd"]["acc"]))
    zb = rlit(F(o["zb"]))
    if spec["kernel"] == "rw":
        logq = f"(rw_logq {s})"
        prop = lambda a, b: f"rw_proposal {s} {a} {b}"
    else:
        logq = f"(iwls_logq {s} {scT} {inT})"
        prop = lambda a, b: f"iwls_proposal {s} {scT} {inT} {a} {b}"
    lp = ctarget(spec["target"])[0]
    lq = cont_logq(spec)
    xf, yf = float(fr(spec["x"])), o["fwd"]["new"]
    scale = max(math.exp(lp(xf) + lq(xf, yf)), math.exp(lp(yf) + lq(yf, xf)))
    tol = rlit(Fraction(1, 10 ** 9))
    tol_db = rlit(F(scale) / 10 ** 8)
    tol_p = rlit(Fraction(1, 10 ** 9) * (1 + abs(F(o["fwd"]["new"]))))
    g = []
    g.append((f"c{ci}_proposal", f"Rabs ({prop(x, z)} - {y}) <= {tol_p}"))
    g.append((f"c{ci}_proposal_back", f"Rabs ({prop(y, zb)} - {yb}) <= {tol_p}"))
    g.append((f"c{ci}_alpha_fwd", f"Rabs (mh_alpha {lpT} {logq} {x} {y} - {af}) <= {tol}"))
    g.append((f"c{ci}_alpha_bwd", f"Rabs (mh_alpha {lpT} {logq} {y} {x} - {ab}) <= {tol}"))
    g.append((f"c{ci}_detailed_balance", f"Rabs (db_residual {lpT} {logq} {x} {y} {af} {ab}) <= {tol_db}"))
    if spec["target"]["name"] in ("pair", "lm", "hier"):
        g.append((f"c{ci}_state_coherent", f"Rabs ({lpT} {y} - {rlit(F(o['fwd']['lp']))}) <= {rlit(Fraction(1, 10 ** 8))}"))
    return g


# =================================================================================================
# glue: HMC / NUTS
# =================================================================================================
def lmraw_model(t):
    """the Liesel linear model with sigma sampled on its ORIGINAL scale (bounded support, no transformation)"""
    j = J()
    jnp, np, gs, lsl = j["jnp"], j["np"], j["gs"], j["lsl"]
    kk = ("raw", tuple(t["ys"]), t["tau"], t["rate"])
    if kk in _LM_CACHE:
        return _LM_CACHE[kk]
    import tensorflow_probability.substrates.jax.distributions as tfd
    ys = np.array([float(fr(v)) for v in t["ys"]])
    mu = lsl.Var(jnp.asarray(0.0), lsl.Dist(tfd.Normal, loc=lsl.Value(np.float64(0.0)),
                                            scale=lsl.Value(np.float64(float(fr(t["tau"]))))), name="mu")
    mu.parameter = True
    sigma = lsl.Var(jnp.asarray(1.0), lsl.Dist(tfd.Exponential, rate=lsl.Value(np.float64(float(fr(t["rate"]))))), name="sigma")
    sigma.parameter = True
    y = lsl.Var(ys, lsl.Dist(tfd.Normal, loc=mu, scale=sigma), name="y")
    y.observed = True
    model = lsl.GraphBuilder(to_float32=False).add(y).build_model()
    _LM_CACHE[kk] = (gs.LieselInterface(model), model.state)
    return _LM_CACHE[kk]


def xcls(v):
    v = float(v)
    return "nan" if math.isnan(v) else ("inf" if v == math.inf else ("-inf" if v == -math.inf else v))


def glue_env(spec):
    j = J()
    jnp, gs = j["jnp"], j["gs"]
    m = spec["model"]
    if m["name"] == "pair":
        iface = gs.DictInterface(lambda st: -st["a"] ** 2 / 2 - (st["b"] - st["a"]) ** 2 / 2)
        keys = ["a", "b"]
        state_of = lambda p: {k: jnp.asarray(float(fr(p[k]))) for k in keys}
        dens = lambda p: -p["a"] ** 2 / 2 - (p["b"] - p["a"]) ** 2 / 2
        coq = lambda p: f"lp_pair {rlit(p['a'])} {rlit(p['b'])}"
        names = {"a": "a", "b": "b"}
    elif m["name"] == "pg":
        # Poisson-Gamma posterior on its original scale: log lam - 3 lam; NaN for lam < 0, -inf at 0 (jnp.log)
        if "pg" not in _IFACE:
            _IFACE["pg"] = gs.DictInterface(lambda st: jnp.log(st["lam"]) - 3.0 * st["lam"])
        iface = _IFACE["pg"]
        state_of = lambda p: {"lam": jnp.asarray(float(fr(p["lam"])))}
        dens = lambda p: jnp.log(p["lam"]) - 3.0 * p["lam"]
        coq = lambda p: f"(ln {rlit(p['lam'])} - 3 * {rlit(p['lam'])})"
        names = {"lam": "lam"}
    elif m["name"] == "hier":
        iface, base, tname, uname = hier_model(m)
        names = {"t": tname, "u": uname}
        yv, sd = float(fr(m["y"])), float(fr(m["sd"]))
        state_of = lambda p: iface.update_state({names[k]: jnp.asarray(float(fr(p[k]))) for k in ("t", "u")}, base)

        def dens(p):
            sg = 1.0 / (1.0 + jnp.exp(-p["u"]))
            return (4 * p["t"] - jnp.exp(p["t"]) - jnp.log(6.0) - jnp.log1p(jnp.exp(-p["u"])) - jnp.log1p(jnp.exp(p["u"]))
                    - jnp.log(sd) - (yv - jnp.exp(p["t"]) * sg) ** 2 / (2 * sd * sd) - jnp.log(2 * jnp.pi) / 2)
        coq = lambda p: f"lp_hier {rlit(fr(m['y']))} {rlit(fr(m['sd']))} {rlit(p['t'])} {rlit(p['u'])}"
    elif m["name"] == "lmraw":
        iface, base = lmraw_model(m)
        names = {"mu": "mu", "sigma": "sigma"}
        ys = jnp.asarray([float(fr(v)) for v in m["ys"]])
        tau, rate = float(fr(m["tau"])), float(fr(m["rate"]))
        state_of = lambda p: iface.update_state({k: jnp.asarray(float(fr(p[k]))) for k in ("mu", "sigma")}, base)
        g = lambda y, mm, sd: -jnp.log(sd) - (y - mm) ** 2 / (2 * sd * sd) - jnp.log(2 * jnp.pi) / 2

        def dens(p):
            s = p["sigma"]
            return jnp.sum(g(ys, p["mu"], s)) + g(p["mu"], 0.0, tau) + (jnp.log(rate) - rate * s)
        pre = f"{lst(rlit(fr(v)) for v in m['ys'])} {rlit(fr(m['tau']))} {rlit(fr(m['rate']))}"
        coq = lambda p: f"(lp_lm {pre} {rlit(p['mu'])} (ln {rlit(p['sigma'])}) - ln {rlit(p['sigma'])})"
    else:
        iface, base, thname = lm_model(m)
        names = {"mu": "mu", "theta": thname}
        ys = jnp.asarray([float(fr(v)) for v in m["ys"]])
        tau, rate = float(fr(m["tau"])), float(fr(m["rate"]))
        state_of = lambda p: iface.update_state({names[k]: jnp.asarray(float(fr(p[k]))) for k in ("mu", "theta")}, base)
        g = lambda y, mm, sd: -jnp.log(sd) - (y - mm) ** 2 / (2 * sd * sd) - jnp.log(2 * jnp.pi) / 2

        def dens(p):
            s = jnp.exp(p["theta"])
            return jnp.sum(g(ys, p["mu"], s)) + g(p["mu"], 0.0, tau) + (jnp.log(rate) - rate * s) + p["theta"]
        pre = f"{lst(rlit(fr(v)) for v in m['ys'])} {rlit(fr(m['tau']))} {rlit(fr(m['rate']))}"
        coq = lambda p: f"lp_lm {pre} {rlit(p['mu'])} {rlit(p['theta'])}"
    return iface, state_of, dens, coq, names


def glue_observe(spec):
    j = J()
    jax, jnp, np, gs = j["jax"], j["jnp"], j["np"], j["gs"]
    import blackjax
    iface, state_of, dens, coq, names = glue_env(spec)
    blocks = spec["blocks"]                                   # logical names, in the order handed to the kernel
    pkeys = [names[b] for b in blocks]
    imm = jnp.asarray([float(fr(v)) for v in spec["imm"]])
    step = float(fr(spec["step"]))
    if spec["kernel"] == "hmc":
        ker = gs.HMCKernel(pkeys, num_integration_steps=spec["n"], initial_step_size=step, initial_inverse_mass_matrix=imm)
    else:
        ker = gs.NUTSKernel(pkeys, max_treedepth=spec["n"], initial_step_size=step, initial_inverse_mass_matrix=imm)
    ker.set_model(iface)
    st = state_of(spec["pos"])
    all_l = sorted(names)
    rev = {v: k for k, v in names.items()}
    obs = {}
    # reference: blackjax on the harness's own closed-form density of the block, rest fixed
    fixed = {l: float(fr(spec["pos"][l])) for l in all_l if l not in blocks}

    def ld(p):
        return dens({**{rev[k]: v for k, v in p.items()}, **fixed})
    pos0 = {names[b]: jnp.asarray(float(fr(spec["pos"][b]))) for b in blocks}
    if spec["kernel"] == "hmc":
        ref = blackjax.hmc(ld, step_size=step, inverse_mass_matrix=imm, num_integration_steps=spec["n"])
    else:
        ref = blackjax.nuts(ld, step_size=step, inverse_mass_matrix=imm, max_num_doublings=spec["n"])
    ref_step = jax.jit(ref.step)
    seed = spec["seed"]
    if spec.get("seeds"):
        # boundary stratum: take the first key for which the reference trajectory leaves the support
        # (blackjax rejects it: NaN energy); the real kernel must then stay where it is, too
        seed = spec["seeds"][0]
        for sd in spec["seeds"]:
            s1, info = ref_step(jax.random.PRNGKey(sd), ref.init(pos0))
            stay = all(float(s1.position[names[b]]) == float(fr(spec["pos"][b])) for b in blocks)
            if stay and (spec["kernel"] == "nuts" or float(info.acceptance_rate) == 0.0):
                seed = sd
                obs["reference_left_support"] = True
                break
    obs["seed_used"] = seed
    key = jax.random.PRNGKey(seed)
    ks = ker.init_state(key, st)
    ep = epoch(spec.get("epoch", "posterior"))
    # (g0) log_prob_fn against the model's own block log-density (log_prob o update_state) at every probe,
    #      including points where the density is NaN / -inf / +inf
    obs["probes"] = []
    lpf = ker.log_prob_fn(st)
    for pr in spec.get("probe_list", []):
        pp = {names[b]: jnp.asarray(float(fr(pr[b]))) for b in blocks}
        full = {l: pr.get(l, spec["pos"][l]) for l in all_l}               # a probe may also move the OTHER parameters
        stp = state_of(full) if any(l not in blocks for l in pr) else st
        fullv = {l: jnp.asarray(float(fr(full[l]))) for l in all_l}
        obs["probes"].append({"at": pr, "lpf": xcls(ker.log_prob_fn(stp)(pp)), "model": xcls(iface.log_prob(iface.update_state(pp, stp))),
                              "closed_form": xcls(dens(fullv)), "coq": coq({l: fr(full[l]) for l in all_l})})
    # (g1) log_prob_fn at a probe position of the block, the rest as in the state
    probe = {names[b]: jnp.asarray(float(fr(spec["probe"][b]))) for b in blocks}
    obs["lpf"] = float(ker.log_prob_fn(st)(probe))
    full_probe = {l: (fr(spec["probe"][l]) if l in blocks else fr(spec["pos"][l])) for l in all_l}
    obs["lpf_coq"] = coq(full_probe)
    # (g2) the transition, jitted
    out = jax.jit(lambda k, s_, m_: ker.transition(key, s_, m_, ep))(key, ks, st)
    newp = iface.extract_position([names[l] for l in all_l], out.model_state)
    obs["new"] = {l: float(newp[names[l]]) for l in all_l}
    obs["lp_new"] = float(iface.log_prob(out.model_state))
    obs["ks_same"] = kstate_sig(out.kernel_state) == kstate_sig(ks)
    obs["acc"] = float(out.info.acceptance_prob)
    obs["code"] = int(out.info.error_code)
    obs["lp_new_coq"] = coq({l: F(obs["new"][l]) for l in all_l}) if all(math.isfinite(v) for v in obs["new"].values()) else "0"
    s1, info = ref_step(key, ref.init(pos0))
    obs["ref"] = {rev[k]: float(v) for k, v in s1.position.items()}
    obs["ref_acc"] = float(info.acceptance_rate)
    return obs


def glue_oracle(c):
    spec, o = c["spec"], c["obs"]
    desc = f"{spec['kernel']} on blocks {spec['blocks']} of {spec['model']['name']} (seed {o.get('seed_used', spec['seed'])}, step {spec['step']}, start {spec['pos']})"
    for pr in o.get("probes", []):
        for other in ("model", "closed_form"):
            a, b = pr["lpf"], pr[other]
            same = (a == b) if isinstance(a, str) or isinstance(b, str) else abs(a - b) <= 1e-8 * (1 + abs(b))
            if not same:
                return (f"{desc}: log_prob_fn at {pr['at']} returns {a} but the model's block log-density there is {b} ({other}): the "
                        "kernel does not target exp(block log-density) with weight zero where the density is undefined")
    if not math.isfinite(o["lp_new"]):
        return (f"{desc}: the transition moved to {o['new']} where the model log-density is {o['lp_new']} (outside the support), "
                f"reported acceptance probability {o['acc']}")
    for l, v in o["new"].items():
        if l in spec["blocks"]:
            if abs(v - o["ref"][l]) > 1e-7 * (1 + abs(v)):
                return (f"{desc}: new {l} = {v} but blackjax on the block's conditional density with the same key, step size "
                        f"and inverse mass matrix gives {o['ref'][l]} (the transition is not blackjax's step for the model density of the block with the stored step size / inverse mass matrix)")
        elif v != float(fr(spec["pos"][l])):
            return f"{desc}: changed {l}, which is not in its block"
    if abs(o["acc"] - o["ref_acc"]) > 1e-7:
        return f"{desc}: reported acceptance probability {o['acc']} differs from blackjax's {o['ref_acc']}"
    if not o["ks_same"]:
        return f"{desc}: tuning state (step size / inverse mass matrix) changed in a {spec.get('epoch', 'posterior')} epoch"
    return None


def xlit(v):
    if isinstance(v, str):
        return {"nan": "XNaN", "-inf": "XNegInf", "inf": "XPosInf"}[v]
    f = F(v)
    return f"(XFin (Qmake {common.zlit(f.numerator)} {f.denominator}))"


def glue_emit_probes(ctx, ci, c):
    pr = c["obs"].get("probes")
    if not pr:
        return None
    rows = lst(f"({xlit(p['lpf'])}, {xlit(p['model'])})" for p in pr)
    txt = ("From Coq Require Import List Bool QArith.\nImport ListNotations.\nFrom LV Require Import Base.Xnum Goose.CorrC04Keys.\n"
           f"Lemma c{ci}_log_prob_fn_classes : probes_ok {rows} = true.\nProof. vm_compute. reflexivity. Qed.\n")
    return ctx.new_shard(txt, f"c{ci:03d}_probes")


def glue_emit_goals(ci, c):
    o = c["obs"]
    t8 = rlit(Fraction(1, 10 ** 8))
    # a non-finite observation where the model is finite (or a move out of the support) cannot agree: the lemma is False
    g1 = f"Rabs ({o['lpf_coq']} - {rlit(F(o['lpf']))}) <= {t8}" if math.isfinite(o["lpf"]) else "False"
    g2 = f"Rabs ({o['lp_new_coq']} - {rlit(F(o['lp_new']))}) <= {t8}" if math.isfinite(o["lp_new"]) else "False"
    gs_ = [(f"c{ci}_log_prob_fn", g1), (f"c{ci}_written_back", g2)]
    if c["spec"].get("probe_r"):
        # log_prob_fn against the closed form of the (transformed) model density at further probes, the other
        # parameters moved as well
        for k, pr in enumerate(o.get("probes", [])[:4]):
            gs_.append((f"c{ci}_log_prob_fn_probe{k}",
                        f"Rabs ({pr['coq']} - {rlit(F(pr['lpf']))}) <= {t8}" if not isinstance(pr["lpf"], str) else "False"))
    return gs_


# =================================================================================================
# tau2: the real tau2_gibbs_kernel (distreg.py) draws from the model's full conditional
# =================================================================================================
def exact_rank(K) -> int:
    m = [[fr(x) for x in row] for row in K]
    n = len(m)
    r = 0
    for c in range(n):
        piv = next((i for i in range(r, n) if m[i][c] != 0), None)
        if piv is None:
            continue
        m[r], m[piv] = m[piv], m[r]
        for i in range(n):
            if i != r and m[i][c] != 0:
                f = m[i][c] / m[r][c]
                m[i] = [x - f * y for x, y in zip(m[i], m[r])]
        r += 1
    return r


def diff_pen(p, order):
    D = [[Fraction(0)] * p for _ in range(p)]
    rows = [[Fraction(int(i == j)) for j in range(p)] for i in range(p)]
    for _ in range(order):
        rows = [[b - a for a, b in zip(rows[i], rows[i + 1])] for i in range(len(rows) - 1)]
    for i in range(p):
        for j in range(p):
            D[i][j] = sum(r[i] * r[j] for r in rows)
    return [[str(v) for v in row] for row in D]


def tau2_observe(spec):
    j = J()
    jax, jnp, np, gs = j["jax"], j["jnp"], j["np"], j["gs"]
    import tensorflow_probability.substrates.jax.distributions as tfd
    import tensorflow_probability.substrates.jax.bijectors as tfb
    from liesel.model.distreg import DistRegBuilder, tau2_gibbs_kernel
    f = lambda rows: np.array([[float(fr(v)) for v in r] for r in rows], dtype=np.float64)
    b = DistRegBuilder()
    b.to_float32 = False
    y = np.array([float(fr(v)) for v in spec["y"]], dtype=np.float64)
    b.add_response(y, tfd.Normal)
    b.add_predictor("loc", tfb.Identity)
    b.add_predictor("scale", tfb.Exp)
    b.add_p_smooth(np.ones((len(y), 1)), 0.0, 4.0, "scale", name="sc")
    b.add_np_smooth(f(spec["X"]), f(spec["K"]), float(fr(spec["a"])), float(fr(spec["b"])), "loc", name="s")
    model = b.build_model()
    iface = gs.LieselInterface(model)
    state = iface.update_state({"s_beta": jnp.asarray([float(fr(v)) for v in spec["beta"]]),
                                "s_a": jnp.asarray(float(fr(spec["a"]))), "s_b": jnp.asarray(float(fr(spec["b"]))),
                                "sc_beta": jnp.asarray([0.25])}, model.state)
    group = model.groups()["s"]
    ker = tau2_gibbs_kernel(group)
    ker.set_model(iface)
    tname = group["tau2"].name
    key = jax.random.PRNGKey(KEY_SEED)
    calls = []
    g = float(fr(spec["g"]))

    def fake(k, a, *args, **kw):
        calls.append(float(np.asarray(a)))
        return jnp.asarray(g, dtype=jnp.result_type(a))

    with mock.patch("jax.random.gamma", fake):
        out = ker.transition(key, ker.init_state(key, state), state, epoch("posterior"))
    draw = float(np.asarray(iface.extract_position([tname], out.model_state)[tname]))
    lps = [float(iface.log_prob(iface.update_state({tname: jnp.asarray(float(fr(t)))}, state))) for t in spec["ts"]]
    others = iface.extract_position(["s_beta"], out.model_state)["s_beta"]
    return {"ncalls": len(calls), "conc": calls[0] if calls else None, "draw": draw, "rate": draw * g, "lps": lps,
            "rank_exact": exact_rank(spec["K"]), "p": len(spec["beta"]),
            "beta_same": bool(np.allclose(np.asarray(others), [float(fr(v)) for v in spec["beta"]])),
            "lp_new": float(iface.log_prob(out.model_state)),
            "lp_direct": float(iface.log_prob(iface.update_state({tname: jnp.asarray(draw)}, state)))}


def tau2_expected(spec, o):
    bq = [fr(v) for v in spec["beta"]]
    quad = sum(bq[i] * fr(spec["K"][i][k]) * bq[k] for i in range(len(bq)) for k in range(len(bq)))
    return fr(spec["a"]) + Fraction(o["rank_exact"], 2), fr(spec["b"]) + quad / 2


def tau2_oracle(c):
    spec, o = c["spec"], c["obs"]
    desc = (f"tau2_gibbs_kernel, penalty K={spec['K']} (rank {o['rank_exact']} of {o['p']}), beta={spec['beta']}, "
            f"a={spec['a']}, b={spec['b']}")
    if o["ncalls"] != 1:
        return None       # another sampler: the law cannot be read off a patched gamma (C13 judges the draws' distribution)
    a, b = o["conc"], o["rate"]
    ea, eb = tau2_expected(spec, o)
    ts = [float(fr(t)) for t in spec["ts"]]
    k = lambda t: -(a + 1) * math.log(t) - b / t
    for i in range(1, len(ts)):
        dm = o["lps"][i] - o["lps"][0]
        dk = k(ts[i]) - k(ts[0])
        if abs(dm - dk) > 1e-7 * (1 + abs(dm)):
            return (f"{desc}: the kernel draws tau2 ~ InverseGamma({a}, {b}) but the model's full conditional differs: "
                    f"log p(tau2={spec['ts'][i]} | rest) - log p(tau2={spec['ts'][0]} | rest) = {dm:.10f} (model log_prob) vs {dk:.10f} (kernel); "
                    f"the full conditional is InverseGamma(a + rank/2 = {float(ea)}, b + beta'K beta/2 = {float(eb)})")
    if abs(a - float(ea)) > 1e-9 or abs(b - float(eb)) > 1e-9 * (1 + float(eb)):
        return f"{desc}: kernel law InverseGamma({a}, {b}), full conditional InverseGamma({float(ea)}, {float(eb)})"
    if not o["beta_same"] or abs(o["lp_new"] - o["lp_direct"]) > 1e-8 * (1 + abs(o["lp_direct"])):
        return f"{desc}: the returned state is not the input state with tau2 replaced by the draw"
    return None


def tau2_emit_goals(ci, c):
    spec, o = c["spec"], c["obs"]
    if o["ncalls"] != 1:
        return []
    a, b = rlit(F(o["conc"])), rlit(F(o["rate"]))
    ea, eb = tau2_expected(spec, o)
    t8 = rlit(Fraction(1, 10 ** 7))
    g = [(f"c{ci}_tau2_concentration", f"Rabs ({a} - {rlit(ea)}) <= {rlit(Fraction(1, 10 ** 9))}"),
         (f"c{ci}_tau2_scale", f"Rabs ({b} - {rlit(eb)}) <= {rlit(Fraction(1, 10 ** 9) * (1 + eb))}")]
    t0 = rlit(fr(spec["ts"][0]))
    for i in range(1, len(spec["ts"])):
        ti = rlit(fr(spec["ts"][i]))
        dm = F(o["lps"][i]) - F(o["lps"][0])
        g.append((f"c{ci}_tau2_conditional_{i}",
                  f"Rabs ((ig_logkernel {a} {b} {ti} - ig_logkernel {a} {b} {t0}) - {rlit(dm)}) <= {rlit(Fraction(1, 10 ** 7) * (1 + abs(dm)))}"))
    return g


def tau2_py_disagree(ci, c):
    spec, o = c["spec"], c["obs"]
    if o["ncalls"] != 1:
        return []
    bad = []
    ea, eb = tau2_expected(spec, o)
    if abs(o["conc"] - float(ea)) > 1e-9:
        bad.append(f"c{ci}_tau2_concentration")
    if abs(o["rate"] - float(eb)) > 1e-9 * (1 + float(eb)):
        bad.append(f"c{ci}_tau2_scale")
    ts = [float(fr(t)) for t in spec["ts"]]
    k = lambda t: -(o["conc"] + 1) * math.log(t) - o["rate"] / t
    for i in range(1, len(ts)):
        dm = o["lps"][i] - o["lps"][0]
        if abs(dm - (k(ts[i]) - k(ts[0]))) > 1e-7 * (1 + abs(dm)):
            bad.append(f"c{ci}_tau2_conditional_{i}")
    return bad


def gen_tau2(rnd, kind=None):
    p = rnd.choice([3, 4, 5])
    kind = kind or rnd.choice(["full", "diff1", "diff2", "block"])
    if kind == "full":
        K = [[str(Fraction(int(i == k) * 2 + (abs(i - k) == 1) * -1 + int(i == k))) for k in range(p)] for i in range(p)]
    elif kind == "diff1":
        K = diff_pen(p, 1)
    elif kind == "diff2":
        K = diff_pen(p, 2)
    else:
        K = [[str(Fraction(int(i == k and i < p - 2))) for k in range(p)] for i in range(p)]       # rank p - 2
    n = p + 2
    return {"K": K, "beta": [str(dy(rnd, -2, 2, 4)) for _ in range(p)], "a": str(Fraction(rnd.choice([2, 3, 5, 8]), 2)),
            "b": str(Fraction(rnd.choice([1, 2, 3, 6]), 4)), "X": [[str(dy(rnd, -1, 1, 4)) for _ in range(p)] for _ in range(n)],
            "y": [str(dy(rnd, -2, 2, 4)) for _ in range(n)], "g": str(Fraction(rnd.choice([3, 5, 8, 12]), 4)),
            "ts": [str(Fraction(v, 4)) for v in sorted(rnd.sample(range(1, 24), 4))], "pen": kind}




# =================================================================================================
# keys: the kernels of one KernelSequence transition draw from independent randomness
# =================================================================================================
KEYS_HEADER = """From Coq Require Import List Bool NArith.
Import ListNotations.
From LV Require Import Goose.CorrC04Keys.
"""


def keys_observe(spec):
    j = J()
    jax, jnp, np, gs = j["jax"], j["jnp"], j["np"], j["gs"]
    from liesel.goose.kernel_sequence import KernelSequence
    from liesel.goose.kernel import DefaultTransitionInfo, TransitionOutcome
    ep = epoch(spec.get("epoch", "posterior"))
    words = lambda k: [int(v) for v in np.asarray(jax.random.key_data(k)).ravel()[-2:]]
    if spec["mode"] == "record":
        # harness kernels that record the key they receive (and the uniform they would draw from it)
        class Rec:
            error_book = {0: "no errors"}
            needs_history = False
            position_keys = ()

            def __init__(self, i):
                self.identifier = f"rec_{i:02d}"

            def init_state(self, prng_key, model_state):
                return {"key": jnp.zeros(2, jnp.uint32), "u": jnp.asarray(0.0)}

            def transition(self, prng_key, kernel_state, model_state, epoch):
                kd = jax.random.key_data(prng_key).ravel()[-2:].astype(jnp.uint32)
                info = DefaultTransitionInfo(0, 1.0, 1)
                return TransitionOutcome(info, {"key": kd, "u": jax.random.uniform(prng_key)},
                                         {"n": model_state["n"] + 1})

        m, T = spec["m"], spec["T"]
        seq = KernelSequence([Rec(i) for i in range(m)])
        key0 = jax.random.PRNGKey(spec["seed"])
        ms0 = {"n": jnp.asarray(0)}
        kss0 = seq.init_states(key0, ms0)

        def body(carry, _):
            key, kss, ms = carry
            key, sub = jax.random.split(key)
            out = seq.transition(sub, kss, ms, ep)
            rec = (jax.random.key_data(sub).ravel()[-2:].astype(jnp.uint32),
                   jnp.stack([ks["key"] for ks in out.kernel_states]),
                   jnp.stack([ks["u"] for ks in out.kernel_states]),
                   jnp.stack([jax.random.key_data(k).ravel()[-2:].astype(jnp.uint32) for k in jax.random.split(sub, m)]))
            return (key, out.kernel_states, out.model_state), rec

        (_, _, msT), (subs, kks, us, model_keys) = jax.jit(lambda k: jax.lax.scan(body, (k, kss0, ms0), None, length=T))(key0)
        subs, kks, us, model_keys = (np.asarray(a) for a in (subs, kks, us, model_keys))
        return {"trs": [{"key": [int(v) for v in subs[t]], "kernel_keys": [[int(v) for v in kks[t, i]] for i in range(m)],
                         "u": [float(v) for v in us[t]]} for t in range(T)],
                "n_calls": int(msT["n"]), "path_model_matches": bool((kks == model_keys).all())}
    # coupling: REAL kernels with their real normal draws (only the accept decision is forced to "accept")
    iface = gs.DictInterface(lambda st: -st["a"] ** 2 / 2 - (st["b"] - st["a"]) ** 2 / 2)
    s1, s2 = float(fr(spec["steps"][0])), float(fr(spec["steps"][1]))
    k1 = gs.RWKernel(["a"], initial_step_size=s1)
    k2 = (gs.RWKernel if spec["kernels"][1] == "rw" else gs.IWLSKernel)(["b"], initial_step_size=s2)
    for i, k in enumerate((k1, k2)):
        k.set_model(iface)
        k.identifier = f"kernel_{i:02d}"
    seq = KernelSequence([k1, k2])
    a0, b0 = float(fr(spec["pos"][0])), float(fr(spec["pos"][1]))
    st = {"a": jnp.asarray(a0), "b": jnp.asarray(b0)}
    kss = seq.init_states(jax.random.PRNGKey(0), st)
    pairs = []
    with forcing(which=("u",)):
        step = jax.jit(lambda key: seq.transition(key, kss, st, ep))
        for sd in spec["seeds"]:
            _reset(u=[0.0])
            out = step(jax.random.PRNGKey(sd))
            a1, b1 = float(out.model_state["a"]), float(out.model_state["b"])
            z1 = (a1 - a0) / s1
            z2 = (b1 - b0) / s2 if spec["kernels"][1] == "rw" else (b1 - (b0 + s2 * s2 / 2 * (-(b0 - a1)))) / s2
            pairs.append({"seed": sd, "z1": z1, "z2": z2})
    return {"pairs": pairs}


def keys_bad_transitions(o):
    """python reading of run_keys_ok: (index, reason) of offending transitions"""
    bad = []
    seen = {}
    for t, tr in enumerate(o["trs"]):
        ks = [tuple(k) for k in tr["kernel_keys"]]
        for i in range(len(ks)):
            for jx in range(i + 1, len(ks)):
                if ks[i] == ks[jx]:
                    bad.append((t, f"kernels {i} and {jx} of the sequence both received the key {list(ks[i])}"))
        if tuple(tr["key"]) in ks:
            bad.append((t, f"kernel {ks.index(tuple(tr['key']))} received the sequence's own key {tr['key']} unsplit"))
        for k in ks + [tuple(tr["key"])]:
            if k in seen and seen[k] != t:
                bad.append((t, f"key {list(k)} was already used in transition {seen[k]}"))
            seen.setdefault(k, t)
    return bad


def keys_oracle(c):
    spec, o = c["spec"], c["obs"]
    if spec["mode"] == "record":
        if o["n_calls"] != spec["m"] * spec["T"]:
            return f"KernelSequence of {spec['m']} kernels made {o['n_calls']} kernel calls in {spec['T']} transitions"
        bad = keys_bad_transitions(o)
        if bad:
            t, why = bad[0]
            return (f"KernelSequence of {spec['m']} kernels, PRNGKey({spec['seed']}), transition {t} (key {o['trs'][t]['key']}): {why}; "
                    f"the kernels do not draw from independent randomness (their uniform draws: {o['trs'][t]['u']}), "
                    "so the sequence is not the product of its kernels")
        return None
    for pr in o["pairs"]:
        if abs(pr["z1"] - pr["z2"]) < 1e-9:
            return (f"KernelSequence [rw on a, {spec['kernels'][1]} on b] at (a,b)={spec['pos']} with PRNGKey({pr['seed']}): both kernels "
                    f"used the same normal draw z = {pr['z1']}: the blocks' randomness is coupled (same key), the joint target is not invariant")
    return None


def keys_emit(ctx, ci, c):
    o = c["obs"]
    if c["spec"]["mode"] != "record":
        return None
    wk = lambda k: f"({int(k[0])}%N, {int(k[1])}%N)"
    trs = lst("(" + wk(tr["key"]) + ", " + lst(wk(k) for k in tr["kernel_keys"]) + ")" for tr in o["trs"])
    txt = KEYS_HEADER + f"Lemma c{ci}_keys_ok : run_keys_ok {trs} = true.\nProof. vm_compute. reflexivity. Qed.\n"
    return ctx.new_shard(txt, f"c{ci:03d}_keys")


# =================================================================================================
# generator
# =================================================================================================
def dy(rnd, lo, hi, den):
    return Fraction(rnd.randint(int(lo * den), int(hi * den)), den)


def gen_w(rnd, na, nb):
    return [[str(Fraction(rnd.choice([1, 1, 2, 3, 4, 8, 16]), rnd.choice([1, 2, 4, 8]))) for _ in range(nb)] for _ in range(na)]


def gen_q(rnd, nrest, n, style):
    """per-rest proposal tables (rows sum to one, dyadic, symmetric support)"""
    out = []
    for r in range(nrest if style != "same" else 1):
        if style == "sym":
            base = [[Fraction(0)] * n for _ in range(n)]
            for x in range(n):
                for y in range(x + 1, n):
                    base[x][y] = base[y][x] = Fraction(rnd.choice([1, 1, 2]), 4 * n)
            for x in range(n):
                base[x][x] = 1 - sum(base[x])
        else:
            base = []
            zero = (rnd.randrange(n), rnd.randrange(n)) if (n > 2 and rnd.random() < 0.5) else None
            for x in range(n):
                ws = [rnd.choice([1, 2, 3, 5]) for _ in range(n)]
                base.append(ws)
            if zero and zero[0] != zero[1]:
                base[zero[0]][zero[1]] = base[zero[1]][zero[0]] = 0
            base = [[Fraction(v, 1) for v in row] for row in base]
            for x in range(n):
                tot = sum(base[x])
                den = 1
                while den < tot:
                    den *= 2
                base[x] = [v / den for v in base[x]]
                base[x][x] += 1 - sum(base[x])
        out.append([[str(v) for v in row] for row in base])
    if style == "same":
        out = out * nrest
    return out


CORPUS_FIN = [
    # asymmetric proposal that looks at the rest + Gibbs on the other block, dict model
    {"iface": "dict", "na": 2, "nb": 3, "w": [["1", "2", "4"], ["3", "1/2", "1"]],
     "kernels": [{"type": "gibbs", "blk": "a"},
                 {"type": "mh", "blk": "b", "q": [[["1/2", "1/4", "1/4"], ["1/8", "1/2", "3/8"], ["1/2", "1/4", "1/4"]],
                                                   [["1/4", "1/2", "1/4"], ["1/2", "1/4", "1/4"], ["1/8", "3/8", "1/2"]]]}]},
    # Liesel model, finite_discrete_gibbs_kernel + user-proposal MH
    {"iface": "liesel", "na": 2, "nb": 2, "w": [["1/4", "1/4"], ["1/8", "3/8"]],
     "kernels": [{"type": "gibbs", "blk": "a"},
                 {"type": "mh", "blk": "b", "q": [[["1/2", "1/2"], ["1/4", "3/4"]], [["1/2", "1/2"], ["1/4", "3/4"]]]}]},
]
CORPUS_FIN.append(
    # Liesel model whose user kernel functions read DERIVED nodes (copies of a / b that no distribution depends on)
    {"iface": "liesel", "na": 2, "nb": 2, "w": [["1", "1/2"], ["1/4", "2"]], "derived": True,
     "kernels": [{"type": "mh", "blk": "a", "reads": "derived", "q": [[["1/2", "1/2"], ["1/4", "3/4"]], [["1/4", "3/4"], ["7/8", "1/8"]]]},
                 {"type": "gibbs", "blk": "b", "reads": "derived"}]})
LM1 = {"name": "lm", "ys": ["1/2", "5/4", "-3/4", "2", "1"], "tau": "2", "rate": "1/2"}
CORPUS_CONT = [
    {"target": {"name": "gauss", "m": "1", "s": "1/2"}, "kernel": "rw", "step": "1/2", "x": "3/8", "z": "-1/4"},
    {"target": {"name": "quartic"}, "kernel": "iwls", "step": "3/4", "x": "1/2", "z": "1"},
    {"target": {"name": "loggamma", "a": "2"}, "kernel": "iwls", "step": "1", "x": "1/4", "z": "-5/4"},
    {"target": {"name": "pair", "blk": "a", "other": "3/2"}, "kernel": "iwls", "step": "1/2", "x": "-1/2", "z": "3/4"},
    {"target": dict(LM1, blk="theta", other="1/4"), "kernel": "iwls", "step": "1/2", "x": "3/8", "z": "1/2"},
    {"target": dict(LM1, blk="mu", other="1/8"), "kernel": "rw", "step": "3/4", "x": "1/4", "z": "-1"},
    {"target": dict(LM1, blk="theta", other="-1/2"), "kernel": "rw", "step": "1/4", "x": "1/2", "z": "2", "epoch": "burnin"},
]
HIER1 = {"name": "hier", "y": "3", "sd": "1/2"}
CORPUS_CONT += [
    {"target": dict(HIER1, blk="u", other="3/2"), "kernel": "rw", "step": "1/2", "x": "1/4", "z": "-3/4"},
    {"target": dict(HIER1, blk="t", other="1/2"), "kernel": "rw", "step": "1/4", "x": "5/4", "z": "1"},
    {"target": dict(HIER1, blk="t", other="1"), "kernel": "iwls", "step": "1/2", "x": "3/2", "z": "-1/2", "epoch": "burnin"},
    {"target": dict(HIER1, blk="u", other="7/4"), "kernel": "iwls", "step": "1/2", "x": "3/4", "z": "1/2"},
]
CORPUS_GLUE = [
    {"kernel": "hmc", "model": dict(LM1), "blocks": ["mu", "theta"], "imm": ["1", "1/2"], "step": "1/5", "n": 3, "seed": 5,
     "pos": {"mu": "1/4", "theta": "3/8"}, "probe": {"mu": "1", "theta": "1/2"}},
    {"kernel": "nuts", "model": {"name": "pair"}, "blocks": ["a"], "imm": ["2"], "step": "1/2", "n": 3, "seed": 11,
     "pos": {"a": "1/2", "b": "-1"}, "probe": {"a": "-3/4"}},
]


LMRAW1 = {"name": "lmraw", "ys": ["1/2", "5/4", "-3/4", "2", "1"], "tau": "2", "rate": "1/2"}
CORPUS_GLUE_HIER = [
    {"kernel": "nuts", "model": dict(HIER1), "blocks": ["t", "u"], "imm": ["1", "1"], "step": "1/4", "n": 2, "seed": 3,
     "pos": {"t": "5/4", "u": "1/2"}, "probe": {"t": "3/2", "u": "-1/4"}, "probe_r": True,
     "probe_list": [{"t": "1/2", "u": "1"}, {"t": "2", "u": "-1"}, {"t": "-1/2", "u": "3/4"}]},
    {"kernel": "hmc", "model": dict(HIER1), "blocks": ["u"], "imm": ["1"], "step": "1/4", "n": 2, "seed": 4,
     "pos": {"t": "3/2", "u": "1/4"}, "probe": {"u": "1"}, "probe_r": True,
     "probe_list": [{"u": "1/2", "t": "1/2"}, {"u": "-1", "t": "2"}, {"u": "3/4", "t": "1"}]},
]
CORPUS_SUPPORT = [
    # bounded parameter on its original scale, log-density NaN below 0 and -inf at 0 (dict model)
    {"kernel": "hmc", "model": {"name": "pg"}, "blocks": ["lam"], "imm": ["1"], "step": "1/2", "n": 3, "seed": 0,
     "seeds": list(range(40)), "pos": {"lam": "1/8"}, "probe": {"lam": "3/4"},
     "probe_list": [{"lam": "3/4"}, {"lam": "-1/2"}, {"lam": "0"}, {"lam": "-3"}, {"lam": "1/1024"}]},
    {"kernel": "nuts", "model": {"name": "pg"}, "blocks": ["lam"], "imm": ["1"], "step": "3/4", "n": 2, "seed": 0,
     "seeds": list(range(40)), "pos": {"lam": "1/16"}, "probe": {"lam": "1/2"},
     "probe_list": [{"lam": "1/2"}, {"lam": "-1/4"}, {"lam": "0"}]},
    # Liesel model, sigma untransformed: NaN for sigma < 0
    {"kernel": "hmc", "model": dict(LMRAW1), "blocks": ["sigma"], "imm": ["1"], "step": "3/4", "n": 2, "seed": 0,
     "seeds": list(range(40)), "pos": {"mu": "1/2", "sigma": "1/4"}, "probe": {"sigma": "3/2"},
     "probe_list": [{"sigma": "3/2"}, {"sigma": "-1"}, {"sigma": "0"}, {"sigma": "-1/8"}]},
]
CORPUS_TAU2 = [gen_tau2(random.Random(4041), "full"), gen_tau2(random.Random(4042), "diff1"), gen_tau2(random.Random(4043), "diff2")]
CORPUS_KEYS = [
    {"mode": "record", "m": 2, "T": 4, "seed": 0},
    {"mode": "record", "m": 3, "T": 5, "seed": 1337, "epoch": "burnin"},
    {"mode": "coupling", "kernels": ["rw", "rw"], "steps": ["1/2", "3/4"], "pos": ["1/4", "-1/2"], "seeds": list(range(12))},
    {"mode": "coupling", "kernels": ["rw", "iwls"], "steps": ["1/2", "1/2"], "pos": ["-1/4", "1/2"], "seeds": list(range(100, 112))},
]


def gen_fin(rnd, iface, na, nb, shape):
    ks = []
    for typ, blk in shape:
        if typ == "gibbs":
            ks.append({"type": "gibbs", "blk": blk})
        else:
            n, nrest = (na, nb) if blk == "a" else (nb, na)
            ks.append({"type": "mh", "blk": blk, "q": gen_q(rnd, nrest, n, rnd.choice(["sym", "asym", "asym", "same"]))})
    return {"iface": iface, "na": na, "nb": nb, "w": gen_w(rnd, na, nb), "kernels": ks,
            "epoch": rnd.choice(["posterior", "burnin"])}


def gen_cont(rnd, lms=(LM1,)):
    r = rnd.random()
    if r < 0.2:
        t = {"name": "gauss", "m": str(dy(rnd, -2, 2, 4)), "s": str(Fraction(rnd.choice([1, 2, 3, 4, 6]), 4))}
    elif r < 0.35:
        t = {"name": "quartic"}
    elif r < 0.5:
        t = {"name": "loggamma", "a": str(Fraction(rnd.choice([2, 3, 4, 6, 10]), 2))}
    elif r < 0.7:
        t = {"name": "pair", "blk": rnd.choice(["a", "b"]), "other": str(dy(rnd, -2, 2, 4))}
    else:
        t = dict(rnd.choice(lms), blk=rnd.choice(["mu", "theta"]), other=str(dy(rnd, -1, 1, 8)))
    if rnd.random() < 0.15:
        t = dict(HIER1, blk=rnd.choice(["t", "u"]), other=str(dy(rnd, 0, 2, 8)))
    z = dy(rnd, -2, 2, 8)
    if z == 0:
        z = Fraction(5, 8)
    return {"target": t, "kernel": rnd.choice(["rw", "iwls"]), "step": str(Fraction(rnd.choice([1, 2, 3, 4, 6]), 4)),
            "x": str(dy(rnd, -1, 1, 8) if t["name"] != "loggamma" else dy(rnd, -1, 1, 8)), "z": str(z),
            "epoch": rnd.choice(["posterior", "posterior", "burnin"])}


def gen_glue(rnd):
    kern = rnd.choice(["hmc", "nuts"])
    if rnd.random() < 0.5:
        model = {"name": "pair"}
        blocks = rnd.choice([["a"], ["b"], ["a", "b"], ["b", "a"]])
        pos = {"a": str(dy(rnd, -1, 1, 8)), "b": str(dy(rnd, -1, 1, 8))}
    else:
        model = dict(LM1)
        blocks = rnd.choice([["mu"], ["theta"], ["mu", "theta"], ["theta", "mu"]])
        pos = {"mu": str(dy(rnd, -1, 1, 8)), "theta": str(dy(rnd, -1, 1, 8))}
    return {"kernel": kern, "model": model, "blocks": blocks,
            "imm": [str(Fraction(rnd.choice([1, 2, 3, 4]), 2)) for _ in blocks],
            "step": str(Fraction(rnd.choice([1, 2, 3]), 8)), "n": rnd.choice([2, 3, 4]) if kern == "hmc" else rnd.choice([2, 3]),
            "seed": rnd.randrange(2 ** 20), "pos": pos, "probe": {b: str(dy(rnd, -1, 1, 8)) for b in blocks},
            "epoch": rnd.choice(["posterior", "burnin"])}


def observe(c, **kw):
    if c["kind"] == "fin":
        return fin_observe(c["spec"], **kw)
    if c["kind"] == "cont":
        return cont_observe(c["spec"])
    if c["kind"] == "keys":
        return keys_observe(c["spec"])
    if c["kind"] == "tau2":
        return tau2_observe(c["spec"])
    return glue_observe(c["spec"])


def describe(c):
    s = c["spec"]
    if c["kind"] == "fin":
        return (f"fin.{s['iface']}.{s['na']}x{s['nb']}." + "+".join(f"{k['type']}_{k['blk']}" for k in s["kernels"])
                + (".reads_derived_nodes" if s.get("derived") else ""))
    if c["kind"] == "cont":
        return f"cont.{s['kernel']}.{s['target']['name']}" + ("." + s["target"]["blk"] if "blk" in s["target"] else "")
    if c["kind"] == "tau2":
        return f"tau2_gibbs.{s.get('pen', 'K')}" + ("" if exact_rank(s["K"]) == len(s["beta"]) else ".rank_deficient")
    if c["kind"] == "keys":
        return f"keys.record.{s['m']}kernels" if s["mode"] == "record" else "keys.coupling." + "+".join(s["kernels"])
    return f"glue.{s['kernel']}.{s['model']['name']}." + "+".join(s["blocks"]) + (".boundary" if s.get("seeds") else "")


def specs(ctx, rnd):
    q = ctx.quick
    out = [{"kind": "fin", "spec": dict(s)} for s in CORPUS_FIN]
    out += [{"kind": "cont", "spec": dict(s)} for s in CORPUS_CONT]
    out += [{"kind": "glue", "spec": dict(s)} for s in CORPUS_GLUE]
    out += [{"kind": "glue", "spec": dict(s)} for s in CORPUS_SUPPORT]
    out += [{"kind": "glue", "spec": dict(s)} for s in CORPUS_GLUE_HIER]
    out += [{"kind": "tau2", "spec": dict(s)} for s in CORPUS_TAU2]
    for _ in range(0 if q else 8):
        out.append({"kind": "tau2", "spec": gen_tau2(rnd)})
    out += [{"kind": "keys", "spec": dict(s)} for s in CORPUS_KEYS]
    if not q:
        for _ in range(6):
            if rnd.random() < 0.5:
                out.append({"kind": "glue", "spec": {
                    "kernel": rnd.choice(["hmc", "nuts"]), "model": {"name": "pg"}, "blocks": ["lam"], "imm": [str(Fraction(rnd.choice([1, 2, 4]), 2))],
                    "step": str(Fraction(rnd.choice([2, 3, 4, 6]), 4)), "n": rnd.choice([2, 3]), "seed": 0, "seeds": [rnd.randrange(2 ** 20) for _ in range(40)],
                    "pos": {"lam": str(Fraction(rnd.choice([1, 2, 3]), 16))}, "probe": {"lam": str(Fraction(rnd.randint(1, 16), 8))},
                    "probe_list": [{"lam": str(dy(rnd, -2, 2, 8))} for _ in range(5)] + [{"lam": "0"}]}})
            else:
                blocks = rnd.choice([["sigma"], ["mu", "sigma"], ["sigma", "mu"]])
                out.append({"kind": "glue", "spec": {
                    "kernel": rnd.choice(["hmc", "nuts"]), "model": dict(LMRAW1), "blocks": blocks, "imm": ["1"] * len(blocks),
                    "step": str(Fraction(rnd.choice([2, 3, 4]), 4)), "n": 2, "seed": 0, "seeds": [rnd.randrange(2 ** 20) for _ in range(40)],
                    "pos": {"mu": str(dy(rnd, -1, 1, 8)), "sigma": str(Fraction(rnd.choice([1, 2, 3]), 8))},
                    "probe": {b: str(Fraction(rnd.randint(1, 16), 8)) for b in blocks},
                    "probe_list": [{b: str(dy(rnd, -2, 2, 8)) for b in blocks} for _ in range(5)]}})
    for _ in range(1 if q else 8):
        out.append({"kind": "keys", "spec": {"mode": "record", "m": rnd.choice([2, 3, 4]), "T": rnd.choice([3, 6, 8]),
                                             "seed": rnd.randrange(2 ** 31), "epoch": rnd.choice(["posterior", "burnin"])}})
    if not q:
        for kk in (["rw", "rw"], ["rw", "iwls"]):
            out.append({"kind": "keys", "spec": {"mode": "coupling", "kernels": kk, "steps": ["3/4", "1/4"],
                                                 "pos": [str(dy(rnd, -1, 1, 8)), str(dy(rnd, -1, 1, 8))],
                                                 "seeds": [rnd.randrange(2 ** 31) for _ in range(64)]}})
    # forced strata for the finite cases
    fin_plan = [("dict", 3, 2, [("mh", "a"), ("mh", "b")]),
                ("dict", 2, 2, [("mh", "b"), ("gibbs", "a"), ("mh", "b")]),
                ("liesel", 2, 2, [("mh", "a"), ("gibbs", "b")])]
    if not q:
        fin_plan += [("dict", 3, 3, [("gibbs", "b"), ("mh", "a")]), ("dict", 2, 3, [("mh", "a"), ("gibbs", "b"), ("gibbs", "a")]),
                     ("dict", 4, 2, [("mh", "a"), ("mh", "b")]), ("dict", 5, 1, [("mh", "a")]),
                     ("liesel", 3, 2, [("gibbs", "a"), ("mh", "b")]), ("liesel", 2, 3, [("mh", "b"), ("mh", "a")]),
                     ("liesel", 2, 2, [("gibbs", "a"), ("gibbs", "b"), ("mh", "a")]), ("liesel", 3, 1, [("mh", "a")])]
        for _ in range(6):
            na, nb = rnd.choice([(2, 2), (2, 3), (3, 2)])
            shape = [(rnd.choice(["mh", "gibbs"]), rnd.choice(["a", "b"])) for _ in range(rnd.choice([1, 2, 2]))]
            fin_plan.append((rnd.choice(["dict", "dict", "liesel"]), na, nb, shape))
    for iface, na, nb, shape in fin_plan:
        out.append({"kind": "fin", "spec": gen_fin(rnd, iface, na, nb, shape)})
    lms = [LM1]
    for _ in range(1 if q else 3):
        lms.append({"name": "lm", "ys": [str(dy(rnd, -2, 2, 4)) for _ in range(rnd.choice([3, 4]))],
                    "tau": str(Fraction(rnd.choice([2, 4, 6]), 2)), "rate": str(Fraction(rnd.choice([1, 2, 4]), 2))})
    for _ in range(12 if q else 200):
        out.append({"kind": "cont", "spec": gen_cont(rnd, lms)})
    for _ in range(1 if q else 14):
        out.append({"kind": "glue", "spec": gen_glue(rnd)})
    return out


def generate(ctx):
    rnd = random.Random(ctx.seed)
    cases = specs(ctx, rnd)
    nfin = 0
    for c in cases:
        kw = {}
        if c["kind"] == "fin":
            kw["eager_check"] = nfin < 2
            nfin += 1
        c["obs"] = observe(c, **kw)
        ctx.hist(describe(c))
        if c["kind"] == "fin":
            ctx.hist("fin.transitions_run", c["obs"]["runs"])
        ctx.hist("epoch." + c["spec"].get("epoch", "posterior"))
        if c["obs"].get("degenerate"):
            ctx.hist("cont.degenerate_not_emitted(acceptance underflow or proposal == current)")
    for c in cases:
        if c["kind"] == "keys":
            if c["spec"]["mode"] == "record":
                ctx.hist("keys.recorded_kernel_keys", c["spec"]["m"] * c["spec"]["T"])
                ctx.hist("keys.split_path_model_matches" if c["obs"]["path_model_matches"] else "keys.split_path_model_differs(not an alarm)")
            else:
                ctx.hist("keys.real_draw_pairs", len(c["obs"]["pairs"]))
    ev = sum(c["obs"].get("runs", len(c["obs"].get("pairs", [])) or 3) for c in cases)
    distinct = {common.json.dumps(c["spec"], sort_keys=True) for c in cases}
    ctx.count(ev, len(distinct))
    ctx.cov["rule"] = ("distinct = distinct case specifications (finite model + kernel sequence, or continuous target + kernel "
                       "+ step + start + forced draw, or HMC/NUTS configuration); every finite case enumerates all random choices "
                       "from all states (fin.transitions_run real transitions)")
    for c in cases[:1] + [c for c in cases if c["kind"] == "cont"][:2] + [c for c in cases if c["kind"] == "glue"][:1]:
        ctx.sample({"kind": c["kind"], "spec": c["spec"],
                    "obs": {k: v for k, v in c["obs"].items() if k in ("fwd", "bwd", "new", "ref", "TS", "lpf")}})
    eag = [c["obs"]["eager_diff"] for c in cases if c["kind"] == "fin" and "eager_diff" in c["obs"]]
    ctx.tested_not_proved += [
        f"eager vs jitted KernelSequence/kernel transition rows on {len(eag)} finite cases: max difference {max(eag) if eag else 0:.2e}",
        "HMCKernel/NUTSKernel transition == blackjax hmc/nuts step on the block's conditional density (same key, step size, inverse "
        "mass matrix): differential test, blackjax's integrator and NUTS tree are trusted, no invariance theorem for them",
        "invariance on continuous state spaces (RW/IWLS): only the algebra (proposal map, Hastings correction, acceptance ratio, "
        "detailed-balance residual at sampled forced moves) is certified; no measure-theoretic theorem",
        "pairwise distinct keys => independent draws (threefry behaves like a random function): trusted; the keys themselves are "
        "checked (recording kernels, Coq lemma run_keys_ok) and real RW+RW / RW+IWLS sequences are checked not to reuse the normal draw",
        "tuning state constant in burn-in / posterior epochs is observed per transition; the epoch-level statement is C11",
    ]
    ctx.assume += [
        "finite state space, positive weights (generator: dyadic positive weights)",
        "proposal tables non-negative with symmetric support; log-correction = log q(x|x') - log q(x'|x) on the support (mh_hyps)",
        "uniform draws are uniform on [0,1) and independent of the proposal (key split) - jax.random trusted",
        "C04_sequence_invariant applies to KernelSequence only if the kernels of one transition draw from independent randomness "
        "(C04_independent_randomness_gives_product; refuted for shared randomness by C04_shared_randomness_refuted): checked on every run "
        "as pairwise distinct keys, none equal to the sequence's key, none reused across transitions (keys_independent)",
    ]
    ctx.extra_tb = ["jax.random.{uniform,normal,categorical} are replaced by forced values inside the harness process to enumerate "
                    "the random choices; blackjax (HMC/NUTS) trusted; tfp densities of the finite/linear models trusted up to the "
                    "R-lemmas that compare log_prob with the closed forms lp_lm / lp_pair"]
    return cases


def oracle(c):
    return {"fin": fin_oracle, "cont": cont_oracle, "glue": glue_oracle, "keys": keys_oracle, "tau2": tau2_oracle}[c["kind"]](c)


def emit(ctx, cases):
    shards = []
    goals = []                     # (case index, name, statement)
    for i, c in enumerate(cases):
        if c["kind"] == "fin":
            for p in fin_emit(ctx, i, c):
                shards.append((p, [i]))
        elif c["kind"] == "tau2":
            goals += [(i, n, g) for n, g in tau2_emit_goals(i, c)]
        elif c["kind"] == "keys":
            p = keys_emit(ctx, i, c)
            if p:
                shards.append((p, [i]))
        elif c["kind"] == "cont":
            if not c["obs"].get("degenerate"):
                goals += [(i, n, g) for n, g in cont_emit_goals(i, c)]
        else:
            goals += [(i, n, g) for n, g in glue_emit_goals(i, c)]
            p = glue_emit_probes(ctx, i, c)
            if p:
                shards.append((p, [i]))
    per = 36
    for k in range(0, len(goals), per):
        chunk = goals[k:k + per]
        txt = HEADER + "".join(f"Lemma {n} : {g}.\nProof. {'c04_alpha' if '_alpha_' in n else 'c04_solve'}. Qed.\n" for _, n, g in chunk)
        shards.append((ctx.new_shard(txt, f"goals_{k // per:03d}"), sorted({i for i, _, _ in chunk})))
    return shards


def py_disagree(ci, c):
    """float shadow of the Coq model, used ONLY to name the disagreeing lemmas quickly (diagnostics)"""
    np = J()["np"]
    bad = []
    spec, o = c["spec"], c["obs"]
    if c["kind"] == "keys":
        return [f"c{ci}_keys_ok"] if spec["mode"] == "record" and keys_bad_transitions(o) else []
    if c["kind"] == "tau2":
        return tau2_py_disagree(ci, c)
    if c["kind"] == "fin":
        nb = spec["nb"]
        n = spec["na"] * nb
        w = np.array([float(fr(spec["w"][x // nb][x % nb])) for x in range(n)])
        Ts = [np.array(T) for T in o["T"]]
        for i, k in enumerate(spec["kernels"]):
            D = np.abs(Ts[i] - np.array(fin_model_matrix(spec, k)))
            bad += [f"entry_k{i}_{x}_{y}" for x in range(n) for y in range(n) if D[x, y] > TOL]
        mats = {f"T{i}": T for i, T in enumerate(Ts)}
        if "TS" in o:
            P = np.eye(n)
            for T in Ts:
                P = P @ T
            D = np.abs(P - np.array(o["TS"]))
            bad += [f"seq_{x}_{y}" for x in range(n) for y in range(n) if D[x, y] > TOL]
            mats["TS"] = np.array(o["TS"])
        for nm, T in mats.items():
            r = np.abs(w @ T - w)
            bad += [f"inv_{nm}_{y}" for y in range(n) if r[y] > TOL]
    elif c["kind"] == "cont":
        if o.get("degenerate"):
            return []
        lp, sc, inf = ctarget(spec["target"])[:3]
        lq = cont_logq(spec)
        s = float(fr(spec["step"]))
        x, z = float(fr(spec["x"])), float(fr(spec["z"]))
        y, yb = o["fwd"]["new"], o["bwd"]["new"]

        def prop(u, zz):
            if spec["kernel"] == "rw":
                return u + s * zz
            return u + s * s / 2 * sc(u) / inf(u) + s / math.sqrt(inf(u)) * zz
        alpha = lambda u, v: min(1.0, math.exp(min(50.0, lp(v) - lp(u) + lq(v, u) - lq(u, v))))
        if abs(prop(x, z) - y) > TOL * (1 + abs(y)):
            bad.append(f"c{ci}_proposal")
        if abs(prop(y, o["zb"]) - yb) > TOL * (1 + abs(y)):
            bad.append(f"c{ci}_proposal_back")
        if abs(alpha(x, y) - o["fwd"]["acc"]) > TOL:
            bad.append(f"c{ci}_alpha_fwd")
        if abs(alpha(y, x) - o["bwd"]["acc"]) > TOL:
            bad.append(f"c{ci}_alpha_bwd")
        L, R = math.exp(lp(x) + lq(x, y)), math.exp(lp(y) + lq(y, x))
        if abs(L * o["fwd"]["acc"] - R * o["bwd"]["acc"]) > 1e-8 * max(L, R):
            bad.append(f"c{ci}_detailed_balance")
        if spec["target"]["name"] in ("pair", "lm", "hier") and abs(lp(y) - o["fwd"]["lp"]) > 1e-8:
            bad.append(f"c{ci}_state_coherent")
    else:
        iface, state_of, dens, coq, names = glue_env(spec)
        allp = {l: float(fr(spec["probe"][l])) if l in spec["blocks"] else float(fr(spec["pos"][l])) for l in spec["pos"]}
        if abs(float(dens(allp)) - o["lpf"]) > 1e-8:
            bad.append(f"c{ci}_log_prob_fn")
        if abs(float(dens(o["new"])) - o["lp_new"]) > 1e-8 or not math.isfinite(o["lp_new"]):
            bad.append(f"c{ci}_written_back")
        for pr in o.get("probes", []):
            a, b = pr["lpf"], pr["model"]
            if not ((a == b) if isinstance(a, str) or isinstance(b, str) else abs(a - b) <= 1e-8):
                bad.append(f"c{ci}_log_prob_fn_classes")
                break
        for k, pr in enumerate(o.get("probes", [])[:4]):
            a, b = pr["lpf"], pr["closed_form"]
            if spec.get("probe_r") and not ((a == b) if isinstance(a, str) or isinstance(b, str) else abs(a - b) <= 1e-8):
                bad.append(f"c{ci}_log_prob_fn_probe{k}")
    return bad


_DIAG = {"coq_runs": 0}


def diagnose(ctx, path, idxs, cases):
    """which cases of a failing shard disagree: the float shadow names them; if it finds nothing, the shard is
    recompiled with every lemma wrapped in tryif (at most twice per run, it is slow)"""
    import re
    txt = open(path).read()
    names = set(re.findall(r"^Lemma (\S+) :", txt, re.M))
    bad_names, bad = [], set()
    for i in idxs:
        b = [n for n in py_disagree(i, cases[i]) if n in names]
        if b:
            bad.add(i)
            bad_names += b
    if not bad_names and _DIAG["coq_runs"] < 2:
        _DIAG["coq_runs"] += 1
        diag = re.sub(r"Proof\. (.*?)(c04_solve|c04_alpha)\. Qed\.",
                      lambda m: "Proof. " + m.group(1) + "tryif " + m.group(2) + " then idtac else (idtac \"DISAGREE\"). Abort.", txt)
        diag = re.sub(r"^Lemma (\S+) :", lambda m: f"Goal True. idtac \"LEMMA {m.group(1)}\". Abort.\nLemma {m.group(1)} :", diag, flags=re.M)
        ok, out = ctx.coq_eval(diag)
        cur = None
        for line in out.splitlines():
            if line.startswith("LEMMA "):
                cur = line.split()[1]
            elif "DISAGREE" in line and cur:
                bad_names.append(cur)
        for nme in bad_names:
            m = re.match(r"c(\d+)_", nme)
            if m:
                bad.add(int(m.group(1)))
        if bad_names and len(idxs) == 1:
            bad = set(idxs)
    if len(ctx.broken) < 8:
        ctx.broken.append(f"R-lemmas failing in {path.split('/')[-1]}: " + ", ".join(bad_names[:10]) + (" ..." if len(bad_names) > 10 else ""))
    return sorted(bad) or idxs


def klass(c):
    return None


def search(ctx, disagreeing):
    """correspondence broke but no sampled case violates the property: widen the continuous / finite sample"""
    rnd = random.Random(ctx.seed + 1)
    found = []
    extra = [{"kind": "cont", "spec": gen_cont(rnd)} for _ in range(60)]
    extra += [{"kind": "fin", "spec": gen_fin(rnd, "dict", 2, 3, [("mh", "a"), ("gibbs", "b"), ("mh", "b")])} for _ in range(3)]
    extra += [{"kind": "glue", "spec": gen_glue(rnd)} for _ in range(3)]
    extra += [{"kind": "tau2", "spec": gen_tau2(rnd, k)} for k in ("diff1", "diff2", "block")]
    extra += [{"kind": "keys", "spec": {"mode": "record", "m": m, "T": 4, "seed": rnd.randrange(2 ** 31)}} for m in (2, 3, 4)]
    for c in extra:
        try:
            c["obs"] = observe(c)
        except Exception as ex:       # noqa
            continue
        r = oracle(c)
        if r:
            found.append({"why": r, "kind": c["kind"], "spec": c["spec"]})
            if len(found) >= 2:
                break
    return found


def replay(rp) -> int:
    c = rp["replay"].get("case", rp["replay"])
    if "spec" not in c:
        print("replay file names no concrete input (broken lemma only):", rp["replay"].get("broken"))
        for d in rp["replay"].get("disagreeing_cases", [])[:3]:
            print("model/code disagreement on:", d.get("kind"), d.get("spec"))
        return 0
    c = {"kind": c["kind"], "spec": c["spec"]}
    c["obs"] = observe(c)
    r = oracle(c)
    print({"kind": c["kind"], "spec": c["spec"]})
    if r:
        print("REPLAY FAILS:", r)
        return 1
    print("replay passes on the current tree")
    return 0
