"""Harness-side scripted kernels for C19 (no hooks in /repo).

The model state is a dict {"x": f32, "y": f32, "cid": i32, "tab_ka": i32[T], "tab_kb": i32[T]} per
chain (leaves stacked over chains).  A ScriptedKernel returns, in the transition taken at global
epoch time t (EpochState.time before the engine advances it; the initial-values epoch occupies time
0), the error code tab_<ident>[t] of *its* chain and writes the stamp 1000*cid + t into its
position key.  All behaviour is therefore driven by data: the same compiled program serves every
error table of the same shape.
"""
from __future__ import annotations

from dataclasses import dataclass
from typing import ClassVar

import jax.numpy as jnp

from liesel.goose.kernel import (
    DefaultTransitionInfo,
    DefaultTuningInfo,
    ModelMixin,
    TransitionOutcome,
    TuningOutcome,
    WarmupOutcome,
)
from liesel.goose.pytree import register_dataclass_as_pytree


@register_dataclass_as_pytree
@dataclass
class ScriptedKernelState:
    calls: int


class _Scripted(ModelMixin):
    error_book: ClassVar[dict[int, str]] = {}
    needs_history: ClassVar[bool] = False
    identifier: str = ""

    def __init__(self, position_key: str, table_key: str, identifier: str, stamp=None):
        """stamp: optional function (cid, t) -> scalar array written into the position key (default: the
        float32 stamp 1000*cid + t); used by the dtype part of C19 (float64 / int32 positions)"""
        self._model = None
        self.position_keys = (position_key,)
        self.table_key = table_key
        self.identifier = identifier
        self.stamp = stamp

    def init_state(self, prng_key, model_state):
        return ScriptedKernelState(calls=jnp.int32(0))

    def transition(self, prng_key, kernel_state, model_state, epoch):
        t = epoch.time
        code = model_state[self.table_key][t]
        if self.stamp is None:
            stamp = (1000 * model_state["cid"] + t).astype(jnp.float32)
        else:
            stamp = self.stamp(model_state["cid"], t)
        new_ms = self.model.update_state({self.position_keys[0]: stamp}, model_state)
        info = DefaultTransitionInfo(
            error_code=code.astype(jnp.int32), acceptance_prob=jnp.float32(99.0), position_moved=jnp.int32(99)
        )
        return TransitionOutcome(info, ScriptedKernelState(kernel_state.calls + 1), new_ms)

    def tune(self, prng_key, kernel_state, model_state, epoch, history=None):
        return TuningOutcome(DefaultTuningInfo(error_code=jnp.int32(0), time=epoch.time), kernel_state)

    def start_epoch(self, prng_key, kernel_state, model_state, epoch):
        return kernel_state

    def end_epoch(self, prng_key, kernel_state, model_state, epoch):
        return kernel_state

    def end_warmup(self, prng_key, kernel_state, model_state, tuning_history):
        return WarmupOutcome(error_code=jnp.int32(0), kernel_state=kernel_state)


class ScriptedKernelA(_Scripted):
    error_book: ClassVar[dict[int, str]] = {0: "no errors", 1: "A-one: diverged", 2: "A-two: nan in proposal",
                                            3: "A-three: max depth"}


class ScriptedKernelB(_Scripted):
    error_book: ClassVar[dict[int, str]] = {0: "no errors", 1: "B-one: singular", 2: "B-two: overflow",
                                            3: "B-three: rejected"}


BOOKS = {"ka": ScriptedKernelA.error_book, "kb": ScriptedKernelB.error_book}
