"""C13 - Gibbs kernels draw from the exact full conditional.

tau2_gibbs_kernel (liesel/model/distreg.py) is run on real DistRegBuilder models (penalties of full
and deficient rank, zero penalty) with jax.random.gamma patched inside this process (the requested
concentration and the key are recorded, the variate is forced); finite_discrete_gibbs_kernel
(liesel/model/goose.py) on real models with Bernoulli / FiniteDiscrete variables and Normal / Poisson
likelihoods downstream, with jax.random.categorical patched (logits recorded, index forced).  Both are
also run unpatched under jit+vmap over many keys.  Coq (interval) certifies for every case
  - concentration and returned draw = a_gibbs / tau2_draw (b_gibbs ..) g of the model (Gibbs.v),
  - differences of the REAL model's log_prob along tau2 = cond_diff (= joint_tau2 differences),
  - differences of the captured logits = differences of the closed-form joint log-density.
The Python oracle reads the property literally: it fits the inverse-gamma shape to the real
LieselInterface.log_prob as a function of tau2 and compares the kernel's parameters and the empirical
distribution of its draws with it; for the discrete kernel it compares the logits with log_prob at
directly assigned outcomes and the draw frequencies with the normalised exp(log_prob).
"""
from __future__ import annotations

import glob
import json
import math
import os
import random
import re
import sys
from fractions import Fraction

from . import common, c13_tie
from .common import lst, rlit

HEADER = """From Coq Require Import Reals List.
From Interval Require Import Tactic.
From LV Require Import Analytic.Gibbs Analytic.CorrC13.
Import ListNotations.
Open Scope R_scope.
"""

TOL64 = 1e-9          # relative, x64 builds (measured: below 1e-13)
TOL32 = 2.0 ** -14    # relative, default float32 builds (measured: below 3e-6 of the log_prob magnitude)
TOLD = 1e-5           # discrete kernel, x64 (tfp keeps FiniteDiscrete / Bernoulli probabilities in float32 tables)
PROFILE_TS = [1.0, 2.0, 4.0, 0.5, 8.0, 0.125]
KS_N = 4000
FREQ_N = 20000

_LIB = {}


def lib():
    if _LIB:
        return _LIB
    import jax
    jax.config.update("jax_enable_x64", True)
    import jax.numpy as jnp
    import numpy as np
    import tensorflow_probability.substrates.jax.distributions as tfd
    import tensorflow_probability.substrates.jax.bijectors as tfb
    import liesel.model as lsl
    import liesel.goose as gs
    from liesel.model.distreg import DistRegBuilder, tau2_gibbs_kernel
    from liesel.model.goose import finite_discrete_gibbs_kernel
    _LIB.update(jax=jax, jnp=jnp, np=np, tfd=tfd, tfb=tfb, lsl=lsl, gs=gs, DistRegBuilder=DistRegBuilder,
                tau2_gibbs_kernel=tau2_gibbs_kernel, finite_discrete_gibbs_kernel=finite_discrete_gibbs_kernel)
    return _LIB


# ------------------------------------------------------------------------------------------------
# small exact helpers
# ------------------------------------------------------------------------------------------------
def exact_rank(K) -> int:
    m = [[Fraction(x) for x in row] for row in K]
    n = len(m)
    r = 0
    for c in range(n):
        piv = next((i for i in range(r, n) if m[i][c] != 0), None)
        if piv is None:
            continue
        m[r], m[piv] = m[piv], m[r]
        for i in range(n):
            if i != r and m[i][c] != 0:
                f = m[i][c] / m[r][c]
                m[i] = [x - f * y for x, y in zip(m[i], m[r])]
        r += 1
    return r


def quad(beta, K) -> Fraction:
    b = [Fraction(x) for x in beta]
    return sum(b[i] * Fraction(K[i][j]) * b[j] for i in range(len(b)) for j in range(len(b)))


def diff_pen(p, order):
    import numpy as np
    D = np.diff(np.eye(p), n=order, axis=0)
    return (D.T @ D).tolist()


def finite(x):
    return isinstance(x, (int, float)) and math.isfinite(x)


def key_pair(k):
    import numpy as np
    try:
        import jax
        if hasattr(jax.random, "key_data") and not isinstance(k, np.ndarray) and getattr(k, "dtype", None) is not None \
                and str(k.dtype).startswith("key"):
            k = jax.random.key_data(k)
    except Exception:
        pass
    return [int(x) for x in np.asarray(k).ravel()]


# ------------------------------------------------------------------------------------------------
# driving the real tau2_gibbs_kernel
# ------------------------------------------------------------------------------------------------
def build_tau2(c):
    L = lib()
    np, tfd, tfb = L["np"], L["tfd"], L["tfb"]
    dt = np.float32 if c["f32"] else np.float64
    b = L["DistRegBuilder"]()
    b.to_float32 = bool(c["f32"])
    y = np.asarray(c["y"], dtype=dt)
    X = np.asarray(c["X"], dtype=dt)
    if c["family"] == "normal":
        b.add_response(y, tfd.Normal)
        b.add_predictor("loc", tfb.Identity)
        b.add_predictor("scale", tfb.Exp)
        # (an empty predictor is float32 whatever the data: give the scale an intercept of the model's dtype)
        b.add_p_smooth(np.ones((len(y), 1), dtype=dt), 0.0, 4.0, "scale", name="sc")
        pred = "loc"
    else:
        b.add_response(y, tfd.Poisson)
        b.add_predictor("rate", tfb.Exp)
        pred = "rate"
    if c.get("extra"):
        # a second non-parametric smooth and a parametric one: further factors that do not contain s_tau2
        b.add_p_smooth(np.ones((len(y), 1), dtype=dt), 0.0, 4.0, pred, name="icpt")
        b.add_np_smooth(X, np.asarray(diff_pen(len(c["beta"]), 1) if len(c["beta"]) > 1 else [[1.0]], dtype=dt),
                        1.5, 0.75, pred, name="other")
    # hyperparameters and coefficients of the model OBJECT differ from those of the model STATE handed to
    # the kernel (tau2_position): the kernel has to read the state
    Kmat = np.asarray(c["K"], dtype=c["kint"]) if c.get("kint") else np.asarray(c["K"], dtype=dt)
    b.add_np_smooth(X, Kmat, c["a"] + 1.0, 2.0 * c["b"], pred, name="s")
    return b.build_model()


def tau2_position(c):
    L = lib()
    np, jnp = L["np"], L["jnp"]
    dt = np.float32 if c["f32"] else np.float64
    pos = {"s_beta": jnp.asarray(np.asarray(c["beta"], dtype=dt)),
           "s_a": jnp.asarray(c["a"], dtype=dt), "s_b": jnp.asarray(c["b"], dtype=dt)}
    if c["family"] == "normal":
        pos["sc_beta"] = jnp.asarray(np.asarray([c.get("log_scale", 0.25)], dtype=dt))
    if c.get("extra"):
        pos["other_beta"] = jnp.asarray(np.asarray(c["beta"][::-1], dtype=dt) * 0.5)
        pos["icpt_beta"] = jnp.asarray(np.asarray([0.25], dtype=dt))
    return pos


def observe_tau2(model, iface, state, group, g, seed, ts, f32, ks):
    """one real tau2_gibbs_kernel of [group] on [state]: patched transition, log_prob profile, unpatched draws"""
    from unittest import mock
    L = lib()
    jax, jnp, np = L["jax"], L["jnp"], L["np"]
    kernel = L["tau2_gibbs_kernel"](group)
    kernel.set_model(iface)
    tname = group["tau2"].name
    key = jax.random.PRNGKey(seed)
    calls = []

    def fake(k, a, *args, **kw):
        calls.append((key_pair(k), float(np.asarray(a)), tuple(np.shape(a))))
        return jnp.asarray(g, dtype=jnp.result_type(a))

    with mock.patch("jax.random.gamma", fake):
        out = kernel.transition(key, kernel.init_state(key, state), state, None)
    draw = iface.extract_position([tname], out.model_state)[tname]
    obs = {"ncalls": len(calls), "draw": float(np.asarray(draw)), "draw_shape": list(np.shape(draw)),
           "error_code": int(np.asarray(out.info.error_code)),
           "rank_node": float(np.asarray(group["rank"].value)), "position_keys": list(kernel.position_keys)}
    if calls:
        obs["conc"] = calls[0][1]
        obs["conc_shape"] = list(calls[0][2])
        obs["key_ok"] = calls[0][0] == key_pair(key)
    # the returned model state is the updated one: its log_prob is the model's log_prob at the draw
    lp_new = float(np.asarray(iface.log_prob(out.model_state)))
    lp_direct = float(np.asarray(iface.log_prob(iface.update_state({tname: draw}, state))))
    obs["state_lp"] = [lp_new, lp_direct]
    dt = np.float32 if f32 else np.float64
    obs["lps"] = [float(np.asarray(iface.log_prob(iface.update_state({tname: jnp.asarray(t, dtype=dt)}, state))))
                  for t in ts]
    if ks or len(calls) != 1:
        # (a refactoring may use another sampler: then only the distribution of the draws can be judged)
        f = jax.jit(jax.vmap(lambda k: iface.extract_position(
            [tname], kernel.transition(k, {}, state, None).model_state)[tname]))
        keys = jax.random.split(jax.random.PRNGKey(seed + 1), KS_N)
        d = np.sort(np.asarray(f(keys), dtype=np.float64))
        obs["draws_sorted_sample"] = [float(x) for x in d[:: max(1, KS_N // 8)]]
        obs["_draws"] = d
    return obs


def run_tau2(c, ks=False):
    """fills c['obs'] from the real code"""
    L = lib()
    model = build_tau2(c)
    iface = L["gs"].LieselInterface(model)
    state = iface.update_state(tau2_position(c), model.state)
    c["obs"] = observe_tau2(model, iface, state, model.groups()["s"], c["g"], c["seed"], c["ts"], c["f32"], ks)
    return c


# ------------------------------------------------------------------------------------------------
# hand-built models (public liesel.model API, no DistRegBuilder) with several smooth groups whose nodes
# are named like the group-specific keys of other groups
# ------------------------------------------------------------------------------------------------
GROUP_KEYS = ["a", "b", "K", "rank", "beta", "tau2"]


def node_names(c, gi):
    """names of the hyperparameter / penalty / rank nodes and of the tau2 / beta variables of group gi"""
    sfx = c["groups"][gi]["suffix"]
    return {k: k + sfx for k in GROUP_KEYS}


def build_hand(c):
    L = lib()
    np, jnp, lsl, tfd = L["np"], L["jnp"], L["lsl"], L["tfd"]
    from liesel.distributions import MultivariateNormalDegenerate
    dt = np.float32 if c["f32"] else np.float64
    smooths = []
    for gi, gr in enumerate(c["groups"]):
        nm = node_names(c, gi)
        K = np.asarray(gr["K"], dtype=gr["kint"]) if gr.get("kint") else np.asarray(gr["K"], dtype=dt)
        # the model OBJECT holds other hyperparameters / coefficients than the STATE handed to the kernels
        a_node = lsl.Value(np.asarray(gr["a"] + 1.0, dtype=dt), _name=nm["a"])
        b_node = lsl.Value(np.asarray(2.0 * gr["b"], dtype=dt), _name=nm["b"])
        K_node = lsl.Data(K, _name=nm["K"])
        rank_node = lsl.Data(np.linalg.matrix_rank(K), _name=nm["rank"])
        tau2 = lsl.param(np.asarray(1.0, dtype=dt), lsl.Dist(tfd.InverseGamma, concentration=a_node, scale=b_node),
                         name=nm["tau2"])
        beta = lsl.param(np.zeros(len(K), dtype=dt),
                         lsl.Dist(MultivariateNormalDegenerate.from_penalty, loc=np.asarray(0.0, dtype=dt), var=tau2,
                                  pen=K_node, rank=rank_node), name=nm["beta"])
        X = lsl.Data(np.asarray(gr["X"], dtype=dt), _name="X" + gr["suffix"])
        sm = lsl.Var(lsl.Calc(lambda X, beta: X @ beta, X, beta), name="f" + gr["suffix"])
        lsl.Group(f"smooth{gi}", tau2=tau2, a=a_node, b=b_node, rank=rank_node, beta=beta, K=K_node, smooth=sm)
        smooths.append(sm)
    mu = lsl.Var(lsl.Calc(lambda *fs: sum(fs), *smooths), name="mu")
    y = lsl.obs(np.asarray(c["y"], dtype=dt), lsl.Dist(tfd.Normal, loc=mu, scale=np.asarray(1.0, dtype=dt)), name="y")
    extra = []
    for k, v in (c.get("decoys") or {}).items():
        # nodes of the model that belong to no group but are NAMED like a group-specific key
        extra.append(lsl.Data(np.asarray(v, dtype=dt), _name=k))
    return lsl.GraphBuilder(to_float32=bool(c["f32"])).add(y, *extra).build_model()


def hand_position(c):
    L = lib()
    np, jnp = L["np"], L["jnp"]
    dt = np.float32 if c["f32"] else np.float64
    pos = {}
    for gi, gr in enumerate(c["groups"]):
        nm = node_names(c, gi)
        pos[nm["a"]] = jnp.asarray(gr["a"], dtype=dt)
        pos[nm["b"]] = jnp.asarray(gr["b"], dtype=dt)
        pos[nm["beta"]] = jnp.asarray(np.asarray(gr["beta"], dtype=dt))
        pos[nm["tau2"]] = jnp.asarray(gr["tau2_0"], dtype=dt)
    return pos


def run_hand(c, ks=False):
    L = lib()
    model = build_hand(c)
    iface = L["gs"].LieselInterface(model)
    state = iface.update_state(hand_position(c), model.state)
    groups = model.groups()
    c["obs"] = {"groups": [observe_tau2(model, iface, state, groups[f"smooth{gi}"], gr["g"], c["seed"] + 7 * gi,
                                        c["ts"], c["f32"], ks)
                           for gi, gr in enumerate(c["groups"])],
                "node_names": sorted(n for n in model.nodes if not n.startswith("_model"))[:60]}
    return c


def group_case(c, gi):
    """group gi of a hand-built case in the shape of a single-smooth case (for the oracle and the lemmas)"""
    gr = c["groups"][gi]
    return {"kind": "tau2", "K": gr["K"], "a": gr["a"], "b": gr["b"], "beta": gr["beta"], "g": gr["g"],
            "f32": c["f32"], "ts": c["ts"], "obs": c["obs"]["groups"][gi]}


def oracle_hand(c):
    for gi in range(len(c["groups"])):
        sub = group_case(c, gi)
        nm = node_names(c, gi)
        if sub["obs"].get("position_keys") != [nm["tau2"]]:
            return f"kernel of group smooth{gi} has position keys {sub['obs'].get('position_keys')}, its tau2 is {nm['tau2']!r}"
        r = oracle_tau2(sub)
        if r:
            others = [sorted(node_names(c, j).values()) for j in range(len(c["groups"])) if j != gi]
            return (f"group smooth{gi} (its nodes: {sorted(nm.values())}; other groups' nodes: {others}; "
                    f"further nodes named like group keys: {sorted((c.get('decoys') or {}))}): {r}")
    return None


def fit_ig(ts, lps):
    """(A, B, max residual) of lp(t) = -(A+1) ln t - B/t + c fitted at ts[0..2] = 1, 2, 4"""
    assert ts[:3] == [1.0, 2.0, 4.0]
    d1, d2 = lps[1] - lps[0], lps[2] - lps[0]
    B = 4.0 * (2.0 * d1 - d2)
    A = (B / 2.0 - d1) / math.log(2.0) - 1.0
    res = 0.0
    for t, l in zip(ts[3:], lps[3:]):
        pred = -(A + 1.0) * math.log(t) - B * (1.0 / t - 1.0)
        res = max(res, abs(pred - (l - lps[0])))
    return A, B, res


def oracle_tau2(c):
    o = c["obs"]
    tol = TOL32 if c["f32"] else TOL64
    if o["ncalls"] != 1 and "_draws" not in o and "ks" not in o:
        return f"jax.random.gamma called {o['ncalls']} times and no draws to judge"
    if not all(finite(x) for x in o["lps"]):
        return f"log_prob along tau2 is not finite: {o['lps']}"
    scale = max(1.0, max(abs(x) for x in o["lps"]))
    A, B, res = fit_ig(c["ts"], o["lps"])
    ftol = 200 * tol * scale          # the fit amplifies rounding of the log_prob values
    if res > ftol:
        return f"the model's log_prob is not inverse-gamma shaped in tau2 (residual {res:.3g})"
    if o["ncalls"] == 1:
        if not o["key_ok"]:
            return "the gamma sampler was not given the key handed to the kernel"
        if o["conc_shape"] != [] or o["draw_shape"] != []:
            return f"concentration/draw are not scalars: {o['conc_shape']} {o['draw_shape']}"
        if abs(o["conc"] - A) > ftol + 1e-6 * abs(A):
            return (f"kernel asks for Gamma concentration {o['conc']!r} but the model's full conditional of tau2 "
                    f"is inverse-gamma with concentration {A:.9g} (fitted to log_prob)")
        bk = o["draw"] * c["g"]
        if not finite(bk) or abs(bk - B) > ftol + 1e-6 * abs(B):
            return (f"kernel returns {o['draw']!r} for gamma variate {c['g']} (scale {bk!r}) but the model's full "
                    f"conditional of tau2 is inverse-gamma with scale {B:.9g} (fitted to log_prob)")
        # closed form (what the Coq lemma states), with the exact rank of K
        a_g = c["a"] + 0.5 * exact_rank(c["K"])
        b_g = c["b"] + 0.5 * float(quad(c["beta"], c["K"]))
        if abs(o["conc"] - a_g) > tol * max(1, abs(a_g)):
            return f"concentration {o['conc']!r} differs from a + rank/2 = {a_g!r}"
        if abs(o["draw"] - b_g / c["g"]) > tol * abs(b_g / c["g"]):        # relative: no floor, no cap
            return (f"draw {o['draw']!r} for gamma variate {c['g']} differs from (b + beta'K beta/2)/g = {b_g / c['g']!r} "
                    f"(b = {c['b']!r}, beta'K beta = {float(quad(c['beta'], c['K']))!r})")
    if o["error_code"] != 0:
        return f"error code {o['error_code']}"
    if abs(o["state_lp"][0] - o["state_lp"][1]) > 10 * tol * max(1.0, abs(o["state_lp"][1])):
        return f"returned model state is not the updated state at the draw: log_prob {o['state_lp']}"
    if "_draws" in o or "ks" in o:
        # reference law: the inverse-gamma fitted to the real log_prob; when float32 rounding of a large
        # log_prob makes that fit coarse, the closed form a + rank/2, b + beta'K beta/2 - after checking
        # that it agrees with the fit to the fit's own precision
        if ftol + 1e-6 * abs(A) > 1e-3:
            a_g = c["a"] + 0.5 * exact_rank(c["K"])
            b_g = c["b"] + 0.5 * float(quad(c["beta"], c["K"]))
            if abs(a_g - A) > ftol + 1e-6 * abs(A) or abs(b_g - B) > ftol + 1e-6 * abs(B):
                return (f"the model's full conditional of tau2 fitted to log_prob is IG({A:.6g}, {B:.6g}), not "
                        f"IG(a + rank/2, b + beta'K beta/2) = IG({a_g!r}, {b_g!r})")
            A, B = a_g, b_g
        if "ks" not in o:
            from scipy import stats, special
            d = o.pop("_draws")
            if not (d > 0).all():
                return "a draw is not positive"
            # Gamma variates of a tiny concentration underflow to 0 and the draw overflows to inf (true values
            # beyond the float range): such draws count as "larger than every float" (censored sample) and the
            # Kolmogorov distance is taken over the finite range
            import numpy as np
            fin = d[np.isfinite(d)]
            o["n_overflow"] = int(len(d) - len(fin))
            n = len(d)
            if A > 0 and B > 0:
                F = special.gammaincc(A, B / np.concatenate([fin, [1.7e308]]))     # IG distribution function Q(A, B/t)
                i = np.arange(1, len(fin) + 1)
                dist = max(np.max(np.abs(i / n - F[:-1]), initial=0.0), np.max(np.abs((i - 1) / n - F[:-1]), initial=0.0),
                           abs(len(fin) / n - F[-1]))
                o["ks"] = float(dist)
            else:
                o["ks"] = 1.0
            o["ks_ref"] = [A, B]
        if o["ks"] > 0.045:     # n = 4000: P(D > 0.045) < 1e-6 under the reference law
            return (f"{KS_N} unpatched draws do not follow the model's full conditional IG({A:.6g}, {B:.6g}): "
                    f"Kolmogorov distance {o['ks']:.4f}")
    return None


# ------------------------------------------------------------------------------------------------
# driving the real finite_discrete_gibbs_kernel
# ------------------------------------------------------------------------------------------------
def build_disc(c):
    L = lib()
    np, jnp, lsl, tfd = L["np"], L["jnp"], L["lsl"], L["tfd"]
    if c["prior"] == "finite":
        grid = lsl.Var(np.asarray(c["grid"], dtype=np.float64), name="grid")
        prior = lsl.Dist(tfd.FiniteDiscrete, outcomes=grid, probs=lsl.Value(np.asarray(c["probs"], dtype=np.float64)))
        z = lsl.param(float(c["z0"]), prior, name="z")
    else:
        prior = lsl.Dist(tfd.Bernoulli, probs=lsl.Value(float(c["probs"][1])))
        z = lsl.param(int(c["z0"]), prior, name="z")
    items = [z]
    c0, c1, s, d0, d1 = c["c0"], c["c1"], c["s"], c["d0"], c["d1"]
    if c["ys"] and c.get("resid"):
        # the same likelihood written on residuals: z reaches the distribution through its evaluation point
        sig = lsl.Var(float(s) * 2.0, name="sig")     # run_disc hands a state with sig = s
        ydat = lsl.Var(np.asarray(c["ys"], dtype=np.float64), name="ydat")
        items.append(lsl.Var(lsl.Calc(lambda y, z: y - (c0 + c1 * z), ydat, z),
                             lsl.Dist(tfd.Normal, loc=0.0, scale=sig), name="y"))
    elif c["ys"] and c.get("shared") and len(c["ys"]) >= 2:
        # ONE computed mean shared by two observed variables (the same likelihood as y ~ Normal(mu, sig), split):
        # a diamond between z and the log-probability; both orders of adding / of depth
        mu = lsl.Var(lsl.Calc(lambda z: c0 + c1 * z, z), name="mu")
        sig = lsl.Var(float(s) * 2.0, name="sig")     # run_disc hands a state with sig = s
        h = len(c["ys"]) // 2
        mu_a, mu_b = mu, mu
        if c["shared"] == "deep_a":
            mu_a = lsl.Var(lsl.Calc(lambda m: m + 0.0, mu), name="mu_a")
        if c["shared"] == "deep_b":
            mu_b = lsl.Var(lsl.Calc(lambda m: m + 0.0, mu), name="mu_b")
        y1 = lsl.obs(np.asarray(c["ys"][:h], dtype=np.float64), lsl.Dist(tfd.Normal, loc=mu_a, scale=sig), name="y1")
        y2 = lsl.obs(np.asarray(c["ys"][h:], dtype=np.float64), lsl.Dist(tfd.Normal, loc=mu_b, scale=sig), name="y2")
        items += [y2, y1] if c["shared"] == "ba" else [y1, y2]
    elif c["ys"]:
        mu = lsl.Var(lsl.Calc(lambda z: c0 + c1 * z, z), name="mu")
        sig = lsl.Var(float(s) * 2.0, name="sig")     # run_disc hands a state with sig = s
        items.append(lsl.obs(np.asarray(c["ys"], dtype=np.float64), lsl.Dist(tfd.Normal, loc=mu, scale=sig), name="y"))
    if c["ns"]:
        lam = lsl.Var(lsl.Calc(lambda z: jnp.exp(d0 + d1 * z), z), name="lam")
        items.append(lsl.obs(np.asarray(c["ns"], dtype=np.float64), lsl.Dist(tfd.Poisson, rate=lam), name="n"))
    if c.get("extra"):
        items.append(lsl.param(0.75, lsl.Dist(tfd.Normal, loc=0.0, scale=2.0), name="w"))
    model = lsl.GraphBuilder(to_float32=False).add(*items).build_model()
    if c.get("user_auto") is False:
        # the USER's model has auto-update switched off when the kernel is created (state fully up to date)
        model.update()
        model.auto_update = False
    return model


def disc_outcomes(c):
    """outcomes in the order the kernel uses them"""
    if c["outcomes_arg"] is not None:
        return list(c["outcomes_arg"])
    return list(c["grid"]) if c["prior"] == "finite" else [0, 1]


def history(c, outer_jit):
    """further calls of the SAME kernel object: (mode, s, ys, ns) of the model state handed in"""
    h = [("eager", 2.0 * c["s"], [0.25 - y for y in c["ys"]], [n + 1.0 for n in c["ns"]]),
         ("eager", c["s"], list(c["ys"]), list(c["ns"]))]                    # ... and back to the first state
    if outer_jit:
        h.append(("outer_jit", 0.5 * c["s"], [y + 0.5 for y in c["ys"]], [n + 2.0 for n in c["ns"]]))
        h.append(("eager", 2.0 * c["s"], [0.25 - y for y in c["ys"]], [n + 1.0 for n in c["ns"]]))
    return h


def run_disc(c, freq=False):
    from unittest import mock
    L = lib()
    jax, jnp, np, gs = L["jax"], L["jnp"], L["np"], L["gs"]
    model = build_disc(c)
    iface = gs.LieselInterface(model)
    kw = {} if c["outcomes_arg"] is None else {"outcomes": c["outcomes_arg"]}
    kernel = L["finite_discrete_gibbs_kernel"]("z", model, **kw)
    kernel.set_model(iface)
    # the state handed to the kernel differs from the model the kernel copied at construction
    pos = {}
    if c["ys"]:
        pos["sig"] = jnp.asarray(float(c["s"]))
    if c.get("extra"):
        pos["w"] = jnp.asarray(-1.5)
    state = iface.update_state(pos, model.state) if pos else model.state
    key = jax.random.PRNGKey(c["seed"])
    calls = []
    force = [0]

    def fake(k, logits, *args, **kw):
        calls.append((key_pair(k), [float(x) for x in np.asarray(logits).ravel()]))
        return jnp.asarray(force[0])

    def one(i):
        force[0] = i
        with mock.patch("jax.random.categorical", fake):
            out = kernel.transition(key, kernel.init_state(key, state), state, None)
        return out, iface.extract_position(["z"], out.model_state)["z"]

    out, draw = one(0)
    ncalls = len(calls)
    obs = {"ncalls": ncalls, "draw_shape": list(np.shape(draw)),
           "error_code": int(np.asarray(out.info.error_code))}
    draws = [float(np.asarray(draw))]
    if ncalls == 1:
        obs["logits"] = calls[0][1]
        obs["key_ok"] = calls[0][0] == key_pair(key)
        # which outcome belongs to which logit: force every index once
        for i in range(1, len(obs["logits"])):
            out, draw = one(i)
            draws.append(float(np.asarray(draw)))
        obs["logits_stable"] = all(cl[1] == calls[0][1] for cl in calls)
    obs["draws"] = draws
    cur = model.vars["z"].value
    direct = []
    for o in draws:
        s2 = iface.update_state({"z": jnp.asarray(o, dtype=jnp.asarray(cur).dtype)}, state)
        direct.append(float(np.asarray(iface.log_prob(s2))))
    obs["direct"] = direct
    obs["state_lp"] = float(np.asarray(iface.log_prob(out.model_state)))
    # the caller's model is not touched by the kernel (it works on a copy)
    obs["caller_z"] = float(np.asarray(model.vars["z"].value))
    # ---- history: the same kernel object is called again with model states that differ in nodes the
    # conditional depends on (scale, data); eagerly, and under an enclosing jax.jit
    obs["rounds"] = []
    if ncalls == 1:
        zdt = jnp.asarray(cur).dtype
        for mode, s_r, ys_r, ns_r in history(c, outer_jit=freq or c.get("outer_jit", False)):
            pos_r = {}
            if c["ys"]:
                pos_r["sig"] = jnp.asarray(float(s_r))
                if c.get("shared") and len(c["ys"]) >= 2 and not c.get("resid"):
                    h = len(ys_r) // 2
                    pos_r["y1"] = jnp.asarray(np.asarray(ys_r[:h], dtype=np.float64))
                    pos_r["y2"] = jnp.asarray(np.asarray(ys_r[h:], dtype=np.float64))
                else:
                    pos_r["ydat" if c.get("resid") else "y"] = jnp.asarray(np.asarray(ys_r, dtype=np.float64))
            if c["ns"]:
                pos_r["n"] = jnp.asarray(np.asarray(ns_r, dtype=np.float64))
            st_r = iface.update_state(pos_r, state) if pos_r else state
            rd = {"mode": mode, "s": s_r, "ys": ys_r, "ns": ns_r}
            if mode == "eager":
                del calls[:]
                force[0] = 0
                with mock.patch("jax.random.categorical", fake):
                    kernel.transition(key, kernel.init_state(key, st_r), st_r, None)
                rd["logits"] = calls[0][1] if len(calls) == 1 else None
            else:
                stash = []

                def spy(k, logits, *args, **kw):
                    stash.append(logits)
                    return jnp.asarray(0)

                def jf(k, st):
                    del stash[:]
                    o_ = kernel.transition(k, {}, st, None)
                    return o_.model_state, stash[0]

                with mock.patch("jax.random.categorical", spy):
                    _, lg = jax.jit(jf)(key, st_r)
                rd["logits"] = [float(x) for x in np.asarray(lg).ravel()]
            rd["direct"] = [float(np.asarray(iface.log_prob(iface.update_state({"z": jnp.asarray(o, dtype=zdt)}, st_r))))
                            for o in draws]
            obs["rounds"].append(rd)
    if freq or ncalls != 1:
        f = jax.jit(jax.vmap(lambda k: iface.extract_position(
            ["z"], kernel.transition(k, {}, state, None).model_state)["z"]))
        keys = jax.random.split(jax.random.PRNGKey(c["seed"] + 1), FREQ_N)
        d = np.asarray(f(keys), dtype=np.float64)
        outs = [float(o) for o in disc_outcomes(c)]
        obs["freq"] = [float((d == o).mean()) for o in outs]
        obs["freq_other"] = float(1.0 - sum((d == o).mean() for o in set(outs)))
        obs["freq_direct"] = [float(np.asarray(iface.log_prob(iface.update_state(
            {"z": jnp.asarray(o, dtype=jnp.asarray(cur).dtype)}, state)))) for o in disc_outcomes(c)]
    c["obs"] = obs
    return c


def closed_logit(c, o):
    """closed-form joint log-density as a function of the outcome, up to a constant (Python floats)"""
    p = prob_of(c, o)
    v = math.log(p) if p > 0 else -math.inf
    m = c["c0"] + c["c1"] * o
    for y in c["ys"]:
        v += -math.log(c["s"]) - 0.5 * math.log(2 * math.pi) - (y - m) ** 2 / (2 * c["s"] ** 2)
    lam = math.exp(c["d0"] + c["d1"] * o)
    for n in c["ns"]:
        v += n * math.log(lam) - lam
    return v


def prob_of(c, o):
    if c["prior"] == "finite":
        return c["probs"][[float(x) for x in c["grid"]].index(float(o))]
    return c["probs"][1] if o == 1 else 1.0 - c["probs"][1]


def logit_checks(c, outs, lg, direct, what):
    """logits lg (one per outcome in outs) vs the model's log_prob at each outcome and vs the closed form"""
    scale = max([1.0] + [abs(x) for x in direct if math.isfinite(x)])
    fin = [k for k in range(len(outs)) if math.isfinite(direct[k])]
    for k in range(len(outs)):
        if math.isfinite(direct[k]) != math.isfinite(lg[k]) or (not math.isfinite(direct[k]) and lg[k] != direct[k]):
            return what + f"logit {lg[k]} of outcome {outs[k]} but the model's log_prob with z = {outs[k]} is {direct[k]}"
    # weights = normalised exp: only differences of logits matter
    if fin:
        k0 = fin[0]
        for k in fin:
            if abs((lg[k] - lg[k0]) - (direct[k] - direct[k0])) > TOLD * scale:
                return what + (f"logits {lg} are not the model's log_prob at z = {outs} (all else fixed) {direct} up to a "
                               f"constant: outcome {outs[k]} vs {outs[k0]}")
            cf = closed_logit(c, outs[k]) - closed_logit(c, outs[k0])
            if abs((lg[k] - lg[k0]) - cf) > TOLD * scale:
                return what + (f"logit difference {lg[k] - lg[k0]!r} of outcomes {outs[k]} vs {outs[k0]} differs from the "
                               f"closed-form joint log-density difference {cf!r}")
    return None


def oracle_disc(c):
    o = c["obs"]
    want = [float(x) for x in disc_outcomes(c)]
    if o["error_code"] != 0:
        return f"error code {o['error_code']}"
    if o["caller_z"] != float(c["z0"]):
        return f"the kernel changed the caller's model: z = {o['caller_z']}"
    outs = o["draws"]                      # outcome returned for index 0, 1, ...
    for d in outs:
        if d not in want:
            return f"draw {d} is not a member of the outcome set {want}"
    direct = o["direct"]
    scale = max([1.0] + [abs(x) for x in direct if math.isfinite(x)])
    if o["ncalls"] == 1:
        if not o["key_ok"]:
            return "the categorical sampler was not given the key handed to the kernel"
        if not o["logits_stable"]:
            return "the logits of the same state and key differ between calls"
        lg = o["logits"]
        if sorted(outs) != sorted(want):
            return f"forcing the indices 0..{len(lg) - 1} returns {outs}; the outcome set is {want}"
        r = logit_checks(c, outs, lg, direct, "")
        if r:
            return r
        for ri, rd in enumerate(o.get("rounds", [])):
            what = (f"call {ri + 2} of the same kernel object ({rd['mode']}; model state with sig = {rd['s']}, y = {rd['ys']}, "
                    f"n = {rd['ns']}; first call: sig = {c['s']}, y = {c['ys']}, n = {c['ns']}): ")
            if rd["logits"] is None or len(rd["logits"]) != len(outs):
                return what + f"categorical sampler not called exactly once with {len(outs)} logits"
            r = logit_checks({**c, "s": rd["s"], "ys": rd["ys"], "ns": rd["ns"]}, outs, rd["logits"], rd["direct"], what)
            if r:
                return r
        last = direct[len(lg) - 1]
        if math.isfinite(last) and abs(o["state_lp"] - last) > TOLD * scale:
            return f"returned model state is not the updated state at the draw: log_prob {o['state_lp']} vs {last}"
    if "freq" in o:
        fd = o["freq_direct"]
        mx = max(fd)
        w = [math.exp(x - mx) for x in fd]
        tot = sum(w)
        for val in sorted(set(want)):      # outcomes may repeat in a user-supplied list
            p = sum(wk for wk, ok in zip(w, want) if ok == val) / tot
            f = o["freq"][want.index(val)]
            if abs(f - p) > 5.5 * math.sqrt(max(p * (1 - p), 1e-9) / FREQ_N) + 2e-4:
                return (f"{FREQ_N} unpatched draws: outcome {val} has frequency {f:.5f}, the full conditional "
                        f"exp(log_prob)/sum gives {p:.5f} (outcomes {want})")
        if o["freq_other"] > 1e-12:
            return f"unpatched draws outside the outcome set (fraction {o['freq_other']})"
    elif o["ncalls"] != 1:
        return f"jax.random.categorical called {o['ncalls']} times and no draws to judge"
    return None


# ------------------------------------------------------------------------------------------------
# generators
# ------------------------------------------------------------------------------------------------
def dy(rnd, lo, hi, den):
    return rnd.randint(int(lo * den), int(hi * den)) / den


K_STRATA = ["full", "rw1", "rw2", "zero", "scaled", "block", "p1", "gram", "tiny", "tinydiag"]
BETA_STRATA = ["random", "zero", "null", "random", "large"]


def gen_K(rnd, kt):
    if kt == "p1":
        return [[rnd.choice([1.0, 2.0, 0.5, 4.0])]]
    p = rnd.randint(3, 5) if kt in ("rw2", "block") else rnd.randint(2, 5)
    if kt == "full":
        K = diff_pen(p, 1)
        for i in range(p):
            K[i][i] += rnd.choice([1.0, 2.0, 0.5])
        return K
    if kt == "rw1":
        return diff_pen(p, 1)
    if kt == "rw2":
        return diff_pen(p, 2)
    if kt == "zero":
        return [[0.0] * p for _ in range(p)]
    if kt == "scaled":
        f = rnd.choice([4.0, 0.25, 8.0])
        return [[f * x for x in row] for row in diff_pen(p, 1)]
    if kt == "block":
        q = p - 1
        K = [[0.0] * p for _ in range(p)]
        for i, row in enumerate(diff_pen(q, 1)):
            for j, x in enumerate(row):
                K[i][j] = x
        return K            # rank p - 2
    if kt == "tiny":
        # a legal penalty whose non-zero eigenvalues all lie below 1e-6 (uniformly down-scaled difference penalty)
        f = 2.0 ** -rnd.choice([22, 24, 26])
        return [[f * x for x in row] for row in diff_pen(p, rnd.choice([1, 1, 2]) if p > 2 else 1)]
    if kt == "tinydiag":
        # weakly penalised directions: eigenvalues 2^-22 next to eigenvalues of order one (x64 builds only, see gen_tau2)
        d = [rnd.choice([1.0, 0.5, 2.0, 1.5]) for _ in range(p)]
        for i in rnd.sample(range(p), rnd.randint(1, p - 1)):
            d[i] = 2.0 ** -22
        return [[d[i] if i == j else 0.0 for j in range(p)] for i in range(p)]
    # gram: B'B with a random small integer B of r rows (rank <= r)
    r = rnd.randint(1, p)
    B = [[float(rnd.randint(-2, 2)) for _ in range(p)] for _ in range(r)]
    return [[sum(B[k][i] * B[k][j] for k in range(r)) for j in range(p)] for i in range(p)]


def gen_tau2(rnd, idx, kt=None, bt=None, f32=None, tinyb=False):
    if tinyb:
        # tiny prior scale, coefficients in the null space of the penalty (the builder's start values beta = 0,
        # constant effects), LARGE gamma variate: the conditional lives far below the float epsilon
        kt = kt or ["rw1", "zero", "rw2", "scaled", "p1", "block"][idx % 6]
        bt = bt or ["zero", "null", "zero"][idx % 3]
        if kt in ("p1", "rw2", "block") or (kt == "zero" and bt == "null"):
            bt = "zero" if kt != "zero" else bt
    kt = kt or K_STRATA[idx % len(K_STRATA)]
    bt = bt or BETA_STRATA[(idx // len(K_STRATA)) % len(BETA_STRATA)]
    K = gen_K(rnd, kt)
    p = len(K)
    if bt == "zero":
        beta = [0.0] * p
    elif bt == "null":
        beta = [rnd.choice([1.0, -2.0, 0.5])] * p       # null space of the difference penalties
    elif bt == "large":
        beta = [dy(rnd, -16, 16, 2) for _ in range(p)]
    else:
        beta = [dy(rnd, -3, 3, 4) for _ in range(p)]
    n = rnd.randint(3, 6)
    fam = rnd.choice(["normal", "normal", "poisson"])
    if bt == "large":
        fam = "normal"      # (exp of a large predictor makes the Poisson log_prob astronomically large)
    c = {"kind": "tau2", "ktype": kt, "btype": bt, "K": K, "beta": beta,
         "a": rnd.choice([0.5, 1.0, 2.0, 3.5, 2.0 ** -10, 10.0, 0.01]),
         "b": rnd.choice([0.5, 1.0, 2.0, 8.0, 2.0 ** -10, 0.25, 0.01]),
         "g": rnd.choice([0.25, 0.5, 1.0, 2.0, 3.0, 0.75, 1.5, 5.0]),
         "seed": rnd.randint(0, 2 ** 31 - 1), "family": fam,
         "X": [[dy(rnd, -1, 1, 4) for _ in range(p)] for _ in range(n)],
         "y": [float(rnd.randint(0, 4)) if fam == "poisson" else dy(rnd, -2, 2, 4) for _ in range(n)],
         # (numpy's matrix_rank tolerance is relative to the dtype: mixed-scale penalties only in x64 builds)
         "f32": (bool(idx % 5 == 4) if f32 is None else f32) and kt != "tinydiag", "extra": idx % 3 == 1,
         "ts": list(PROFILE_TS)}
    # integer-dtype penalty (what np.diff(np.eye(n, dtype=int), ...) gives): every third integral penalty
    if all(float(x).is_integer() for row in K for x in row) and idx % 3 == 2 and not tinyb:
        c["kint"] = ["int64", "int32"][(idx // 3) % 2]
        if bt == "random" and all(float(x).is_integer() for x in beta):
            c["beta"][0] += 0.25
    if tinyb:
        c["btype"] = bt + ".tinyb"
        c["f32"] = bool(idx % 2) if f32 is None else f32
        c["b"] = 2.0 ** -rnd.choice([24, 27, 30, 34])              # 6e-8 .. 6e-11
        c["g"] = 2.0 ** rnd.choice([6, 10, 14]) if c["f32"] else 2.0 ** rnd.choice([30, 36, 40])
        c["a"] = rnd.choice([0.5, 1.0, 2.0])
    return c


def pen_of(rnd, kt, p):
    """p x p penalty of the given type (the groups of a hand-built model share p)"""
    if kt == "zero":
        return [[0.0] * p for _ in range(p)]
    if kt == "gram":
        B = [[float(rnd.randint(-2, 2)) for _ in range(p)] for _ in range(rnd.randint(1, p))]
        return [[sum(B[k][i] * B[k][j] for k in range(len(B))) for j in range(p)] for i in range(p)]
    K = diff_pen(p, 2 if (kt == "rw2" and p >= 3) else 1)
    if kt == "full":
        for i in range(p):
            K[i][i] += rnd.choice([1.0, 2.0, 0.5])
    f = rnd.choice([4.0, 0.25]) if kt == "scaled" else 1.0
    return [[f * x for x in row] for row in K]


HAND_STRATA = ["short_first", "decoys", "short_last", "short_first_decoys", "three_groups", "all_suffixed"]


def gen_hand(rnd, idx, st=None):
    st = st or HAND_STRATA[idx % len(HAND_STRATA)]
    ng = 3 if st == "three_groups" else 2
    p = rnd.randint(2, 4)
    n = rnd.randint(3, 5)
    if st in ("short_first", "short_first_decoys", "three_groups"):
        sfx = [""] + [f"_{i + 1}" for i in range(1, ng)]        # a, b, K, rank, beta, tau2 / a_2, ... / a_3, ...
    elif st == "short_last":
        sfx = [f"_{i + 1}" for i in range(ng - 1)] + [""]
    else:
        sfx = [f"_{i + 1}" for i in range(ng)]
    kts = rnd.sample(["full", "rw1", "rw2", "scaled", "gram", "zero", "rw1"], ng)
    groups = []
    for gi in range(ng):
        K = pen_of(rnd, kts[gi], p)
        groups.append({"suffix": sfx[gi], "ktype": kts[gi], "K": K,
                       # hyperparameters of the groups differ pairwise (a by >= 0.5, b by a factor)
                       "a": [0.5, 2.0, 3.5][gi] + rnd.choice([0.0, 0.25]), "b": [0.5, 2.0, 8.0][gi] * rnd.choice([1.0, 0.5]),
                       "beta": [dy(rnd, -3, 3, 4) for _ in range(p)], "tau2_0": rnd.choice([0.5, 1.0, 2.0, 4.0]),
                       "g": rnd.choice([0.25, 0.5, 2.0, 3.0, 0.75]),
                       "X": [[dy(rnd, -1, 1, 4) for _ in range(p)] for _ in range(n)]})
    for gi, gr in enumerate(groups):
        if all(float(x).is_integer() for row in gr["K"] for x in row) and (idx + gi) % 2 == 0:
            gr["kint"] = ["int64", "int32"][(idx // 2) % 2]
            if all(float(x).is_integer() for x in gr["beta"]):
                gr["beta"][0] += 0.25
    c = {"kind": "hand", "stratum": st, "groups": groups, "seed": rnd.randint(0, 2 ** 31 - 1),
         "y": [dy(rnd, -2, 2, 4) for _ in range(n)], "f32": idx % 4 == 3, "ts": list(PROFILE_TS), "decoys": {}}
    if st in ("decoys", "short_first_decoys"):
        taken = {k + g["suffix"] for g in groups for k in GROUP_KEYS}
        dec = {"a": 7.5, "b": 16.0, "rank": float(p + 3), "K": [[9.0 if i == j else 0.0 for j in range(p)] for i in range(p)],
               "beta": [4.0] * p, "tau2": 32.0}
        c["decoys"] = {k: v for k, v in dec.items() if k not in taken}
    return c


DISC_STRATA = ["finite_both", "bern_normal", "finite_prior_only", "bern_out_rev", "finite_poisson", "finite_sub",
               "bern_both", "finite_single", "finite_zero_prob", "finite_resid", "bern_resid", "finite_shared", "bern_shared"]


def gen_probs(rnd, k):
    """k positive dyadic probabilities (multiples of 1/32) that sum to 1"""
    while True:
        cuts = sorted(rnd.sample(range(1, 32), k - 1)) if k > 1 else []
        parts = [b - a for a, b in zip([0] + cuts, cuts + [32])]
        if all(x > 0 for x in parts):
            return [x / 32 for x in parts]


def gen_disc(rnd, idx, st=None):
    st = st or DISC_STRATA[idx % len(DISC_STRATA)]
    c = {"kind": "disc", "stratum": st, "seed": rnd.randint(0, 2 ** 31 - 1), "extra": idx % 2 == 0,
         "c0": dy(rnd, -2, 2, 4), "c1": rnd.choice([0.5, -0.5, 1.0, -0.75, 0.25, -0.25]), "s": rnd.choice([1.5, 1.0, 2.0, 0.75]),
         "d0": dy(rnd, -1, 1, 4), "d1": rnd.choice([0.25, -0.25, 0.5, -0.5, 0.125]),
         "ys": [], "ns": [], "outcomes_arg": None}
    if st.startswith("finite"):
        k = 1 if st == "finite_single" else rnd.randint(2, 5)
        grid = sorted(rnd.sample([x / 2 for x in range(-4, 9)], k))
        c.update(prior="finite", grid=grid, probs=gen_probs(rnd, k))
        if st == "finite_zero_prob":     # an outcome of prior probability 0: logit -inf, never drawn
            c["probs"] = gen_probs(rnd, k - 1) + [0.0] if k > 2 else [1.0, 0.0]
            rnd.shuffle(c["probs"])
        c["z0"] = rnd.choice([x for x, pr in zip(grid, c["probs"]) if pr > 0])
        if st == "finite_sub":
            sub = grid[:]
            rnd.shuffle(sub)
            c["outcomes_arg"] = sub[: max(2, len(sub) - 1)] if len(sub) > 2 else sub
    else:
        c.update(prior="bern", grid=[0, 1], probs=None)
        p1 = rnd.choice([x / 32 for x in range(1, 32)])
        c["probs"] = [1 - p1, p1]
        c["z0"] = rnd.choice([0, 1])
        if st == "bern_out_rev":
            c["outcomes_arg"] = [1, 0]
    if st in ("finite_both", "bern_normal", "finite_sub", "bern_both", "bern_out_rev", "finite_single", "finite_zero_prob",
              "finite_resid", "bern_resid", "finite_shared", "bern_shared"):
        c["ys"] = [dy(rnd, -2, 2, 4) for _ in range(rnd.randint(2, 4) if st.endswith("_shared") else rnd.randint(1, 3))]
    c["outer_jit"] = idx % 4 == 1
    # the user's model has auto_update off at kernel creation for every third model
    c["user_auto"] = idx % 3 != 1
    c["shared"] = ["ab", "ba", "deep_a", "deep_b"][(idx // len(DISC_STRATA)) % 4] if st.endswith("_shared") else (
        ["ab", "deep_b"][idx % 2] if (st in ("finite_both", "bern_normal") and idx % 3 == 0) else None)
    c["resid"] = st.endswith("_resid") or (st in ("finite_both", "bern_both") and idx % 4 == 2)
    if st in ("finite_both", "finite_poisson", "bern_both", "finite_sub", "finite_resid", "bern_shared"):
        c["ns"] = [float(rnd.randint(0, 5)) for _ in range(rnd.randint(1, 3))]
    return c


def corpus_cases():
    out = []
    for f in sorted(glob.glob(os.path.join(common.VERIF, "harness", "corpus", "C13*.json"))):
        try:
            for c in json.load(open(f)):
                out.append(c)
        except Exception as ex:  # a damaged corpus file must not stop the check
            common.log("corpus file ignored:", f, ex)
    return out


def stratum(c):
    if c["kind"] == "tau2":
        r = exact_rank(c["K"])
        p = len(c["K"])
        return (f"tau2.K={c['ktype']}.{'fullrank' if r == p else 'rank0' if r == 0 else 'deficient'}."
                f"beta={c['btype']}.{'f32' if c['f32'] else 'x64'}" + (".K" + c["kint"] if c.get("kint") else ""))
    if c["kind"] == "hand":
        return (f"hand.{c['stratum']}.{len(c['groups'])}groups.{'f32' if c['f32'] else 'x64'}"
                + (".Kint" if any(g.get("kint") for g in c["groups"]) else ""))
    return (f"disc.{c['stratum']}" + (".shared_" + c["shared"] if c.get("shared") and len(c["ys"]) >= 2 and not c.get("resid") else "")
            + (".user_auto_off" if c.get("user_auto") is False else ""))


def strip(c):
    c = {k: v for k, v in c.items() if k != "obs"}
    return c


def run_case(c, heavy=False):
    """run the real kernel; an exception of the implementation is an observation, not a harness failure"""
    try:
        if c["kind"] == "tau2":
            return run_tau2(c, ks=heavy)
        if c["kind"] == "hand":
            return run_hand(c, ks=heavy)
        return run_disc(c, freq=heavy)
    except Exception as ex:
        import traceback
        tb = traceback.format_exc().strip().splitlines()
        c["obs"] = {"raised": f"{type(ex).__name__}: {str(ex)[:300]}", "where": tb[-8:]}
        return c


def generate(ctx):
    rnd = random.Random(ctx.seed)
    n_tau2, n_disc, n_hand = (28, 28, 12) if ctx.quick else (180, 180, 72)
    heavy_every = 8 if ctx.quick else 5
    cases = [dict(c) for c in corpus_cases()]
    ncorpus = len(cases)
    for i in range(n_tau2):
        cases.append(gen_tau2(rnd, i))
    for i in range(6 if ctx.quick else 36):
        cases.append(gen_tau2(rnd, i, tinyb=True))
    for i in range(n_disc):
        cases.append(gen_disc(rnd, i))
    for i in range(n_hand):
        cases.append(gen_hand(rnd, i))
    nheavy = 0
    seen = set()
    for i, c in enumerate(cases):
        heavy = i < ncorpus or (i % heavy_every == 0)
        nheavy += heavy
        run_case(c, heavy)
        ctx.hist(stratum(c))
        if "raised" in c["obs"]:
            ctx.hist("implementation raised")
        elif c["kind"] == "tau2":
            ctx.hist("tau2.gamma_patched" if c["obs"]["ncalls"] == 1 else "tau2.gamma_not_called")
            if "_draws" in c["obs"]:
                ctx.hist("tau2.unpatched_jit_vmap_draws")
        elif c["kind"] == "hand":
            ctx.hist("hand.kernels_observed", len(c["obs"]["groups"]))
            if any("_draws" in o for o in c["obs"]["groups"]):
                ctx.hist("hand.unpatched_jit_vmap_draws")
        else:
            if "freq" in c["obs"]:
                ctx.hist("disc.unpatched_jit_vmap_draws")
            for rd in c["obs"].get("rounds", []):
                ctx.hist("disc.history.further_call." + rd["mode"])
        seen.add(json.dumps(strip(c), sort_keys=True, default=str))
        if c["kind"] != "hand":
            ctx.sample({k: v for k, v in strip(c).items() if k not in ("X", "y")} | {"obs": {
                k: v for k, v in c["obs"].items() if not k.startswith("_") and k != "draws_sorted_sample"}}, limit=4)
    ctx.count(len(cases), len(seen))
    ctx.cov["rule"] = ("one case = one real model + one real kernel transition; distinct = distinct (penalty matrix, "
                       "hyperparameters, coefficients, forced variate, family) / (prior, outcomes, likelihood data, forced "
                       "index) tuples; trivial cases (zero penalty, single outcome, zero coefficients) are forced strata "
                       "and counted")
    ctx.tested_not_proved += [
        f"unpatched kernels under jax.jit + jax.vmap over {KS_N} / {FREQ_N} keys: Kolmogorov distance to the inverse-gamma "
        f"fitted to the real log_prob (threshold 0.045) and outcome frequencies vs normalised exp(log_prob) ({nheavy} models)",
        "jax.random.gamma / jax.random.categorical sample their nominal laws (library; hypotheses FG / weights of the theorems)",
        "the returned model state is the fully updated state at the draw (log_prob compared); the caller's model is untouched",
        "the sampler receives exactly the key handed to the kernel",
        "float32 builds (DistRegBuilder default) are compared within 2^-14 relative to the log_prob magnitude, x64 builds within 1e-9",
    ]
    ctx.assume += [
        "C13_tau2_kernel_exact: 0 < b, 0 <= beta'K beta (positive semi-definite penalty), FG' = Gamma(a_gibbs, 1) density",
        "C13_discrete_conditional: incoming model state fully updated (clean_state; C13_clean_state_after_update), wf graph, "
        "auto-update off in the kernel's private copy, the variable is a Value node; vmap = map",
        "ln Gamma only enters as an additive constant (arbitrary function lgam in the theorems)",
    ]
    ctx.extra_tb = ["axioms of the Coq Reals library / Coquelicot / Interval: " + ", ".join(common.REALS_AXIOMS),
                    "Interval tactic (verified interval arithmetic) for the R-lemmas",
                    "unittest.mock.patch of jax.random.gamma / jax.random.categorical inside the harness process",
                    "tfp log-densities (InverseGamma, Normal, Poisson, Bernoulli, FiniteDiscrete) and liesel's "
                    "MultivariateNormalDegenerate enter through the real log_prob; their closed forms are the model's"]
    return cases


# ------------------------------------------------------------------------------------------------
# oracle / emission
# ------------------------------------------------------------------------------------------------
def oracle(c):
    try:
        if "raised" in c["obs"]:
            return f"the kernel transition (or the model's log_prob) raised {c['obs']['raised']}"
        if c["kind"] == "hand":
            return oracle_hand(c)
        return oracle_tau2(c) if c["kind"] == "tau2" else oracle_disc(c)
    finally:
        if "obs" in c:
            c["obs"].pop("_draws", None)
            for o in c["obs"].get("groups", []):
                o.pop("_draws", None)


def klass(c):
    return None


def klit(K):
    return lst(lst(rlit(x) for x in row) for row in K)


def logit_lemmas(ci, c, outs, lg, tag):
    out = []
    fin = [k for k in range(len(outs)) if math.isfinite(lg[k]) and prob_of(c, outs[k]) > 0]
    scale = max([1.0] + [abs(lg[k]) for k in fin])
    for k in fin[1:]:
        k0 = fin[0]
        out.append((f"c{ci}_{tag}logit{k}",
                    f"logit_ok {rlit(prob_of(c, outs[k]))} {rlit(prob_of(c, outs[k0]))} {rlit(c['c0'])} {rlit(c['c1'])} "
                    f"{rlit(c['s'])} {lst(rlit(y) for y in c['ys'])} {rlit(c['d0'])} {rlit(c['d1'])} "
                    f"{lst(rlit(n) for n in c['ns'])} {rlit(outs[k])} {rlit(outs[k0])} {rlit(lg[k] - lg[k0])} "
                    f"{rlit(TOLD * scale)}"))
    return out


def lemmas_of(ci, c, tag=""):
    out = []
    o = c["obs"]
    if "raised" in o:
        return out
    if c["kind"] == "hand":
        for gi in range(len(c["groups"])):
            out += lemmas_of(ci, group_case(c, gi), tag=f"g{gi}_")
        return out
    if c["kind"] == "tau2":
        tol = TOL32 if c["f32"] else TOL64
        head = f"{rlit(c['a'])} {rlit(c['b'])} {exact_rank(c['K'])} {lst(rlit(x) for x in c['beta'])} {klit(c['K'])}"
        if o["ncalls"] == 1 and finite(o.get("conc")) and finite(o["draw"]):
            out.append((f"c{ci}_{tag}kernel", f"tau2_ok {head} {rlit(c['g'])} {rlit(o['conc'])} {rlit(o['draw'])} "
                                         f"{rlit(tol * max(1, abs(o['conc'])))} {rlit(tol * abs(o['draw']) if o['draw'] != 0 else 0)}"))
        if all(finite(x) for x in o["lps"]):
            scale = max(1.0, max(abs(x) for x in o["lps"]))
            for j in range(1, len(c["ts"])):
                d = o["lps"][j] - o["lps"][0]
                out.append((f"c{ci}_{tag}profile{j}", f"profile_ok {head} {rlit(c['ts'][0])} {rlit(c['ts'][j])} {rlit(d)} "
                                                 f"{rlit(4 * tol * scale)}"))
    else:
        outs = o["draws"]
        want = [float(x) for x in disc_outcomes(c)]
        if o["ncalls"] == 1 and len(o["logits"]) == len(outs) and all(d in want for d in outs):
            out += logit_lemmas(ci, c, outs, o["logits"], "")
            for ri, rd in enumerate(o.get("rounds", [])):
                if rd["logits"] is not None and len(rd["logits"]) == len(outs):
                    out += logit_lemmas(ci, {**c, "s": rd["s"], "ys": rd["ys"], "ns": rd["ns"]}, outs, rd["logits"], f"r{ri + 2}")
    return out


def emit(ctx, cases):
    shards, cur, idxs, n = [], [], [], 0
    for i, c in enumerate(cases):
        ls = lemmas_of(i, c)
        if cur and n + len(ls) > 40:
            shards.append((ctx.new_shard(HEADER + "\n" + "\n".join(cur)), idxs))
            cur, idxs, n = [], [], 0
        for nm, stmt in ls:
            cur.append(f"Lemma {nm} : {stmt}.\nProof. c13_close. Qed.\n")
        if ls:
            idxs.append(i)
            n += len(ls)
    if cur:
        shards.append((ctx.new_shard(HEADER + "\n" + "\n".join(cur)), idxs))
    source_tie(ctx)
    return shards


# ------------------------------------------------------------------------------------------------
# second tie: the current source translated to Gallina and proved equal to the model (c13_tie.py)
# ------------------------------------------------------------------------------------------------
def source_tie(ctx):
    """Runs after the Coq build (emit is only called when it succeeded).  A broken source tie alone is no
    alarm: it is recorded in coverage.source_tie; run() adds it to ctx.broken only when the behavioural
    correspondence or the oracle report a violation as well."""
    try:
        tie = c13_tie.run(ctx, common.REPO)
    except Exception as ex:      # optional evidence; never let it abort the check
        tie = {"translated": [], "lemmas_ok": False, "lemmas": [], "not_tied": {"all": repr(ex)},
               "detail": f"SOURCE TIE BROKEN: c13_tie aborted: {type(ex).__name__}: {ex}"}
    ctx.cov["source_tie"] = tie
    for sec in tie.get("not_tied", {}):
        ctx.hist("T.source_tie_broken." + sec)
    ctx.hist("T.source_tie_lemmas", len(tie.get("lemmas", [])))
    ctx.extra_tb = getattr(ctx, "extra_tb", []) + [
        "source tie (advisory): tools/py2gallina_c13.py (fail-closed Python-ast -> Gallina translator; tau2 kernel: every number is a "
        "real number, float literals are the decimal fractions written, @ is dot / matvec / vecmat on lists, group.value_from(model_state, "
        "key) is the function's parameter for that key, jax.random.gamma is an oracle parameter; discrete kernel: the model object is a "
        "state of the graph machine of Graph.v threaded through the statements, model.state = / the flag loop / vars[name].value = / "
        "update(names) / log_prob are restore / clear_flags / Assign / Update / value, jax.vmap is an all-or-nothing map, "
        "jax.random.categorical is an oracle parameter) and the statements of the lemmas in harness/lv/c13_tie.py; result of this run in "
        "coverage.source_tie"]


def run(ctx):
    orig_finish = ctx.finish

    def finish(*a, **k):
        tie = ctx.cov.get("source_tie")
        if tie is None:
            ctx.cov["source_tie"] = {"translated": [], "lemmas_ok": False, "detail": "not attempted: the Coq build failed"}
        elif not tie.get("lemmas_ok") and ctx.violations:
            # the behavioural part / the oracle disagree too: name the broken source tie in the replay files
            for sec, why in tie.get("not_tied", {}).items():
                if not why.startswith("needs "):
                    ctx.broken.append(f"source tie [{sec}]: {why}"[:400])
        return orig_finish(*a, **k)
    ctx.finish = finish
    return common.run_standard(ctx, sys.modules[__name__])


def diagnose(ctx, path, idxs, cases):
    txt = open(path).read()
    txt = re.sub(r"Lemma (\w+) : (.*?)\.\nProof\. c13_close\. Qed\.",
                 lambda m: (f"Goal {m.group(2)}.\nProof. tryif (solve [c13_close]) then idtac else idtac \"DISAGREE {m.group(1)}\". Abort."),
                 txt, flags=re.S)
    ok, out = ctx.coq_eval(txt)
    names = re.findall(r"DISAGREE (\w+)", out)
    common.log("disagreeing lemmas:", names[:20])
    for n in names[:8]:
        ctx.broken.append(f"correspondence lemma {n}")
    return sorted({int(re.match(r"c(\d+)_", n).group(1)) for n in names})


# ------------------------------------------------------------------------------------------------
# search / replay
# ------------------------------------------------------------------------------------------------
def search(ctx, disagreeing):
    out = []
    for c in disagreeing:
        c2 = run_case(strip(dict(c)), heavy=True)
        r = oracle(c2)
        if r:
            out.append({"why": r, **c2})
    if out:
        return out
    rnd = random.Random(ctx.seed + 1)
    for i in range(60):
        c = gen_hand(rnd, i) if i % 3 == 2 else gen_tau2(rnd, i) if i % 2 == 0 else gen_disc(rnd, i)
        run_case(c, heavy=(i % 3 == 0))
        r = oracle(c)
        if r:
            out.append({"why": r, **c})
            if len(out) >= 2:
                break
    return out


def replay(rp) -> int:
    c = rp["replay"].get("case")
    if not c or "kind" not in c:
        print("replay file names no concrete input (broken lemma only):", rp["replay"].get("broken"))
        for d in rp["replay"].get("disagreeing_cases", [])[:3]:
            print("disagreeing case:", {k: v for k, v in d.items() if k != "obs"})
        return 0
    new = run_case(strip(dict(c)), heavy=True)
    r = oracle(new)
    print("input:", strip(new))
    print("observed:", {k: v for k, v in new["obs"].items() if not k.startswith("_")})
    if "where" in new["obs"]:
        print("\n".join(new["obs"]["where"]))
    if r:
        print("REPLAY FAILS:", r)
        return 1
    print("replay passes on the current tree")
    return 0
