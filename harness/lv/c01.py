"""C01 - model cache coherence.

Random well-formed node graphs (Value / Data, Calc, TransientCalc, TransientIdentity, InputGroup, Dist,
TransientDist, strong and weak Vars with and without distribution, the three _model_log_* nodes that
the GraphBuilder adds) are built as REAL liesel models on Python-int values; every node function is a
counting wrapper.  Random histories of the public mutating operations
    node.value = v / var.value = v,  model.auto_update = b,  model.update(*names),  s = model.state,
    model.state = s
are applied and after every operation node.value and node.outdated of every node, the called cached
functions and raised exceptions are recorded.  Coq re-runs the Graph model on the same graph and history
and the shard lemmas certify agreement at every step (vm_compute, Qed).  A direct oracle (from-scratch
recomputation in Python) reads the property literally on the observations.
"""
from __future__ import annotations

import copy
import json
import random

from . import common
from .common import lst, blit, natlit, zlit

P = 1000003
HEADER = """From Coq Require Import List ZArith Bool.
Import ListNotations.
From LV Require Import Graph.Graph Graph.GraphX Graph.GraphF Graph.CorrC01 Graph.CorrC01F.
Open Scope Z_scope.
"""

LIT_MAX_NODES = 13     # graphs up to this size are additionally run with the literal (fuelled) readers


def aff(salt, coefs, vals):
    assert len(coefs) == len(vals), (coefs, vals)
    return (salt + sum(c * v for c, v in zip(coefs, vals))) % P


class HarnessRaise(ArithmeticError):
    """raised by a node function of the harness for its designated argument values"""


def raises(rz, t):
    return rz is not None and t % rz[0] == rz[1]


class LP(list):
    """a per-observation log-probability vector; has the .sum() that Dist.update / _reduced_sum look for"""

    def sum(self):
        return sum(self)


def bad(x):
    """stands for a value of the wrong shape (vector where a scalar is due or vice versa): an integer that no
    node function produces for these arguments"""
    return (int(x) * 7 + 13) % P + P


def canon_lp(x, d):
    """canonical integer of what a distribution node built from the description d shows: the summed
    log-probability; per_obs=True nodes with a vector-valued log_prob must show the vector [t - split, split],
    all others a scalar"""
    per_obs, vec = d.get("per_obs", True), d.get("vec", False)
    if isinstance(x, LP):
        if per_obs and vec and len(x) == 2 and x[1] == d.get("split", 7):
            return sum(x)
        return bad(sum(x) + 1)
    if per_obs and vec and x is not None:
        return bad(x)
    return x


def apply_fs(fs, vals):
    if fs[0] == "aff":
        return aff(fs[1], fs[2], vals)
    if fs[0] == "id":
        return vals[0]
    if fs[0] == "sum":
        return sum(vals)
    raise ValueError(fs)


# ---------------------------------------------------------------------------------------------
# graph descriptions
# ---------------------------------------------------------------------------------------------
KW = ["a", "b", "c"]


def gen_spec(rnd: random.Random, nitems: int, flavour: str = "mixed", per_obs: bool = False,
             raising: float = 0.0, custom: float = 0.0) -> dict:
    """items refer to earlier items by index; ref = idx (the node / the Var) or [idx, "vn"] (value node
    of a Var, read directly)"""
    items: list[dict] = []

    def fs_for(nargs):
        return ["aff", rnd.randint(0, 999), [rnd.randint(1, 9) for _ in range(nargs)]]

    def rz(d):
        """cached node functions that raise when their result t has t mod m == r (only when asked for)"""
        if raising and rnd.random() < raising:
            m = rnd.choice([2, 3, 3, 4, 5])
            d["raise"] = [m, rnd.randrange(m)]
        return d

    def shape(d):
        """per_obs in {True, False} x scalar / vector-valued log_prob (only when asked for: other checks
        reuse this generator with the default per_obs=True, scalar)"""
        if per_obs:
            d["per_obs"] = rnd.random() < 0.55
            d["vec"] = rnd.random() < (0.4 if d["per_obs"] else 0.85)
            d["split"] = rnd.randint(1, 9)
        return d

    def pick_refs(k, allow_group):
        refs = []
        n = len(items)
        for _ in range(k):
            for _try in range(20):
                j = n - 1 - min(int(rnd.expovariate(0.45)), n - 1) if rnd.random() < 0.75 else rnd.randrange(n)
                it = items[j]
                if it["k"] == "group" and not allow_group:
                    continue
                if it.get("vec") and not allow_group:     # vector-valued log-probs are not forwarded either
                    continue
                if it["k"] == "var" and rnd.random() < 0.12:
                    refs.append([j, "vn"])
                else:
                    refs.append(j)
                break
        return refs

    def args(allow_group=True, lo=1, hi=3):
        nin = rnd.randint(lo, hi)
        nkw = rnd.choice([0, 0, 0, 1, 2]) if nin < 3 else 0
        ins = pick_refs(nin, allow_group)
        kws = pick_refs(nkw, allow_group)
        kwn = rnd.sample(KW, len(kws))
        return ins, kws, kwn

    weights = {
        "mixed": dict(value=20, svar=13, wvar=13, calc=20, tcalc=17, tid=4, group=4, dist=5, tdist=4),
        "transient": dict(value=18, svar=10, wvar=12, calc=18, tcalc=24, tid=8, group=5, dist=3, tdist=2),
        "vars": dict(value=10, svar=26, wvar=26, calc=16, tcalc=8, tid=2, group=2, dist=6, tdist=4),
        "plain": dict(value=30, svar=0, wvar=0, calc=45, tcalc=20, tid=5, group=0, dist=0, tdist=0),
    }[flavour]
    kinds = list(weights)
    wts = [weights[k] for k in kinds]
    for i in range(nitems):
        k = rnd.choices(kinds, wts)[0]
        if i < 2 or not items:
            k = rnd.choice(["value", "svar"]) if weights["svar"] else "value"
        if k == "value":
            items.append({"k": "value", "v": rnd.randint(-50, 50), "data": rnd.random() < 0.2})
        elif k in ("calc", "tcalc"):
            if custom and k == "calc" and rnd.random() < 0.35:
                # lsl.PIT(var): a caching node (PITCalc) that derives directly from Node
                cand = [j for j, jt in enumerate(items) if jt["k"] == "var" and jt.get("dist") and "pit" not in jt["dist"]]
                if cand:
                    j = rnd.choice(cand)
                    items[j]["dist"]["pit"] = {"item": i, "fs": fs_for(1)}
                    items.append({"k": "pit", "of": j, "fs": items[j]["dist"]["pit"]["fs"]})
                    continue
            ins, kws, kwn = args()
            it = {"k": k, "ins": ins, "kw": kws, "kwn": kwn, "fs": fs_for(len(ins) + len(kws))}
            if custom and k == "calc" and rnd.random() < custom:
                it["cls"] = "node"        # a harness subclass of lsl.Node that caches like Calc does
            items.append(rz(it) if k == "calc" else it)
        elif k == "tid":
            items.append({"k": "tid", "ins": pick_refs(1, False), "kw": [], "kwn": [], "fs": ["id"]})
        elif k == "group":
            ins, kws, kwn = args(allow_group=False)
            items.append({"k": "group", "ins": ins, "kw": kws, "kwn": kwn, "fs": fs_for(len(ins) + len(kws))})
        elif k in ("dist", "tdist"):
            ins, kws, kwn = args(lo=1, hi=2)
            at = None if rnd.random() < 0.7 else (pick_refs(1, False) or [None])[0]
            it = shape({"k": k, "ins": ins, "kw": kws, "kwn": kwn, "at": at, "atv": rnd.randint(-50, 50),
                        "fs": fs_for(len(ins) + len(kws) + 1)})
            items.append(rz(it) if k == "dist" else it)
        else:  # svar / wvar
            it = {"k": "var", "weak": k == "wvar", "role": rnd.choice(["", "", "obs", "par"])}
            if k == "svar":
                it["v"] = rnd.randint(-50, 50)
            else:
                ins, kws, kwn = args()
                it.update(ins=ins, kw=kws, kwn=kwn, fs=fs_for(len(ins) + len(kws)),
                          tvalue=rnd.random() < 0.15)     # value node is a TransientCalc
                if not it["tvalue"]:
                    rz(it)
                    if custom and rnd.random() < custom:
                        it["cls"] = "node"
            if items and rnd.random() < (0.65 if k == "wvar" else 0.5):
                dins, dkws, dkwn = args(lo=1, hi=2)
                it["dist"] = shape({"ins": dins, "kw": dkws, "kwn": dkwn, "fs": fs_for(len(dins) + len(dkws) + 1),
                                    "transient": rnd.random() < 0.12})
                if not it["dist"]["transient"]:
                    rz(it["dist"])
            items.append(it)
    return {"items": items}


class GraphAnomaly(Exception):
    """the built model does not contain a node that one of its nodes reads"""


class Real:
    """the real liesel model built from a description, with counting wrappers"""

    def __init__(self, spec: dict, order: list[str] | None = None, order_seed: int = 0):
        import logging
        import liesel.model as lsl
        logging.getLogger("liesel").setLevel(logging.ERROR)
        self.lsl = lsl
        self.spec = spec
        self.log: list[str] = []
        self.logging = False
        self.group_fs: dict[int, list] = {}
        self.dist_spec: dict[str, dict] = {}
        self.raise_spec: dict[str, list | None] = {}
        self.raised_at = None
        self.last_err_kind = None
        objs: list = []
        items = spec["items"]
        roots = []

        def resolve(ref):
            if isinstance(ref, list):
                return objs[ref[0]].value_node
            return objs[ref]

        def ref_item(ref):
            return items[ref[0] if isinstance(ref, list) else ref]

        def canon_arg(x, ref):
            it = ref_item(ref)
            if it["k"] == "group" and not isinstance(ref, list):
                return self._canon_group(x, it)
            if it["k"] in ("dist", "tdist") and not isinstance(ref, list):
                return canon_lp(x, it)
            return x

        def make_fn(name, it, refs_in, refs_kw, kwn):
            fs = it["fs"]

            def fn(*a, **kw):
                vals = [canon_arg(x, r) for x, r in zip(a, refs_in)]
                vals += [canon_arg(kw[n], r) for n, r in zip(kwn, refs_kw)]
                t = apply_fs(fs, vals)
                if raises(it.get("raise"), t):
                    self.raised_at = name
                    raise HarnessRaise(f"{name}: designated failure for result {t}")
                if self.logging:
                    self.log.append(name)
                return t
            self.raise_spec[name] = it.get("raise")
            return fn

        class HNode(lsl.Node):
            """a caching node that is neither a Calc nor a Dist: derives directly from lsl.Node and implements
            update() the way Calc does (another realisation of the model's Cached kind)"""

            def __init__(hself, function, *inputs, _name="", **kwinputs):
                super().__init__(*inputs, _name=_name, **kwinputs)
                hself._function = function

            def update(hself):
                args = [_input.value for _input in hself.inputs]
                kwargs = {kw: _input.value for kw, _input in hself.kwinputs.items()}
                hself._value = hself._function(*args, **kwargs)
                hself._outdated = False
                return hself

        def make_dist(name, d, refs_in, refs_kw, kwn):
            fs = d["fs"]
            outer = self

            class HDist:
                def __init__(self, *a, **kw):
                    self.vals = [canon_arg(x, r) for x, r in zip(a, refs_in)]
                    self.vals += [canon_arg(kw[n], r) for n, r in zip(kwn, refs_kw)]

                def log_prob(self, at):
                    t = apply_fs(fs, self.vals + [at])
                    if raises(d.get("raise"), t):
                        outer.raised_at = name
                        raise HarnessRaise(f"{name}: designated failure for result {t}")
                    if outer.logging:
                        outer.log.append(name)
                    if d.get("vec"):
                        c = d.get("split", 7)
                        return LP([t - c, c])
                    return t

                def cdf(self, at):
                    # read by lsl.PIT's PITCalc: a function of the log-probability at the current values
                    pit = d["pit"]
                    if outer.logging:
                        outer.log.append(f"v{pit['item']}_value")
                    return apply_fs(pit["fs"], [apply_fs(fs, self.vals + [at])])
            outer.dist_spec[name] = d
            outer.raise_spec[name] = d.get("raise")
            return HDist

        for i, it in enumerate(items):
            k = it["k"]
            if k == "value":
                cls = lsl.Data if it.get("data") else lsl.Value
                o = cls(it["v"], _name=f"n{i}")
            elif k == "pit":
                o = lsl.PIT(objs[it["of"]], name=f"v{i}")
            elif k in ("calc", "tcalc"):
                cls = lsl.Calc if k == "calc" else lsl.TransientCalc
                if it.get("cls") == "node":
                    cls = HNode
                o = cls(make_fn(f"n{i}", it, it["ins"], it["kw"], it["kwn"]),
                        *[resolve(r) for r in it["ins"]], _name=f"n{i}",
                        **{n: resolve(r) for n, r in zip(it["kwn"], it["kw"])})
            elif k == "tid":
                o = lsl.TransientIdentity(resolve(it["ins"][0]), _name=f"n{i}")
            elif k == "group":
                o = lsl.InputGroup(*[resolve(r) for r in it["ins"]], _name=f"n{i}",
                                   **{n: resolve(r) for n, r in zip(it["kwn"], it["kw"])})
            elif k in ("dist", "tdist"):
                cls = lsl.Dist if k == "dist" else lsl.TransientDist
                o = cls(make_dist(f"n{i}", it, it["ins"], it["kw"], it["kwn"]),
                        *[resolve(r) for r in it["ins"]], _name=f"n{i}",
                        **{n: resolve(r) for n, r in zip(it["kwn"], it["kw"])})
                if not it.get("per_obs", True):
                    o.per_obs = False
                if it["at"] is None:
                    o.at = lsl.Value(it["atv"], _name=f"n{i}_at")
                else:
                    at = resolve(it["at"])
                    o.at = at.var_value_node if isinstance(at, lsl.Var) else at
            else:
                dist = None
                if it.get("dist"):
                    d = it["dist"]
                    cls = lsl.TransientDist if d["transient"] else lsl.Dist
                    dist = cls(make_dist(f"v{i}_log_prob", d, d["ins"], d["kw"], d["kwn"]),
                               *[resolve(r) for r in d["ins"]],
                               **{n: resolve(r) for n, r in zip(d["kwn"], d["kw"])})
                    if not d.get("per_obs", True):
                        dist.per_obs = False
                if it["weak"]:
                    cls = lsl.TransientCalc if it.get("tvalue") else (HNode if it.get("cls") == "node" else lsl.Calc)
                    val = cls(make_fn(f"v{i}_value", it, it["ins"], it["kw"], it["kwn"]),
                              *[resolve(r) for r in it["ins"]],
                              **{n: resolve(r) for n, r in zip(it["kwn"], it["kw"])})
                else:
                    val = it["v"]
                o = lsl.Var(val, dist, name=f"v{i}")
                if it["role"] == "obs":
                    o.observed = True
                elif it["role"] == "par":
                    o.parameter = True
            if k == "pit" and not o.name:
                raise AssertionError("PIT variable without name")
            objs.append(o)
            roots.append(o)
        self.objs = objs
        # history around the build: values assigned after the nodes were created (Calc nodes evaluate
        # on creation) and before the build; build -> pop_nodes_and_vars -> assign -> build again
        for idx, v in spec.get("pre") or []:
            objs[idx].value = v
        gb = lsl.GraphBuilder(to_float32=False)
        gb.add(*roots)
        self.model = gb.build_model()
        for rnd_assign in spec.get("rebuild") or []:
            nodes, _vars = self.model.pop_nodes_and_vars()
            for idx, v in rnd_assign:
                objs[idx].value = v
            gb = lsl.GraphBuilder(to_float32=False)
            gb.add(*nodes.values(), *_vars.values())
            self.model = gb.build_model()
        self._extract(order, order_seed)

    # canonical integer for the ArgGroup an InputGroup forwards
    def _canon_group(self, x, it):
        vals = list(x.args) + [x.kwargs[n] for n in it["kwn"]]
        items = self.spec["items"]
        for j, ref in enumerate(list(it["ins"]) + list(it["kw"])):
            if not isinstance(ref, list) and items[ref]["k"] in ("dist", "tdist"):
                vals[j] = canon_lp(vals[j], items[ref])
        return apply_fs(it["fs"], vals)

    def _extract(self, order, order_seed):
        """the graph of the built model, read through the public API (model.nodes, node.inputs,
        node.kwinputs, Dist.at, node.outputs); positions follow a topological order chosen here"""
        lsl = self.lsl
        m = self.model
        nodes = dict(m.nodes)
        items = self.spec["items"]
        info = {}
        for name, nd in nodes.items():
            ins = list(nd.inputs) + list(nd.kwinputs.values())
            if isinstance(nd, lsl.Dist) and nd.at is not None:
                ins.append(nd.at)
            if isinstance(nd, lsl.Value):
                kind = "V"
            elif isinstance(nd, lsl.TransientNode):
                kind = "T"
            else:
                kind = "C"
            for x in ins:
                if x.name not in nodes or nodes[x.name] is not x:
                    raise GraphAnomaly(f"node {name} reads node {x.name!r}, which is not among the nodes of the built model "
                                       f"(assignments to it can never flag {name} as outdated)")
            info[name] = {"kind": kind, "ins": [x.name for x in ins], "node": nd}
        # function symbols
        for name, d in info.items():
            d["fs"] = self._fs_of(name, d)
        if order is None:
            rnd = random.Random(order_seed)
            indeg = {n: len(set(d["ins"])) for n, d in info.items()}
            outs = {n: [] for n in info}
            for n, d in info.items():
                for i in set(d["ins"]):
                    outs[i].append(n)
            ready = sorted(n for n, k in indeg.items() if k == 0)
            order = []
            while ready:
                n = ready.pop(rnd.randrange(len(ready)))
                order.append(n)
                for o in sorted(outs[n]):
                    indeg[o] -= 1
                    if indeg[o] == 0:
                        ready.append(o)
            assert len(order) == len(info), "node graph of the built model is cyclic"
        self.order = order
        self.pos = {n: i for i, n in enumerate(order)}
        self.kinds = [info[n]["kind"] for n in order]
        self.ins = [[self.pos[x] for x in info[n]["ins"]] for n in order]
        self.fs = [info[n]["fs"] for n in order]
        self.nodes = [info[n]["node"] for n in order]
        self.counted = [info[n]["kind"] == "C" and not n.startswith("_model_") for n in order]
        self.rz = [getattr(self, "raise_spec", {}).get(n) if info[n]["kind"] == "C" else None for n in order]
        self.real_outs = [sorted({self.pos[o.name] for o in nd.outputs}) for nd in self.nodes]
        self.var_of = {}
        for vname, v in m.vars.items():
            self.var_of[v.value_node.name] = vname

    def _fs_of(self, name, d):
        items = self.spec["items"]
        if name.startswith("_model_"):
            return ["sum"]
        if name.endswith("_at") and name[1:-3].isdigit():
            return ["id"]
        if name.startswith("n"):
            it = items[int(name[1:])]
            return it.get("fs", ["id"])
        assert name.startswith("v"), name
        idx, role = name[1:].split("_", 1)
        it = items[int(idx)]
        if role == "value":
            return it.get("fs", ["id"])
        if role == "var_value":
            return ["id"]
        if role == "log_prob":
            return it["dist"]["fs"]
        raise ValueError(name)

    # ---- observations ---------------------------------------------------------------------------
    def canon_value(self, k):
        v = self.nodes[k].value
        if isinstance(self.nodes[k], self.lsl.InputGroup):
            it = self.spec["items"][int(self.order[k][1:])]
            return self._canon_group(v, it)
        d = getattr(self, "dist_spec", {}).get(self.order[k])
        if d is not None:
            return canon_lp(v, d)
        return v

    def observe(self):
        self.logging = False
        vals = []
        for k in range(len(self.nodes)):
            v = self.canon_value(k)
            if not isinstance(v, int) or isinstance(v, bool):
                raise TypeError(f"node {self.order[k]} shows a non-integer value {v!r}")
            vals.append(int(v))
        flags = [bool(nd.outdated) for nd in self.nodes]
        return vals, flags

    def apply(self, op, snaps):
        """returns (called cached nodes in call order, raised?)"""
        m = self.model
        self.log.clear()
        self.logging = True
        self.raised_at = None
        self.last_err_kind = None
        err = False
        try:
            if op[0] == "assign":
                _, k, v, via = op
                name = self.order[k]
                if via == "var" and name in self.var_of:
                    m.vars[self.var_of[name]].value = v
                else:
                    m.nodes[name].value = v
            elif op[0] == "auto":
                m.auto_update = bool(op[1])
            elif op[0] == "update":
                names = [self.order[k] if k < len(self.order) else f"no_such_node_{k}" for k in op[1]]
                m.update(*names)
            elif op[0] == "save":
                snaps.append(m.state)
            elif op[0] == "restore":
                m.state = snaps[op[1]]
            elif op[0] == "restore_edited":
                # the public state setter with a saved state of this model in which some nodes were
                # additionally marked outdated (values untouched)
                st = dict(snaps[op[1]])
                for k in op[2]:
                    name = self.order[k]
                    st[name] = st[name]._replace(outdated=True)
                m.state = st
            else:
                raise ValueError(op)
        except Exception as ex:      # AttributeError / RuntimeError / KeyError today; any exception counts as 'raised'
            err = True
            # "fn": a node function of the harness raised in mid-sweep (possibly wrapped); "api": anything else
            seen, e, kind = set(), ex, "api"
            while e is not None and id(e) not in seen:
                seen.add(id(e))
                if isinstance(e, HarnessRaise):
                    kind = "fn"
                e = e.__cause__ or e.__context__
            self.last_err_kind = kind
        finally:
            self.logging = False
        called = [self.pos[n] for n in self.log if self.counted[self.pos[n]]]
        return called, err


# ---------------------------------------------------------------------------------------------
# Python mirror used by the oracle and the op generator (descendants, ancestors, from-scratch values)
# ---------------------------------------------------------------------------------------------
def pg_of(c):
    pg = PG(c["kinds"], c["ins"], c["fs"], c.get("rz"))
    pg.counted = c.get("counted")
    return pg


class PG:
    def __init__(self, kinds, ins, fs, rz=None):
        self.kinds, self.ins, self.fs = kinds, ins, fs
        self.rz = rz or [None] * len(kinds)
        n = len(kinds)
        self.n = n
        self.anc = [set() for _ in range(n)]       # proper ancestors
        for k in range(n):
            for i in ins[k]:
                self.anc[k].add(i)
                self.anc[k] |= self.anc[i]
        self.desc = [set() for _ in range(n)]      # proper descendants
        for k in range(n):
            for a in self.anc[k]:
                self.desc[a].add(k)

    def scratch(self, vals):
        out = [None] * self.n
        for k in range(self.n):
            if self.kinds[k] == "V":
                out[k] = vals[k]
            else:
                args = [out[i] for i in self.ins[k]]
                if any(a is None for a in args):
                    continue                      # undefined: a function it depends on raises from scratch
                t = apply_fs(self.fs[k], args)
                out[k] = None if raises(self.rz[k], t) else t
        return out


def check_history(pg: PG, init_obs, steps, ops):
    """the property, read literally on the observations; returns None or (step index, message)"""
    n = pg.n
    vals, flags = init_obs
    touched = [False] * n
    snaps = []
    auto = True

    def coherent(vals, flags, where):
        sc = pg.scratch(vals)
        for k in range(n):
            if not flags[k] and vals[k] != sc[k]:
                return (f"{where}: node {k} reports itself up to date but holds {vals[k]}, a from-scratch "
                        f"recomputation from the current inputs "
                        + ("raises" if sc[k] is None else f"gives {sc[k]}"))
        return None

    r = coherent(vals, flags, "after build")
    if r:
        return (-1, r)
    if any(flags):
        return (-1, f"after build: nodes {[k for k in range(n) if flags[k]]} are outdated")
    for si, (op, ob) in enumerate(zip(ops, steps)):
        nvals, nflags, called, err = ob["vals"], ob["flags"], ob["called"], ob["err"]
        where = f"step {si} {op}"
        fn_err = bool(err) and ob.get("kind") == "fn"      # a node function raised in mid-sweep
        if err and not fn_err:
            if nvals != vals or nflags != flags:
                return (si, f"{where}: raised but changed the model")
            continue
        if fn_err and op[0] not in ("assign", "update"):
            return (si, f"{where}: evaluated a node function (which raised)")
        r = coherent(nvals, nflags, where)
        if r:
            return (si, r)
        # ghost: an ancestor was assigned since the node was last computed
        pre_touched = list(touched)
        if op[0] == "assign":
            for d in pg.desc[op[1]]:
                pre_touched[d] = True
        if len(set(called)) != len(called):
            return (si, f"{where}: a cached node was evaluated more than once: {called}")
        for c in called:
            if not pre_touched[c]:
                return (si, f"{where}: cached node {c} was evaluated although no ancestor was assigned since it "
                            f"was last computed")
        seen = set()
        for c in called:       # evaluation order must respect the dependencies
            if seen & pg.desc[c]:
                return (si, f"{where}: node {c} evaluated after one of its descendants")
            seen.add(c)
        touched = pre_touched
        for c in called:
            touched[c] = False
        if fn_err:
            f = ob.get("raised_at")
            if f is not None and not pre_touched[f]:
                return (si, f"{where}: cached node {f} was evaluated (and raised) although no ancestor was assigned "
                            f"since it was last computed")
            # everything that was not evaluated is as the sweep found it
            for k in range(n):
                if pg.kinds[k] == "C" and k not in called and (getattr(pg, "counted", None) or [True] * n)[k]:
                    was = flags[k] or (op[0] == "assign" and k in pg.desc[op[1]])
                    if nvals[k] != vals[k] or nflags[k] != was:
                        return (si, f"{where}: node {k} was not evaluated before the exception, yet its value or flag changed")
        if op[0] == "assign":
            if auto and any(nflags) and not fn_err:
                return (si, f"{where}: auto-update on, but nodes {[k for k in range(n) if nflags[k]]} stay outdated")
            if fn_err and not auto:
                return (si, f"{where}: auto-update off, but a node function was evaluated (and raised)")
            if not auto:
                if called:
                    return (si, f"{where}: auto-update off, but nodes {called} were evaluated")
                for k in range(n):
                    if k != op[1] and nvals[k] != vals[k] and pg.kinds[k] != "T":
                        return (si, f"{where}: assignment changed the stored value of node {k}")
                    if k not in pg.desc[op[1]] and nflags[k] != flags[k]:
                        return (si, f"{where}: assignment changed the flag of node {k}, not a descendant")
            if nvals[op[1]] != op[2]:
                return (si, f"{where}: node does not hold the assigned value")
        elif op[0] == "auto":
            auto = bool(op[1])
            if nvals != vals or nflags != flags or called:
                return (si, f"{where}: toggling auto_update changed the model")
        elif op[0] == "update":
            if not op[1]:
                if any(nflags) and not fn_err:
                    return (si, f"{where}: full update leaves nodes {[k for k in range(n) if nflags[k]]} outdated")
            else:
                clo = set(op[1])
                for t in op[1]:
                    clo |= pg.anc[t]
                bad = [k for k in sorted(clo) if nflags[k]]
                if bad and not fn_err:
                    return (si, f"{where}: targeted update leaves nodes {bad} (targets or their ancestors) outdated")
                for k in range(n):
                    if k not in clo and pg.kinds[k] == "C" and (nvals[k] != vals[k] or nflags[k] != flags[k]):
                        return (si, f"{where}: targeted update touched node {k} outside the ancestor closure")
            for c in called:
                if not flags[c]:
                    return (si, f"{where}: node {c} was evaluated although it was not outdated")
        elif op[0] == "save":
            snaps.append((list(vals), list(flags), list(touched)))
            if nvals != vals or nflags != flags or called:
                return (si, f"{where}: reading the state changed the model")
        elif op[0] in ("restore", "restore_edited"):
            svals, sflags, stouched = snaps[op[1]]
            touched = list(stouched)
            if op[0] == "restore_edited":
                # stored flag of a cached node = saved or marked; reported flags of transient nodes follow
                sflags = list(sflags)
                for k in range(n):
                    if pg.kinds[k] == "C":
                        sflags[k] = sflags[k] or k in op[2]
                    elif pg.kinds[k] == "T":
                        sflags[k] = any(sflags[i] for i in pg.ins[k])
                for k in op[2]:
                    touched[k] = True
            if called:
                return (si, f"{where}: restoring a state evaluated nodes {called}")
            for k in range(n):
                if pg.kinds[k] != "T" and (nvals[k] != svals[k]):
                    return (si, f"{where}: node {k} does not hold the restored value")
                if nflags[k] != sflags[k]:
                    return (si, f"{where}: node {k} does not show the restored flag")
        vals, flags = nvals, nflags
    return None


# ---------------------------------------------------------------------------------------------
# operation histories
# ---------------------------------------------------------------------------------------------
def gen_ops(rnd: random.Random, pg: PG, nops: int, scenario: str, edited: bool = False):
    """edited=True adds the operation ["restore_edited", k, marks] (state setter on an edited snapshot);
    other checks reuse this generator with the default"""
    n = pg.n
    C = [k for k in range(n) if pg.kinds[k] == "C"]
    V = [k for k in range(n) if pg.kinds[k] == "V"]
    Vd = [k for k in V if pg.desc[k]] or V
    nonV = [k for k in range(n) if pg.kinds[k] != "V"]
    T = [k for k in range(n) if pg.kinds[k] == "T"]
    nsnap = 0
    ops = []

    def val():
        return rnd.randint(-99, 99)

    def assign(k=None):
        k = rnd.choice(Vd if rnd.random() < 0.85 else V) if k is None else k
        return ["assign", k, val(), rnd.choice(["node", "var"])]

    def targets(prefer=None):
        m = rnd.choice([1, 1, 1, 2, 3])
        pool = list(prefer) if prefer and rnd.random() < 0.7 else list(range(n))
        return [rnd.choice(pool) for _ in range(m)]

    def scen(name):
        nonlocal nsnap
        out = []
        if name == "auto_off_targeted":
            x = rnd.choice(Vd)
            out.append(["auto", False])
            out.append(assign(x))
            d = sorted(pg.desc[x])
            r = rnd.random()
            if r < 0.45 and d:
                out.append(["update", [rnd.choice(d)]])               # a descendant (or something below)
            elif r < 0.75:
                nd = [k for k in nonV if k not in pg.desc[x]]
                out.append(["update", [rnd.choice(nd or list(range(n)))]])   # a sibling / non-descendant
            else:
                out.append(["update", targets(d)])
            if rnd.random() < 0.5:
                out.append(["update", []])
        elif name == "dirty_snapshot":
            out.append(["auto", False])
            out.append(assign())
            if rnd.random() < 0.4:
                out.append(assign())
            out.append(["save"])
            nsnap += 1
            out.append(["update", []] if rnd.random() < 0.7 else ["update", targets()])
            if rnd.random() < 0.3:
                out.append(assign())
            out.append(["restore", nsnap - 1])
            out.append(["update", []] if rnd.random() < 0.7 else ["update", targets()])
        elif name == "toggle_join":
            y = rnd.choice(Vd)
            out.append(["auto", False])
            out.append(assign(y))
            out.append(["auto", True])
            # an input sharing a descendant with y, if there is one
            share = [x for x in Vd if x != y and (pg.desc[x] & pg.desc[y])]
            out.append(assign(rnd.choice(share) if share and rnd.random() < 0.8 else None))
        elif name == "nothing_dirty":
            out.append(["update", []])
            out.append(["update", targets()] if rnd.random() < 0.5 else ["update", []])
        elif name == "transient_target":
            out.append(["auto", False])
            out.append(assign())
            out.append(["update", [rnd.choice(T)] if T else targets()])
        elif name == "errors":
            r = rnd.random()
            if r < 0.4 and nonV:
                out.append(["assign", rnd.choice(nonV), val(), rnd.choice(["node", "var"])])
            elif r < 0.8:
                # the unknown name comes first: whether the known names before it are processed is not
                # part of the property (the code as found resolves all names before it updates anything)
                out.append(["update", [n + rnd.randint(0, 3)] + targets()])
            else:
                out.append(["auto", False])
                out.append(assign())
                out.append(["update", [n + 1]])
        elif name == "clean_snapshot":
            out.append(["save"])
            nsnap += 1
            out.append(assign())
            out.append(["restore", nsnap - 1])
        elif name == "edited_dirty_parent":
            # a clean state is saved and restored with a cached node p marked outdated while a cached
            # descendant c stays clean; then an ancestor of p is assigned (auto-update off) and c, something
            # below it, or everything is updated
            trip = [(gp, p_, c) for p_ in C for c in C if c in pg.desc[p_]
                    for gp in V if p_ in pg.desc[gp]]
            out.append(["update", []])
            out.append(["save"])
            nsnap += 1
            if trip:
                gp, p_, c = rnd.choice(trip)
                marks = [p_] + ([rnd.choice(C)] if rnd.random() < 0.25 else [])
                marks = [k for k in dict.fromkeys(marks) if k != c]
                out.append(["restore_edited", nsnap - 1, marks])
                out.append(["auto", False])
                out.append(assign(gp))
                r = rnd.random()
                below = sorted(pg.desc[c])
                if r < 0.4:
                    out.append(["update", [c]])
                elif r < 0.6 and below:
                    out.append(["update", [rnd.choice(below)]])
                elif r < 0.8:
                    out.append(["update", []])
                else:
                    out.append(["auto", True])
                    out.append(assign())
            else:
                out.append(["restore_edited", nsnap - 1, [rnd.randrange(n)]])
                out.append(["update", []] if rnd.random() < 0.5 else ["update", targets()])
        elif name == "raise_continue":
            # keep assigning (auto-update on) above a node whose function raises for some values, and go on
            # after the exceptions: updates, snapshots, more assignments
            R = [k for k in range(n) if pg.rz[k]]
            tgtV = [a for k in R for a in pg.anc[k] if pg.kinds[a] == "V"] or Vd
            # prefer inputs that also feed a cached node which does not depend on the raising one: it may be
            # evaluated before the exception
            pref = [a for k in R for a in pg.anc[k] if pg.kinds[a] == "V"
                    and any(pg.kinds[c] == "C" and c != k and c not in pg.desc[k] for c in pg.desc[a])]
            if pref:
                tgtV = pref * 3 + tgtV
            below = sorted({d for k in R for d in (pg.desc[k] | {k})}) or list(range(n))
            out.append(["auto", True])
            for _ in range(rnd.randint(3, 7)):
                r = rnd.random()
                if r < 0.55:
                    out.append(assign(rnd.choice(tgtV)))
                elif r < 0.65:
                    out.append(["update", []])
                elif r < 0.8:
                    out.append(["update", [rnd.choice(below)]])
                elif r < 0.88:
                    out.append(["save"])
                    nsnap += 1
                elif nsnap:
                    out.append(["restore", rnd.randrange(nsnap)])
                else:
                    out.append(["auto", rnd.random() < 0.7])
        elif name == "edited_random":
            if not nsnap:
                out.append(["save"])
                nsnap += 1
            marks = [rnd.choice(C) if C and rnd.random() < 0.8 else rnd.randrange(n)
                     for _ in range(rnd.choice([0, 1, 1, 2, 3]))]
            out.append(["restore_edited", rnd.randrange(nsnap), marks])
            r = rnd.random()
            if r < 0.3:
                out.append(["update", targets()])
            elif r < 0.5:
                out.append(["save"])
                nsnap += 1
            elif r < 0.8:
                out.append(assign())
        return out

    if scenario != "random":
        pre = rnd.randint(0, 3)
        for _ in range(pre):
            ops.append(assign() if rnd.random() < 0.7 else ["auto", rnd.random() < 0.5])
        ops += scen(scenario)
    while len(ops) < nops:
        r = rnd.random()
        if r < 0.38:
            ops.append(assign())
        elif r < 0.50:
            ops.append(["auto", rnd.random() < 0.4])
        elif r < 0.60:
            ops.append(["update", []])
        elif r < 0.76:
            ops.append(["update", targets()])
        elif r < 0.84:
            ops.append(["save"])
            nsnap += 1
        elif r < 0.92 and nsnap:
            ops.append(["restore", rnd.randrange(nsnap)])
        else:
            ops += scen(rnd.choice(["auto_off_targeted", "dirty_snapshot", "toggle_join", "transient_target",
                                    "errors", "nothing_dirty", "clean_snapshot"]
                                   + (["edited_dirty_parent", "edited_random", "edited_random"] if edited else [])
                                   + (["raise_continue"] * 3 if edited and any(pg.rz) else [])))
    return ops


SCENARIOS = ["auto_off_targeted", "dirty_snapshot", "toggle_join", "nothing_dirty", "transient_target",
             "errors", "clean_snapshot", "random", "edited_dirty_parent", "edited_random"]


def run_history(spec, ops, order=None, order_seed=0, _retry=True):
    """build the real model, apply the history, return the case dict (graph + observations).

    Which nodes a sweep evaluates before a node function raises depends on the topological order the
    implementation happens to use, which is not part of the property: if the observations of the raising
    sweeps are not what the harness's own order predicts, an order consistent with them is computed (the
    implementation's fixed order is one) and the history is run again with positions renamed."""
    real = Real(spec, order, order_seed)
    init = real.observe()
    snaps = []
    steps = []
    for op in ops:
        called, err = real.apply(op, snaps)
        vals, flags = real.observe()
        st = {"vals": vals, "flags": flags, "called": called, "err": err}
        if err:
            st["kind"] = real.last_err_kind
            if real.last_err_kind == "fn" and real.raised_at in real.pos:
                st["raised_at"] = real.pos[real.raised_at]
        steps.append(st)
    case = {"spec": spec, "order": real.order, "kinds": real.kinds, "ins": real.ins, "fs": real.fs, "rz": real.rz,
            "outs": real.real_outs, "counted": real.counted, "ext0": [v if k == "V" else 0 for v, k in zip(init[0], real.kinds)],
            "init": {"vals": init[0], "flags": init[1]}, "ops": ops, "steps": steps}
    if _retry and any(st.get("kind") == "fn" for st in steps):
        new = consistent_order(case)
        if new is not None and new != real.order:
            pos = {nm: i for i, nm in enumerate(new)}
            old = real.order
            mp = lambda k: pos[old[k]] if k < len(old) else k
            ops2 = []
            for op in ops:
                if op[0] == "assign":
                    ops2.append([op[0], mp(op[1])] + list(op[2:]))
                elif op[0] == "update":
                    ops2.append([op[0], [mp(t) for t in op[1]]])
                elif op[0] == "restore_edited":
                    ops2.append([op[0], op[1], [mp(t) for t in op[2]]])
                else:
                    ops2.append(list(op))
            return run_history(spec, ops2, new, _retry=False)
    return case


def consistent_order(c):
    """a topological order of the node graph in which, for every sweep that raised, the nodes evaluated before
    the exception precede the raising node and the outdated nodes of the sweep that were not evaluated follow
    it; None if there is none or nothing has to change"""
    pg = pg_of(c)
    n = pg.n
    before = set()                      # (a, b): a must precede b
    flags = c["init"]["flags"]
    for op, st in zip(c["ops"], c["steps"]):
        if st.get("kind") == "fn" and st.get("raised_at") is not None and op[0] in ("assign", "update"):
            f = st["raised_at"]
            if op[0] == "assign" or not op[1]:
                clo = set(range(n))
            else:
                clo = set(t for t in op[1] if t < n)
                for t in list(clo):
                    clo |= pg.anc[t]
            for k in clo:
                if pg.kinds[k] != "C" or k == f:
                    continue
                was = flags[k] or (op[0] == "assign" and k in pg.desc[op[1]])
                if not was:
                    continue
                before.add((k, f) if not st["flags"][k] else (f, k))
        flags = st["flags"]
    if all(a < b for a, b in before):
        return None
    succ = {k: set() for k in range(n)}
    for k in range(n):
        for i in pg.ins[k]:
            succ[i].add(k)
    for a, b in before:
        succ[a].add(b)
    indeg = {k: 0 for k in range(n)}
    for a in succ:
        for b in succ[a]:
            indeg[b] += 1
    ready = sorted(k for k in range(n) if indeg[k] == 0)
    out = []
    while ready:
        k = ready.pop(0)
        out.append(k)
        for b in sorted(succ[k]):
            indeg[b] -= 1
            if indeg[b] == 0:
                ready.append(b)
                ready.sort()
    if len(out) != n:
        return None
    return [c["order"][k] for k in out]


def features(pg: PG):
    f = []
    n = pg.n
    cached = [k for k in range(n) if pg.kinds[k] == "C"]
    if any(pg.kinds[t] == "T" and any(pg.kinds[a] == "C" for a in pg.anc[t]) and any(pg.kinds[d] == "C" for d in pg.desc[t])
           for t in range(n)):
        f.append("transient_between_cached")
    if any(len(set(pg.ins[k])) >= 2 and pg.kinds[k] == "C" for k in range(n)):
        f.append("join")
    return f


def add_prebuild(rnd, spec, mode):
    """mode 'pre': assignments between node creation and build; 'rebuild': build, pop, assign, build again"""
    free = [i for i, it in enumerate(spec["items"]) if it["k"] == "value" or (it["k"] == "var" and not it["weak"])]
    if not free or mode is None:
        return spec

    def assigns():
        return [[rnd.choice(free), rnd.randint(-99, 99)] for _ in range(rnd.randint(1, 3))]
    if mode in ("pre", "both"):
        spec["pre"] = assigns()
    if mode in ("rebuild", "both"):
        spec["rebuild"] = [assigns() for _ in range(rnd.choice([1, 1, 2]))]
    return spec


def has_harness_raise(ex):
    seen = set()
    while ex is not None and id(ex) not in seen:
        seen.add(id(ex))
        if isinstance(ex, HarnessRaise):
            return True
        ex = ex.__cause__ or ex.__context__
    return False


def make_case(rnd, quick, scenario, flavour, size=None, require=None, prebuild=None, raising=0.0, custom=0.0):
    for _try in range(200):
        nitems = size or (rnd.randint(2, 7) if quick else rnd.choice([rnd.randint(2, 8), rnd.randint(6, 16)]))
        if require and _try > 0:
            nitems = max(nitems, 5)
        spec = gen_spec(rnd, nitems, "transient" if require and _try > 3 else flavour, per_obs=True, raising=raising,
                        custom=custom)
        spec = add_prebuild(rnd, spec, prebuild)
        oseed = rnd.randrange(2 ** 30)
        try:
            real = Real(spec, None, oseed)
        except GraphAnomaly as ex:
            return {"anomaly": str(ex), "spec": spec, "ops": [], "order": None, "kinds": [], "ins": [], "fs": [],
                    "steps": [], "scenario": scenario, "flavour": flavour}
        except Exception as ex:
            if type(ex).__name__ in ("NetworkXUnfeasible", "NetworkXError"):
                continue              # cyclic simulation graph: not a C01 input (C15 rejects it)
            if has_harness_raise(ex):
                continue              # a designated failure at build time: there is no model
            import traceback
            return {"anomaly": f"building the model from this acyclic description raises {ex!r}: "
                               + traceback.format_exc().strip().splitlines()[-3].strip(),
                    "spec": spec, "ops": [], "order": None, "kinds": [], "ins": [], "fs": [],
                    "steps": [], "scenario": scenario, "flavour": flavour}
        pg = PG(real.kinds, real.ins, real.fs, real.rz)
        if require and require not in features(pg) and _try < 199:
            continue
        nops = rnd.randint(1, 25)
        ops = gen_ops(rnd, pg, nops, scenario, edited=True)
        case = run_history(spec, ops, real.order)
        case["scenario"] = scenario
        case["flavour"] = flavour
        return case
    raise RuntimeError("could not generate a buildable graph description")


CORPUS = [
    # x -> A -> C, y -> B -> C ; auto off, assign y, auto on, assign x   (seeded change C01-3)
    {"spec": {"items": [{"k": "value", "v": 1, "data": False}, {"k": "value", "v": 2, "data": False},
                        {"k": "calc", "ins": [0], "kw": [], "kwn": [], "fs": ["aff", 3, [2]]},
                        {"k": "calc", "ins": [1], "kw": [], "kwn": [], "fs": ["aff", 5, [3]]},
                        {"k": "calc", "ins": [2, 3], "kw": [], "kwn": [], "fs": ["aff", 7, [4, 5]]}]},
     "ops_by_name": [["auto", False], ["assign", "n1", 10, "node"], ["auto", True], ["assign", "n0", 20, "node"]]},
    # weak variable with a distribution; targeted update below the distribution   (seeded change C01-1)
    {"spec": {"items": [{"k": "value", "v": 1, "data": False},
                        {"k": "var", "weak": True, "role": "", "ins": [0], "kw": [], "kwn": [], "fs": ["aff", 1, [2]],
                         "tvalue": False,
                         "dist": {"ins": [0], "kw": [], "kwn": [], "fs": ["aff", 4, [3, 5]], "transient": False}}]},
     "ops_by_name": [["auto", False], ["assign", "n0", 9, "node"], ["update", ["_model_log_prob"]],
                     ["update", []], ["assign", "n0", 11, "node"], ["update", ["v1_log_prob"]]]},
    # dirty snapshot restored after a full update   (seeded change C01-2)
    {"spec": {"items": [{"k": "var", "weak": False, "role": "par", "v": 3},
                        {"k": "calc", "ins": [0], "kw": [], "kwn": [], "fs": ["aff", 2, [7]]},
                        {"k": "tcalc", "ins": [1], "kw": [0], "kwn": ["b"], "fs": ["aff", 1, [2, 3]]},
                        {"k": "calc", "ins": [2], "kw": [], "kwn": [], "fs": ["aff", 9, [2]]}]},
     "ops_by_name": [["auto", False], ["assign", "v0_value", 8, "var"], ["save"], ["update", []],
                     ["restore", 0], ["update", []], ["restore", 0], ["update", ["n2"]]]},
    # x -> A -> B -> C: snapshot restored with A marked outdated (B, C clean), x assigned, update   (seeded C01-4)
    {"spec": {"items": [{"k": "value", "v": 1, "data": False},
                        {"k": "calc", "ins": [0], "kw": [], "kwn": [], "fs": ["aff", 3, [2]]},
                        {"k": "tcalc", "ins": [1], "kw": [], "kwn": [], "fs": ["aff", 1, [3]]},
                        {"k": "calc", "ins": [2], "kw": [], "kwn": [], "fs": ["aff", 5, [3]]},
                        {"k": "calc", "ins": [3, 1], "kw": [], "kwn": [], "fs": ["aff", 7, [4, 5]]}]},
     "ops_by_name": [["save"], ["restore_edited", 0, ["n1"]], ["auto", False], ["assign", "n0", 10, "node"],
                     ["update", ["n3"]], ["update", []], ["restore_edited", 0, ["n3", "n2"]], ["update", ["n4"]]]},
    # distribution nodes with per_obs=False and a vector-valued log_prob (the summed branch)   (seeded C01-5)
    {"spec": {"items": [{"k": "value", "v": 2, "data": False},
                        {"k": "var", "weak": False, "role": "par", "v": 3,
                         "dist": {"ins": [0], "kw": [], "kwn": [], "fs": ["aff", 4, [3, 5]], "transient": False,
                                  "per_obs": False, "vec": True, "split": 4}},
                        {"k": "dist", "ins": [1], "kw": [], "kwn": [], "at": None, "atv": 6, "fs": ["aff", 2, [3, 2]],
                         "per_obs": True, "vec": True, "split": 3},
                        {"k": "tdist", "ins": [0], "kw": [], "kwn": [], "at": 1, "atv": 0, "fs": ["aff", 9, [2, 7]],
                         "per_obs": False, "vec": True, "split": 5}]},
     "ops_by_name": [["update", []], ["update", ["v1_log_prob"]], ["assign", "n0", 5, "node"], ["auto", False],
                     ["assign", "v1_value", 8, "var"], ["update", ["_model_log_prob"]], ["update", []]]},
    # x -> A; B = f(x, A) raises for even results: x := 2 evaluates A, then B raises; the history goes on   (seeded C01-7)
    {"spec": {"items": [{"k": "value", "v": 1, "data": False},
                        {"k": "calc", "ins": [0], "kw": [], "kwn": [], "fs": ["aff", 3, [2]]},
                        {"k": "calc", "ins": [0, 1], "kw": [], "kwn": [], "fs": ["aff", 5, [3, 1]], "raise": [2, 0]},
                        {"k": "calc", "ins": [1, 2], "kw": [], "kwn": [], "fs": ["aff", 1, [1, 1]]}]},
     "ops_by_name": [["assign", "n0", 2, "node"], ["update", []], ["save"], ["update", ["n1"]],
                     ["assign", "n0", 3, "node"], ["restore", 0], ["update", ["n3"]], ["auto", False],
                     ["assign", "n0", 5, "node"], ["update", []]]},
    # caching nodes that are neither Calc nor Dist: harness subclass of lsl.Node, lsl.PIT   (seeded C01-11)
    {"spec": {"items": [{"k": "value", "v": 1, "data": False},
                        {"k": "calc", "ins": [0], "kw": [], "kwn": [], "fs": ["aff", 3, [2]], "cls": "node"},
                        {"k": "calc", "ins": [1], "kw": [], "kwn": [], "fs": ["aff", 5, [3]]},
                        {"k": "var", "weak": False, "role": "par", "v": 4,
                         "dist": {"ins": [2], "kw": [], "kwn": [], "fs": ["aff", 4, [3, 5]], "transient": False,
                                  "pit": {"item": 4, "fs": ["aff", 6, [2]]}}},
                        {"k": "pit", "of": 3, "fs": ["aff", 6, [2]]},
                        {"k": "calc", "ins": [4, 1], "kw": [], "kwn": [], "fs": ["aff", 1, [2, 3]]}]},
     "ops_by_name": [["assign", "n0", 7, "node"], ["auto", False], ["assign", "n0", 9, "node"], ["update", ["n5"]],
                     ["assign", "v3_value", 2, "var"], ["update", ["v4_value"]], ["update", []]]},
    # values assigned between node creation and build, then build -> pop -> assign -> build   (seeded C01-8)
    {"spec": {"items": [{"k": "var", "weak": False, "role": "", "v": 3},
                        {"k": "calc", "ins": [0], "kw": [], "kwn": [], "fs": ["aff", 2, [7]]},
                        {"k": "calc", "ins": [1], "kw": [], "kwn": [], "fs": ["aff", 9, [2]]}],
              "pre": [[0, 8]], "rebuild": [[[0, 11]]]},
     "ops_by_name": [["update", []], ["assign", "v0_value", 4, "var"]]},
]


def corpus_cases():
    out = []
    for c in CORPUS:
        real = Real(c["spec"], None, 0)
        ops = []
        for op in c["ops_by_name"]:
            if op[0] == "assign":
                ops.append(["assign", real.pos[op[1]], op[2], op[3]])
            elif op[0] == "update":
                ops.append(["update", [real.pos[t] for t in op[1]]])
            elif op[0] == "restore_edited":
                ops.append(["restore_edited", op[1], [real.pos[t] for t in op[2]]])
            else:
                ops.append(list(op))
        case = run_history(c["spec"], ops, real.order)
        case["scenario"] = "corpus"
        case["flavour"] = "corpus"
        out.append(case)
    return out


# ---------------------------------------------------------------------------------------------
# run_standard interface
# ---------------------------------------------------------------------------------------------
def generate(ctx):
    import logging
    logging.getLogger("liesel").setLevel(logging.ERROR)
    rnd = random.Random(ctx.seed)
    ncases = 300 if ctx.quick else 3000
    cases = corpus_cases()
    flavours = ["mixed", "transient", "vars", "mixed", "transient", "plain"]
    i = 0
    while len(cases) < ncases:
        scenario = SCENARIOS[i % len(SCENARIOS)]
        flavour = flavours[(i // len(SCENARIOS)) % len(flavours)]
        # forced stratum: every third graph has a transient node on a path between two cached nodes
        # forced strata around the build: assignments between node creation and build (every 4th graph),
        # build -> pop -> assign -> rebuild (every 8th), both (every 16th)
        prebuild = {1: "pre", 5: "pre", 9: "pre", 13: "pre", 3: "rebuild", 11: "rebuild", 7: "both"}.get(i % 16)
        # forced stratum: two of five graphs have cached node functions that raise for some argument values;
        # every fifth history is built around them (raise_continue)
        raising = 0.4 if i % 5 in (2, 4) else 0.0
        if i % 5 == 4:
            scenario = "raise_continue"
        cases.append(make_case(rnd, ctx.quick, scenario, flavour,
                               require="transient_between_cached" if i % 3 == 1 else None, prebuild=prebuild,
                               raising=raising, custom=0.3 if i % 2 == 0 else 0.0))
        i += 1
    nops = 0
    distinct = set()
    for c in cases:
        pg = pg_of(c)
        ctx.hist("scenario." + c["scenario"])
        ctx.hist("flavour." + c["flavour"])
        n = pg.n
        ctx.hist("nodes." + ("<=8" if n <= 8 else "9-13" if n <= 13 else "14-24" if n <= 24 else ">=25"))
        for f in features(pg):
            ctx.hist("graph." + f)
        ncust = sum(1 for it in c["spec"]["items"] if it.get("cls") == "node")
        npit = sum(1 for it in c["spec"]["items"] if it["k"] == "pit")
        if ncust:
            ctx.hist("cached_kind.harness_subclass_of_Node", ncust)
        if npit:
            ctx.hist("cached_kind.lsl_PIT", npit)
        if c["spec"].get("pre"):
            ctx.hist("build.assignments_between_creation_and_build")
        if c["spec"].get("rebuild"):
            ctx.hist("build.pop_assign_rebuild")
        for it in c["spec"]["items"]:
            d = it if it["k"] in ("dist", "tdist") else it.get("dist")
            if d:
                ctx.hist("dist." + ("transient." if (it["k"] == "tdist" or d.get("transient")) else "cached.")
                         + ("per_obs" if d.get("per_obs", True) else "summed") + (".vector" if d.get("vec") else ".scalar"))
        if any(op[0] == "restore_edited" and any(
                pg.kinds[m] == "C" and any(pg.kinds[d] == "C" and not c["steps"][si]["flags"][d] for d in pg.desc[m])
                for m in op[2]) for si, op in enumerate(c["ops"]) if not c["steps"][si]["err"]):
            ctx.hist("edited.dirty_parent_with_clean_cached_descendant")
        for op, st in zip(c["ops"], c["steps"]):
            nops += 1
            key = "op." + op[0] + ("" if op[0] != "update" else (".full" if not op[1] else ".targeted"))
            ctx.hist(key + (".raises" if st["err"] else ""))
            if st["called"]:
                ctx.hist("steps_that_evaluate")
            if st.get("kind") == "fn":
                ctx.hist("op." + op[0] + ".node_function_raises")
                ctx.hist("raising.sweeps_with_nodes_evaluated_before_the_exception" if st["called"] else
                         "raising.sweeps_failing_at_the_first_node")
            if any(st["flags"]):
                ctx.hist("steps_leaving_outdated_nodes")
        distinct.add(json.dumps([c["kinds"], c["ins"], c["ops"]]))
    ctx.count(nops, len(distinct))
    ctx.cov["rule"] = ("one evaluation = one operation applied to the real model with all node values/flags/calls compared; "
                       "distinct = distinct (graph shape, history) pairs; forced scenario strata in round robin")
    for c in cases[:1] + cases[len(CORPUS):len(CORPUS) + 2]:
        ctx.sample({"kinds": "".join(c["kinds"]), "ins": c["ins"], "ops": c["ops"][:8]})
    ctx.tested_not_proved += [
        "the real model's own topological order (Model._sorted_nodes, networkx) is not observed; the harness picks a random "
        "topological order of the public node graph, the theorems hold for every such order",
        "aliasing (the dict returned by model.state is not modified by later operations) is exercised, not proved",
        "InputGroup values (ArgGroup) are compared through an injective-by-construction integer encoding made by the harness",
    ]
    ctx.assume += [
        "wf g: the list of nodes is in a topological order of the node graph and Value nodes have no inputs (checked per case by wfb)",
        "node functions are deterministic functions of their argument values (interp is an arbitrary function in the theorems)",
        "operations are the public ones: value assignment, auto_update toggle, update(*names), state save/restore of states "
        "obtained from the same model, and the state setter on such a state in which nodes were additionally marked outdated "
        "(values untouched); direct Node.update()/flag_outdated() calls, clean flags on stale values and other hand-built "
        "NodeState dicts are outside",
    ]
    # shrink the first failing histories so that the replay is small
    nshr = 0
    for c in cases:
        if nshr >= 3:
            break
        r = oracle(c)
        if r and not c.get("anomaly"):
            try:
                c["shrunk"] = shrink(c)
            except Exception as ex:   # best effort
                common.log("shrink failed:", repr(ex))
            nshr += 1
    return cases


def oracle(c):
    if c.get("anomaly"):
        return c["anomaly"]
    pg = pg_of(c)
    for k in range(pg.n):       # the positions must be a topological order of what the code shows
        if any(i >= k for i in c["ins"][k]):
            return "harness: order is not topological"
        outs = sorted({j for j in range(pg.n) if k in c["ins"][j]})
        if outs != c["outs"][k]:
            return (f"Node.outputs of {c['order'][k]} are {[c['order'][j] for j in c['outs'][k]]}, the nodes that have it "
                    f"as an input are {[c['order'][j] for j in outs]}")
    r = check_history(pg, (c["init"]["vals"], c["init"]["flags"]), c["steps"], c["ops"])
    if r:
        return f"{r[1]}  [nodes: {dict(enumerate(c['order']))}]"
    return None


def shrink(c):
    """drop operations while the oracle still fails on the real code"""
    ops = list(c["ops"])
    r = check_history(pg_of(c), (c["init"]["vals"], c["init"]["flags"]), c["steps"], c["ops"])
    if r and r[0] >= 0:
        ops = ops[:r[0] + 1]

    def fails(ops):
        # snapshot indices must stay valid
        ns = 0
        for op in ops:
            if op[0] == "save":
                ns += 1
            if op[0] in ("restore", "restore_edited") and op[1] >= ns:
                return None
        cc = run_history(c["spec"], ops, c["order"])
        return oracle(cc)

    why = fails(ops)
    if not why:
        return None
    i = 0
    while i < len(ops):
        cand = ops[:i] + ops[i + 1:]
        # removing a save shifts later restores
        if ops[i][0] == "save":
            idx = sum(1 for o in ops[:i] if o[0] == "save")
            RS = ("restore", "restore_edited")
            cand = [([o[0], o[1] - 1] + list(o[2:]) if o[0] in RS and o[1] > idx else o) for o in cand
                    if not (o[0] in RS and o[1] == idx)]
        w = fails(cand) if cand else None
        if w:
            ops, why = cand, w
        else:
            i += 1
    def byname(o):
        nm = lambda t: c["order"][t] if t < len(c["order"]) else "?"
        if o[0] == "assign":
            return [o[0], nm(o[1])] + list(o[2:])
        if o[0] == "update":
            return [o[0], [nm(t) for t in o[1]]]
        if o[0] == "restore_edited":
            return [o[0], o[1], [nm(t) for t in o[2]]]
        return list(o)
    return {"spec": c["spec"], "order": c["order"], "ops": ops, "why": why, "ops_by_name": [byname(o) for o in ops]}


def node_lit(kind, ins, fs):
    kd = {"V": "KValue", "C": "KCached", "T": "KTrans"}[kind]
    if fs[0] == "aff":
        f = f"(FAff {zlit(fs[1])} {lst(zlit(x) for x in fs[2])})"
    else:
        f = {"id": "FId", "sum": "FSum"}[fs[0]]
    return f"(mkNode {kd} {lst(natlit(i) for i in ins)} {f})"


def node_lit_f(kind, ins, fs, rz):
    """node of a graph over CorrC01F.ffsym"""
    if fs[0] == "aff":
        f = f"(FAff {zlit(fs[1])} {lst(zlit(x) for x in fs[2])})"
    else:
        f = {"id": "FId", "sum": "FSum"}[fs[0]]
    kd = {"V": "KValue", "C": "KCached", "T": "KTrans"}[kind]
    ff = f"(FRaise {f} {zlit(rz[0])} {zlit(rz[1])})" if rz else f"(FPlain {f})"
    return f"(mkNode {kd} {lst(natlit(i) for i in ins)} {ff})"


def op_lit(op):
    if op[0] == "assign":
        return f"(Assign {natlit(op[1])} {zlit(op[2])})"
    if op[0] == "auto":
        return f"(SetAuto {blit(op[1])})"
    if op[0] == "update":
        return f"(Update {lst(natlit(t) for t in op[1])})"
    if op[0] == "save":
        return "Save"
    return f"(Restore {natlit(op[1])})"


def xop_lit(op):
    if op[0] == "restore_edited":
        return f"(XRestoreEdited {natlit(op[1])} {lst(natlit(t) for t in op[2])})"
    return f"(XBase {op_lit(op)})"


def obs_lit(vals, flags, called, err):
    return (f"(mkObs {lst(zlit(v) for v in vals)} {lst(blit(b) for b in flags)} "
            f"{lst(natlit(k) for k in sorted(called))} {blit(err)})")


def case_lit(c):
    rz = c.get("rz") or [None] * len(c["kinds"])
    g = lst(node_lit_f(k, i, f, r) for k, i, f, r in zip(c["kinds"], c["ins"], c["fs"], rz))
    steps = lst(f"({xop_lit(op)}, {obs_lit(st['vals'], st['flags'], st['called'], st['err'])})"
                for op, st in zip(c["ops"], c["steps"]))
    outs = lst(lst(natlit(j) for j in o) for o in c["outs"])
    return (f"(mkFCase {g}\n   {lst(zlit(v) for v in c['ext0'])}\n   {outs}\n   {lst(blit(b) for b in c['counted'])}\n   "
            f"{obs_lit(c['init']['vals'], c['init']['flags'], [], False)}\n   {steps})")


def emit(ctx, cases):
    shards = []
    per = 100
    good = [i for i, c in enumerate(cases) if not c.get("anomaly")]
    for k in range(0, len(good), per):
        idxs = good[k:k + per]
        defs = []
        for j, i in enumerate(idxs):
            defs.append(f"Definition c{j} : c01fcase :=\n  {case_lit(cases[i])}.")
        small = [j for j, i in enumerate(idxs) if len(cases[i]["kinds"]) <= LIT_MAX_NODES]
        txt = HEADER + "\n".join(defs) + f"""
Definition cases : list c01fcase := {lst(f'c{j}' for j in range(len(idxs)))}.
Definition small_cases : list c01fcase := {lst(f'c{j}' for j in small)}.
Lemma shard_ok : forallb agrees_f cases = true.
Proof. vm_compute. reflexivity. Qed.
Lemma shard_lit_ok : forallb agrees_lit_f small_cases = true.
Proof. vm_compute. reflexivity. Qed.
"""
        shards.append((ctx.new_shard(txt), idxs))
    return shards


def diagnose(ctx, path, idxs, cases):
    txt = open(path).read().split("Lemma shard_ok")[0]
    txt += "Eval vm_compute in (map verdict_f cases).\n"
    ok, out = ctx.coq_eval(txt)
    vs = common.parse_nat_list(out)
    bad = []
    for j, v in enumerate(vs):
        if v != 0 and j < len(idxs):
            cases[idxs[j]]["model_verdict"] = v
            what = {1: "graph not well-formed", 2: "Node.outputs differ from the inverse of the inputs",
                    3: "state after build differs"}.get(v, f"step {v - 4} differs from the model")
            cases[idxs[j]]["model_disagreement"] = what
            bad.append(idxs[j])
    if not bad:
        # shard_ok holds, the literal-reader cross-check failed
        txt = open(path).read().split("Lemma shard_ok")[0]
        txt += "Eval vm_compute in (failing agrees_lit_f small_cases).\n"
        ok, out = ctx.coq_eval(txt.replace("From LV Require Import", "From LV Require Import Base.ListAux"))
        common.log("agrees_lit failing (indices into small_cases):", common.parse_nat_list(out))
    return bad


def klass(c):
    return None


def search(ctx, disagreeing):
    """the model and the code disagree but the sampled histories do not violate the property: replay the
    disagreeing graphs with many more histories, then a widened random search"""
    rnd = random.Random(ctx.seed + 1)
    found = []
    t_end = 100 if ctx.quick else 400
    import time
    t0 = time.time()
    for c in disagreeing:
        real = Real(c["spec"], c["order"])
        pg = PG(real.kinds, real.ins, real.fs, real.rz)
        for _ in range(40):
            ops = gen_ops(rnd, pg, rnd.randint(3, 25), rnd.choice(SCENARIOS), edited=True)
            cc = run_history(c["spec"], ops, c["order"])
            r = oracle(cc)
            if r:
                s = shrink(cc) or {"spec": cc["spec"], "order": cc["order"], "ops": cc["ops"], "why": r}
                found.append(s)
                break
        if found or time.time() - t0 > t_end:
            break
    k = 0
    while not found and time.time() - t0 < t_end:
        cc = make_case(rnd, True, SCENARIOS[k % len(SCENARIOS)], rnd.choice(["mixed", "transient", "vars"]))
        k += 1
        r = oracle(cc)
        if r:
            found.append((None if cc.get("anomaly") else shrink(cc))
                         or {"spec": cc["spec"], "order": cc["order"], "ops": cc["ops"], "why": r})
    return found


def replay(rp) -> int:
    import logging
    logging.getLogger("liesel").setLevel(logging.ERROR)
    body = rp["replay"]
    c = body.get("case", body)
    if isinstance(c, dict) and c.get("shrunk"):
        c = c["shrunk"]
    if not isinstance(c, dict) or "spec" not in c:
        ds = body.get("disagreeing_cases") or []
        if not ds:
            print("replay file names no concrete input (broken lemma only):", body.get("broken"))
            return 0
        c = ds[0]
    try:
        cc = run_history(c["spec"], c["ops"], c["order"])
    except Exception as ex:
        print("REPLAY FAILS: building / driving the model raises", repr(ex))
        return 1
    print("nodes (position: name kind inputs):")
    for k, nme in enumerate(cc["order"]):
        print(f"  {k}: {nme} {cc['kinds'][k]} {cc['ins'][k]}")
    print("after build:", cc["init"])
    for op, st in zip(cc["ops"], cc["steps"]):
        print(" ", op, "->", st)
    r = oracle(cc)
    if r:
        print("REPLAY FAILS:", r)
        return 1
    if "steps" in c and (c["steps"] != cc["steps"] or c["init"] != cc["init"]):
        print("replay passes the property oracle; observations differ from the recorded ones")
        return 0
    print("replay passes on the current tree")
    return 0
