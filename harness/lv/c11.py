"""C11 - step-size adaptation follows dual averaging, frozen outside adaptation.

Three streams of cases, all observed through public API only:

* ``direct``  - the real ``da_init`` / ``da_step`` / ``da_finalize`` (liesel/goose/da.py) called under
  x64 on the kernels' own state classes, for generated constants, initial step sizes and acceptance
  sequences (the object still carries the tuning state of an "earlier epoch" when ``da_init`` is
  called).  Every intermediate state is compared with the Coq model: one R-lemma per call
  (``init_ok`` / ``step_ok`` / ``fin_ok``: the model applied to the *observed* previous state) and one
  from-scratch lemma per sequence (``scratch_ok``: ``da_epoch`` applied to the inputs only).
* ``single``  - one ``da_step`` on an arbitrary state at an arbitrary ``time_in_epoch`` (also late
  ones), together with a twin call with a higher acceptance probability (monotonicity).
* ``engine``  - RW, MH (tuning on / off), IWLS, HMC, NUTS driven by the real Engine
  (``store_kernel_states=True``) through schedules with fast / slow / burn-in / posterior epochs.
  For every stored transition Coq evaluates the model's ``transition`` on the previous stored state
  (``trans_agrees``: the MODEL decides between "dual-averaging update, float32 tolerance" and "state
  bit-identical"); for the first transition of every epoch the model's end_epoch / tune /
  start_epoch are applied to the last state of the previous epoch (``first_agrees``).

The direct oracle reads the property literally: Stan's / Hoffman & Gelman's recurrence (running
mean Hbar, x = mu - sqrt(m)/gamma * Hbar, xbar) recomputed from the acceptance probabilities alone,
restarted per epoch from the current step size; bit-identity of consecutive kernel states outside
adaptation; monotonicity of the step size in the acceptance probability.
"""
from __future__ import annotations

import math
import random
import re
import struct
import sys
from fractions import Fraction

from . import common, c11_tie
from .common import lst, natlit, rlit, zlit

HEADER = """From Coq Require Import Reals List Bool Arith ZArith.
From Interval Require Import Tactic.
From LV Require Import Goose.DA Goose.CorrC11.
Import ListNotations.
Open Scope R_scope.
"""

TOL64 = Fraction(1, 2 ** 34)     # ~5.8e-11  (x64 direct calls; measured error below 1e-14)
TOL32 = Fraction(1, 2 ** 15)     # ~3.1e-5   (float32 engine runs; measured error below 5e-7)
ETY = ["Initial", "Fast", "Slow", "Burnin", "Post"]
KERNELS = {"RW": "RW", "MH1": "(MH true)", "MH0": "(MH false)", "IWLS": "IWLS", "HMC": "HMC", "NUTS": "NUTS"}
STATE_CLASSES = ["RW", "IWLS", "HMC", "NUTS"]

_lib: dict = {}


def lib():
    if _lib:
        return _lib
    import logging
    import jax
    import jax.numpy as jnp
    import numpy as np
    import liesel.goose as gs
    from liesel.goose import da
    from liesel.goose.epoch import EpochConfig, EpochType
    from liesel.goose.rw import RWKernelState
    from liesel.goose.iwls import IWLSKernelState
    from liesel.goose.hmc import HMCKernelState
    from liesel.goose.nuts import NUTSKernelState
    from liesel.goose.mh_kernel import MHProposal
    from jax.experimental import enable_x64
    logging.getLogger("liesel").setLevel(logging.ERROR)
    _lib.update(jax=jax, jnp=jnp, np=np, gs=gs, da=da, EpochConfig=EpochConfig, EpochType=EpochType,
                RWKernelState=RWKernelState, IWLSKernelState=IWLSKernelState, HMCKernelState=HMCKernelState,
                NUTSKernelState=NUTSKernelState, MHProposal=MHProposal, enable_x64=enable_x64)
    return _lib


# ------------------------------------------------------------------------------------------------
# helpers
# ------------------------------------------------------------------------------------------------
def fin(x) -> float:
    return float(x)


def nonfinite(c):
    """first non-finite number among the observations of a case (None if all are finite)"""
    rows = []
    if c["kind"] == "direct":
        rows = [(f"state after call #{i}", o) for i, o in enumerate(c["obs"])]
    elif c["kind"] == "single":
        rows = [("state after da_step", c["obs"]), ("state after da_step (twin)", c["obs2"])]
    else:
        rows = [(f"stored kernel state #{i}", o) for i, o in enumerate(c["states"])] + [("acceptance probabilities", c["accs"])]
        if c["imm"] is not None:
            rows += [(f"inverse mass matrix #{i}", o) for i, o in enumerate(c["imm"])]
    for what, o in rows:
        for j, v in enumerate(o):
            if c["kind"] == "single" and j == 0 and v == math.inf:
                continue        # float overflow of exp: judged against the predicted overflow by the oracle
            if math.isnan(v) or math.isinf(v):
                return f"{what} is not finite: {o}"
    for what, o in rows:
        if what.startswith("state") or what.startswith("stored"):
            if not o[0] > 0:
                return f"{what} has a non-positive step size: {o}"
    return None


def f32bits(x) -> int:
    return struct.unpack("<I", struct.pack("<f", float(x)))[0]


def new_state(cls: str, s0: float):
    L = lib()
    jnp = L["jnp"]
    if cls == "RW":
        return L["RWKernelState"](step_size=s0)
    if cls == "IWLS":
        return L["IWLSKernelState"](s0)
    if cls == "HMC":
        return L["HMCKernelState"](s0, jnp.ones(2))
    return L["NUTSKernelState"](s0, jnp.ones(2))


def read4(ks):
    return [fin(ks.step_size), fin(ks.error_sum), fin(ks.log_avg_step_size), fin(ks.mu)]


def tols(o, tol):
    """tolerances (exact dyadic Fractions) for the four fields of the observed state o"""
    return [Fraction(tol) * Fraction(step_scale(o[0]))] + [tol * (1 + abs(Fraction(v))) for v in o[1:]]


def step_scale(v):
    """the step size is exp(x): a relative tolerance, scaled by the size of x (rounding of x is absolute)"""
    v = abs(v)
    if math.isinf(v):
        return Fraction(0)
    return Fraction(v) * (1 + math.ceil(abs(math.log(v)))) if v > 0 else Fraction(0)


def dalit(o):
    return "(mkDA " + " ".join(rlit(v) for v in o) + ")"


def dclit(c):
    return "(mkDC " + " ".join(rlit(v) for v in c) + ")"


def kslit(o, bits):
    return "(mk " + " ".join(rlit(v) for v in o) + " " + lst(zlit(b) + "%Z" for b in bits) + ")"


# ------------------------------------------------------------------------------------------------
# the recurrences in float64 (oracle side)
# ------------------------------------------------------------------------------------------------
def py_step(c, p, a, tie):
    """one update, formula of the property text (x = mu - sqrt t / (gamma (t + t0)) * sum of errors)"""
    delta, gamma, kappa, t0 = c
    t = tie + 1
    es = p[1] + (delta - a)
    x = p[3] - math.sqrt(t) / (gamma * (t + t0)) * es
    eta = t ** (-kappa)
    return [safe_exp(x), es, (1 - eta) * p[2] + eta * x, p[3]]


def safe_exp(x):
    """exp in float64 with IEEE overflow to +inf (math.exp raises instead)"""
    try:
        return math.exp(x)
    except OverflowError:
        return math.inf


class Stan:
    """Hoffman & Gelman (2014) Alg. 5 / Stan's stepsize_adaptation, restarted from step size s"""

    def __init__(self, c, s):
        self.c, self.m = c, 0
        self.mu = math.log(10 * s)
        self.hbar, self.xbar, self.x, self.s = 0.0, 0.0, math.log(s), s

    def learn(self, a):
        delta, gamma, kappa, t0 = self.c
        self.m += 1
        m = self.m
        w = 1.0 / (m + t0)
        self.hbar = (1 - w) * self.hbar + w * (delta - a)
        self.x = self.mu - math.sqrt(m) / gamma * self.hbar
        eta = m ** (-kappa)
        self.xbar = (1 - eta) * self.xbar + eta * self.x
        return [math.exp(self.x), (m + t0) * self.hbar, self.xbar, self.mu]

    def complete(self):
        # no adaptive step in the epoch: the step size stays
        return math.exp(self.xbar) if self.m else self.s


def cmp4(got, want, tol, what):
    """None or a message; step relative, the other fields absolute * (1+|v|)"""
    names = ["step_size", "error_sum", "log_avg_step_size", "mu"]
    for i, (g, w) in enumerate(zip(got, want)):
        if g == w:
            continue
        if math.isinf(w) or math.isinf(g):
            return f"{what}: {names[i]} = {g!r} but dual averaging gives {w!r}"
        lim = tol * float(step_scale(w)) if i == 0 else tol * (1 + abs(w))
        if not abs(g - w) <= lim:
            return f"{what}: {names[i]} = {g!r} but dual averaging gives {w!r} (|diff| {abs(g - w):.3e} > {lim:.3e})"
    return None


# ------------------------------------------------------------------------------------------------
# stream 1+2: direct calls
# ------------------------------------------------------------------------------------------------
def run_direct(case):
    """drive the real da.py; fills case['obs'] = [after init, after each step..., after finalize]"""
    L = lib()
    jnp, da = L["jnp"], L["da"]
    c = case["consts"]
    t0 = int(c[3]) if float(c[3]).is_integer() and case.get("t0_int", True) else c[3]
    with L["enable_x64"]():
        ks = new_state(case["cls"], case["s0"])
        g = case["garbage"]
        if g is not None:
            ks.error_sum, ks.log_avg_step_size, ks.mu = jnp.float64(g[0]), jnp.float64(g[1]), jnp.float64(g[2])
        da.da_init(ks)
        obs = [read4(ks)]
        for i, a in enumerate(case["accs"]):
            tie = jnp.int64(i) if case["tie_array"] else i
            da.da_step(ks, jnp.float64(a), tie, c[0], c[1], c[2], t0)
            obs.append(read4(ks))
        da.da_finalize(ks)
        obs.append(read4(ks))
    case["obs"] = obs
    return case


def run_single(case):
    L = lib()
    jnp, da = L["jnp"], L["da"]
    c = case["consts"]
    t0 = int(c[3]) if float(c[3]).is_integer() else c[3]
    out = []
    with L["enable_x64"]():
        for a in (case["a"], case["a2"]):
            ks = new_state(case["cls"], 1.0)
            p = case["prev"]
            ks.step_size, ks.error_sum, ks.log_avg_step_size, ks.mu = (jnp.float64(p[0]), jnp.float64(p[1]),
                                                                       jnp.float64(p[2]), jnp.float64(p[3]))
            tie = jnp.int64(case["tie"]) if case["tie_array"] else case["tie"]
            da.da_step(ks, jnp.float64(a), tie, c[0], c[1], c[2], t0)
            out.append(read4(ks))
    case["obs"], case["obs2"] = out
    return case


def jit_vs_eager(cases):
    """the same sequences through one jitted lax.scan (time_in_epoch traced, as in the engine)"""
    L = lib()
    jax, jnp, np, da = L["jax"], L["jnp"], L["np"], L["da"]
    N = 12
    ndiff = nrun = 0
    with L["enable_x64"]():
        def whole(s0, accs, c):
            ks = L["RWKernelState"](step_size=s0)

            def f(carry, xs):
                k = L["RWKernelState"](step_size=carry[0])
                k.error_sum, k.log_avg_step_size, k.mu = carry[1], carry[2], carry[3]
                a, i = xs
                da.da_step(k, a, i, c[0], c[1], c[2], c[3])
                st = jnp.stack([k.step_size, k.error_sum, k.log_avg_step_size, k.mu])
                return st, st
            init = jnp.stack([jnp.asarray(ks.step_size, dtype=jnp.float64), jnp.asarray(ks.error_sum, dtype=jnp.float64),
                              ks.log_avg_step_size, ks.mu])
            _, out = jax.lax.scan(f, init, (accs, jnp.arange(N, dtype=jnp.int64)))
            return out
        jw = jax.jit(whole)
        for case in cases:
            if case["kind"] != "direct" or not case["accs"]:
                continue
            accs = list(case["accs"]) + [0.5] * (N - len(case["accs"]))
            out = np.asarray(jw(jnp.float64(case["s0"]), jnp.asarray(accs, dtype=jnp.float64),
                                jnp.asarray(case["consts"], dtype=jnp.float64)))
            nrun += 1
            for i in range(len(case["accs"])):
                if cmp4([float(v) for v in out[i]], case["obs"][i + 1], 1e-12, "jit"):
                    ndiff += 1
                    case["jit_differs"] = True
                    break
    return nrun, ndiff


# ------------------------------------------------------------------------------------------------
# stream 3: kernels through the engine
# ------------------------------------------------------------------------------------------------
KINDS = ["RW", "MH1", "MH0", "IWLS", "HMC", "NUTS"]
DA_ATTRS = ["da_target_accept", "da_gamma", "da_kappa", "da_t0"]
DA_CANDS = [[15 / 64, 51 / 64, 0.25, 0.5, 0.625, 0.75], [1 / 16, 1 / 32, 0.125, 0.25, 3 / 64],
            [0.75, 0.5, 0.625, 0.875, 1.0], [10.0, 1.0, 3.0, 5.0, 20.0]]


def with_reassignment(rnd, ksp, which):
    """ksp['consts'] stay the values the kernel has when the engine is built; the constructor gets different
    values for the attributes in [which], which are then reassigned"""
    ctor = list(ksp["consts"])
    for j in which:
        ctor[j] = rnd.choice([v for v in DA_CANDS[j] if v != ksp["consts"][j]])
    ksp["ctor_consts"], ksp["reassigned"] = ctor, list(which)
    return ksp


def make_kernel(kind, consts, s0, key):
    L = lib()
    jax, jnp, gs = L["jax"], L["jnp"], L["gs"]
    c = consts
    kw = dict(da_target_accept=c[0], da_gamma=c[1], da_kappa=c[2], da_t0=int(c[3]) if float(c[3]).is_integer() else c[3])
    keys = [key]
    k = kind
    if k == "RW":
        return gs.RWKernel(keys, initial_step_size=s0, **kw)
    if k in ("MH1", "MH0"):
        def proposal(prng_key, model_state, step_size):
            x = model_state[key]
            pos = {key: x + step_size * jax.random.normal(prng_key, x.shape)}
            return L["MHProposal"](pos, jnp.float32(0.0))
        return gs.MHKernel(keys, proposal, initial_step_size=s0, da_tune_step_size=(k == "MH1"), **kw)
    if k == "IWLS":
        return gs.IWLSKernel(keys, initial_step_size=s0, **kw)
    if k == "HMC":
        return gs.HMCKernel(keys, num_integration_steps=3, initial_step_size=s0, **kw)
    if k == "NUTS":
        return gs.NUTSKernel(keys, max_treedepth=4, initial_step_size=s0, **kw)
    raise ValueError(k)


def make_scripted(kind, consts, s0, key, table):
    """A liesel kernel (RWKernel / MHKernel with tuning / IWLSKernel) whose _standard_transition is replaced by
    one that reports a PRESCRIBED acceptance probability table[time_in_epoch] and leaves the model state alone.
    Everything the property is about stays liesel's own code: TransitionMixin.transition, _adaptive_transition
    (da_step), start_epoch (da_init), end_epoch (da_finalize), tune.  Used to force acceptance sequences whose
    deviations from the target cancel exactly (error_sum returns to 0.0 at the end of an adaptation epoch)."""
    L = lib()
    jnp, gs = L["jnp"], L["gs"]
    from liesel.goose.kernel import DefaultTransitionInfo, TransitionOutcome
    c = consts
    kw = dict(da_target_accept=c[0], da_gamma=c[1], da_kappa=c[2], da_t0=int(c[3]) if float(c[3]).is_integer() else c[3])
    base = {"RW": gs.RWKernel, "MH1": gs.MHKernel, "IWLS": gs.IWLSKernel}[kind]
    tab = [float(a) for a in table]

    class Scripted(base):
        def _standard_transition(self, prng_key, kernel_state, model_state, epoch):
            a = jnp.asarray(tab, dtype=jnp.float32)[epoch.time_in_epoch % len(tab)]
            info = DefaultTransitionInfo(error_code=jnp.int32(0), acceptance_prob=a, position_moved=jnp.int32(0))
            return TransitionOutcome(info, kernel_state, model_state)

    if kind == "MH1":
        return Scripted([key], lambda k, ms, st: None, initial_step_size=s0, da_tune_step_size=True, **kw)
    return Scripted([key], initial_step_size=s0, **kw)


def run_engine(spec):
    """One real Engine whose kernel sequence holds one kernel of every kind in spec['kernels'] (each
    on its own 3-dimensional block of a Gaussian model, each with its own constants and initial step
    size).  -> one case per (kernel, chain) with the stored kernel states and acceptance probabilities."""
    L = lib()
    jnp, np, gs = L["jnp"], L["np"], L["gs"]
    kernels = spec["kernels"]
    scale = jnp.array([0.5, 1.5, 1.0], dtype=jnp.float32)

    def logp(st):
        # Gaussian blocks; for the mh_step based kernels the log-probability is NaN where p[0] <= -1.5, so that
        # adaptation also sees transitions with error code 90 (reported acceptance probability 0)
        out = 0.0
        for i, ksp in enumerate(kernels):
            p = st[f"p{i}"]
            out = out - 0.5 * jnp.sum(((p - 0.25 * i) / scale) ** 2)
            if ksp["kernel"] in ("RW", "MH1", "MH0", "IWLS"):
                out = out + 0.0 * jnp.log(p[0] + 1.5)
        return out

    b = gs.EngineBuilder(seed=spec["seed"], num_chains=spec["nchains"])
    b.show_progress = False
    b.store_kernel_states = True
    b.set_model(gs.DictInterface(logp))
    for i, ksp in enumerate(kernels):
        ctor = ksp.get("ctor_consts") or ksp["consts"]
        if ksp.get("table"):
            kern = make_scripted(ksp["kernel"], ctor, ksp["s0"], f"p{i}", ksp["table"])
        else:
            kern = make_kernel(ksp["kernel"], ctor, ksp["s0"], f"p{i}")
        # the dual-averaging attributes are reassigned on the constructed kernel, before the engine is built:
        # adaptation has to follow the kernel's CURRENT da_target_accept / da_gamma / da_kappa / da_t0
        for j in ksp.get("reassigned", []):
            v = ksp["consts"][j]
            setattr(kern, DA_ATTRS[j], int(v) if j == 3 and float(v).is_integer() else v)
        b.add_kernel(kern)
    b.set_initial_values({f"p{i}": jnp.array([0.5, -0.25, 0.125 * i], dtype=jnp.float32) for i in range(len(kernels))})
    cfgs = [L["EpochConfig"](L["EpochType"](0), 1, 1, None)]
    cfgs += [L["EpochConfig"](L["EpochType"](int(t)), int(d), 1, None) for (t, d) in spec["sched"]]
    b.set_epochs(cfgs)
    eng = b.build()
    eng.sample_all_epochs()
    res = eng.get_results()
    ksts = res.kernel_states.unwrap().combine_all().unwrap()
    ksts = list(ksts) if isinstance(ksts, (list, tuple)) else [ksts[k] for k in sorted(ksts)]
    tis = res.transition_infos.combine_all().unwrap()
    tis = [tis[k] for k in sorted(tis)] if isinstance(tis, dict) else list(tis)
    assert len(ksts) == len(kernels) == len(tis), (len(ksts), len(tis))
    T = sum(d for _, d in spec["sched"])
    out = []
    for ki, (ksp, kst, ti) in enumerate(zip(kernels, ksts, tis)):
        acc = np.asarray(ti.acceptance_prob)
        err = np.asarray(ti.error_code)
        f4 = [np.asarray(kst.step_size), np.asarray(kst.error_sum), np.asarray(kst.log_avg_step_size), np.asarray(kst.mu)]
        imm = np.asarray(kst.inverse_mass_matrix) if hasattr(kst, "inverse_mass_matrix") else None
        for ch in range(spec["nchains"]):
            assert f4[0].shape[1] == T + 1 and acc.shape[1] == T, (f4[0].shape, acc.shape, T)
            states = [[fin(f[ch, i]) for f in f4] for i in range(T + 1)]
            dtypes = sorted({str(f.dtype) for f in f4})
            case = {"kind": "engine", "spec": spec, "kidx": ki, "kernel": ksp["kernel"], "consts": ksp["consts"],
                    "s0": ksp["s0"], "sched": spec["sched"], "chain": ch, "states": states, "scripted": bool(ksp.get("table")),
                    "ctor_consts": ksp.get("ctor_consts"), "reassigned": ksp.get("reassigned", []),
                    "accs": [fin(a) for a in acc[ch]], "errs": [int(e) for e in err[ch]], "dtypes": dtypes,
                    "imm": [[float(v) for v in imm[ch, i].ravel()] for i in range(T + 1)] if imm is not None else None}
            out.append(case)
    return out


def epochs_of(case):
    """[(ety, [indices of the stored states of this epoch])]"""
    out, i = [], 1
    for (t, d) in case["sched"]:
        out.append((int(t), list(range(i, i + int(d)))))
        i += int(d)
    return out


def adj_of(case, i_last, i_next):
    """step-size adjustment of HMC/NUTS._tune_slow as observable from the stored inverse mass matrices"""
    old, new = case["imm"][i_last], case["imm"][i_next]
    return math.sqrt(sum(old) / sum(new))


def has_mm(case):
    return case["kernel"] in ("HMC", "NUTS")


def tunes(case):
    return case["kernel"] != "MH0"


# ------------------------------------------------------------------------------------------------
# generators
# ------------------------------------------------------------------------------------------------
DELTAS = [0.234, 0.8, 0.25, 0.5, 0.65, 15 / 64, 51 / 64, 0.95, 0.05]
GAMMAS = [0.05, 1 / 16, 1 / 32, 0.125, 0.25, 1.0, 3 / 64]
KAPPAS = [0.75, 0.5, 0.625, 0.875, 1.0, 0.0, 0.55]
T0S = [10, 10, 1, 0, 3, 25, 2.5]


def gen_consts(rnd, dyadic=False, default=None):
    if default is not None:
        return list(default)
    if dyadic:
        return [rnd.choice([15 / 64, 51 / 64, 0.25, 0.5, 0.625, 0.75]), rnd.choice([1 / 16, 1 / 32, 0.125, 0.25, 3 / 64]),
                rnd.choice([0.75, 0.5, 0.625, 0.875, 1.0]), float(rnd.choice([10, 1, 3, 5, 20]))]
    return [rnd.choice(DELTAS), rnd.choice(GAMMAS), rnd.choice(KAPPAS), float(rnd.choice(T0S))]


def gen_acc(rnd, mode):
    if mode == "zeros":
        return 0.0
    if mode == "ones":
        return 1.0
    if mode == "extreme":
        return rnd.choice([0.0, 1.0, 1.0000001192092896, 1.8174469e-12, 0.5])
    return rnd.randint(0, 1024) / 1024


def gen_direct(rnd, n, mode, default=None, idx=0):
    return {"kind": "direct", "cls": STATE_CLASSES[idx % 4], "consts": gen_consts(rnd, default=default),
            "s0": rnd.choice([1.0, 0.5, 0.25, 0.01, 0.001, 2.0, 16.0, 1 / 1024, 0.3, 37.5]),
            "accs": [gen_acc(rnd, mode) for _ in range(n)], "mode": mode,
            "garbage": None if idx % 3 == 0 else [rnd.randint(-64, 64) / 8, rnd.randint(-64, 64) / 8, rnd.randint(-64, 64) / 8],
            "tie_array": idx % 2 == 0}


def gen_single(rnd, tie, idx=0, equal=False):
    a = rnd.randint(0, 1000) / 1024
    a2 = a if equal else min(1.0, a + rnd.choice([2 ** -10, 1 / 64, 0.25, 1.0]))
    return {"kind": "single", "cls": STATE_CLASSES[idx % 4], "consts": gen_consts(rnd),
            "prev": [rnd.choice([1.0, 0.125, 3.5, 0.001]), rnd.randint(-256, 256) / 32, rnd.randint(-128, 128) / 16,
                     rnd.randint(-96, 96) / 16],
            "a": a, "a2": a2, "tie": tie, "tie_array": idx % 2 == 1}


# (target, acceptance sequence): the deviations target - a cancel exactly (in float32 and float64), so the
# error sum is exactly 0.0 again after a non-trivial sequence while the averaged log step size has moved
CANCEL = [
    (0.5, [1.0, 0.0]), (0.5, [1.0, 0.5, 0.0]), (0.25, [1.0, 0.0, 0.0, 0.0]), (0.75, [0.0, 1.0, 1.0, 1.0]),
    (0.5, [1.0, 1.0, 0.0, 0.0, 1.0, 0.0]), (0.75, [0.0, 1.0, 1.0, 1.0, 1.0, 0.5, 0.5, 1.0]),
    (0.5, [0.75, 0.25]), (0.25, [0.5, 0.0]), (0.75, [1.0, 0.5]), (0.25, [0.75, 0.0, 0.0]), (0.75, [0.25, 1.0, 1.0]),
    (0.5, [0.0, 1.0, 1.0, 0.0]), (0.5, [1.0, 0.0] * 4), (0.25, [1.0, 0.0, 0.0, 0.0] * 2), (0.25, [0.0, 0.5, 0.0, 0.5, 0.25]),
    (0.5, [0.0, 0.0, 0.0, 1.0, 1.0, 1.0, 0.25, 0.75]),
]


def gen_cancel(rnd, k, idx):
    delta, accs = CANCEL[k]
    c = [delta] + gen_consts(rnd)[1:]
    return {"kind": "direct", "cls": STATE_CLASSES[idx % 4], "consts": c,
            "s0": rnd.choice([1.0, 0.5, 0.25, 0.01, 2.0, 0.3]), "accs": list(accs), "mode": "cancelling",
            "garbage": None if idx % 2 else [1.5, -2.0, 0.25], "tie_array": idx % 2 == 0}


def scripted_spec(rnd, quick, variant):
    """engine whose kernels report prescribed acceptance probabilities: at the end of every adaptation epoch
    (durations 2, 4, 8; for targets 0.25 / 0.75 durations 4 and 8) the error sum is exactly 0.0 again"""
    tabs = {0.5: [1.0, 0.0, 0.0, 1.0, 1.0, 0.0, 1.0, 0.0], 0.25: [1.0, 0.0, 0.0, 0.0, 0.0, 0.0, 1.0, 0.0],
            0.75: [0.0, 1.0, 1.0, 1.0, 1.0, 1.0, 0.0, 1.0]}
    plan = [("MH1", 0.5), ("RW", 0.25), ("IWLS", 0.75)] if variant == 0 else [("RW", 0.5), ("IWLS", 0.5), ("MH1", 0.75), ("MH1", 0.25)]
    ks = [{"kernel": k, "consts": [d] + gen_consts(rnd, dyadic=True)[1:], "s0": rnd.choice([0.25, 0.5, 1.0]), "table": tabs[d]}
          for (k, d) in plan]
    sched = [(1, 2), (2, 4), (1, 8), (4, 2), (4, 2)] if variant == 0 else [(2, 4), (1, 2), (3, 2), (2, 8), (4, 4)]
    return {"kernels": ks, "sched": sched, "nchains": 1, "seed": rnd.randrange(1, 10 ** 6)}


DBL_LOG_MAX = 709.78


def gen_single_overflow(rnd, idx):
    """twin across the float64 overflow boundary of exp: the lower acceptance probability gives a huge
    finite step size, the higher one overflows to +inf (which is still 'not smaller')"""
    c = [[0.8, 0.05, 0.75, 10.0], [0.234, 0.05, 0.75, 10.0], [0.5, 0.125, 0.5, 3.0]][idx % 3]
    tie = idx % 4
    t = tie + 1
    k = math.sqrt(t) / (c[1] * (c[3] + t))
    a, a2 = 0.0, 1.0
    mu = round((DBL_LOG_MAX - k / 2 + c[0] * k) * 64) / 64        # ls(a) = boundary - k/2, ls(a2) = boundary + k/2
    return {"kind": "single", "cls": STATE_CLASSES[idx % 4], "consts": c, "prev": [1.0, 0.0, 3.0, mu],
            "a": a, "a2": a2, "tie": tie, "tie_array": idx % 2 == 1, "overflow": True}


def gen_sched(rnd, quick, shape):
    d = lambda lo, hi: rnd.randint(lo, hi)
    if shape == 0:      # the usual warm-up shape: fast, slow, slow, fast, posterior twice
        s = [(1, d(3, 6)), (2, d(4, 7)), (2, d(3, 5)), (1, d(3, 5)), (4, d(3, 5)), (4, d(2, 4))]
    elif shape == 1:    # burn-in between and after adaptation
        s = [(1, d(2, 5)), (3, d(2, 4)), (2, d(4, 8)), (3, d(2, 4)), (4, d(3, 6))]
    elif shape == 2:    # slow first, long fast epoch
        s = [(2, d(5, 8)), (1, d(8, 14)), (4, d(3, 5)), (4, d(2, 3))]
    else:               # no adaptation at all
        s = [(3, d(3, 6)), (4, d(3, 6)), (4, d(2, 4))]
    if not quick:
        s = [(t, n * 2) for (t, n) in s]
    return s


def generate(ctx):
    rnd = random.Random(ctx.seed)
    quick = ctx.quick
    cases = []
    # ---- corpus: fixed interesting cases first ------------------------------------------------
    rw_default, hmc_default = [0.234, 0.05, 0.75, 10.0], [0.8, 0.05, 0.75, 10.0]
    corpus = [
        gen_direct(rnd, 6, "random", rw_default, 0), gen_direct(rnd, 6, "random", hmc_default, 1),
        gen_direct(rnd, 0, "random", hmc_default, 2),            # epoch without a single adaptive step
        gen_direct(rnd, 1, "random", hmc_default, 3),            # eta_1 = 1
        gen_direct(rnd, 12, "zeros", hmc_default, 4), gen_direct(rnd, 12, "ones", rw_default, 5),
    ]
    cases += corpus
    for j, k in enumerate([0, 1, 2, 3, 4, 5] if quick else list(range(len(CANCEL))) * 2):
        cases.append(gen_cancel(rnd, k, j))
    ndir = 8 if quick else 100
    for i in range(ndir):
        mode = ["random", "random", "random", "extreme", "zeros", "ones"][i % 6]
        n = [1, 2, 3, 5, 8, 12][rnd.randrange(6)] if i % 7 else 12
        cases.append(gen_direct(rnd, n, mode, None, i))
    nsingle = 20 if quick else 200
    for i in range(nsingle):
        tie = [0, 1, 2, 7, 30, 99, 250][i % 7] if i % 3 == 0 else rnd.randint(0, 60)
        cases.append(gen_single(rnd, tie, i, equal=(i % 10 == 9)))
    for i in range(3 if quick else 12):
        cases.append(gen_single_overflow(rnd, i))
    import time
    t_0 = time.time()
    for c in cases:
        (run_direct if c["kind"] == "direct" else run_single)(c)
    common.log(f"[C11] direct calls: {len(cases)} cases in {time.time() - t_0:.1f}s")
    nrun, ndiff = jit_vs_eager(cases)
    common.log(f"[C11] jit vs eager done at {time.time() - t_0:.1f}s")
    ctx.tested_not_proved.append(f"direct da_step sequences through one jitted lax.scan (x64) vs eager calls: {nrun} sequences, {ndiff} differ by more than 1e-12")

    # ---- engine ------------------------------------------------------------------------------------
    specs = []
    # quick: the usual warm-up shape on 2 chains + the burn-in-in-between shape on 1 chain;
    # thorough: all four shapes (incl. "no adaptation at all"), default constants in one of them
    # reassign: None = the constructor values are the values used; "all" = all four dual-averaging attributes of every
    # kernel are reassigned after construction (every constructor value differs from the current one); an int r =
    # kernel number i has only attribute (i + r) % 4 reassigned
    plan = [(0, 2, False, None), (1, 1, True, "all")] if quick else \
        [(0, 3, False, None), (1, 3, True, "all"), (2, 3, False, 0), (3, 2, False, None), (0, 2, True, None), (2, 2, False, 2), (1, 2, False, "all")]
    for (shape, nch, defaults, reassign) in plan:
        ks = []
        for i, k in enumerate(KINDS):
            default = (rw_default if k in ("RW", "MH1", "MH0") else hmc_default) if defaults else None
            ksp = {"kernel": k, "consts": gen_consts(rnd, dyadic=True, default=default),
                   "s0": rnd.choice([0.25, 0.5, 1.0, 0.125]) if k != "IWLS" else rnd.choice([0.25, 0.5, 1.0])}
            if reassign is not None:
                with_reassignment(rnd, ksp, [0, 1, 2, 3] if reassign == "all" else [(i + reassign) % 4])
            ks.append(ksp)
        specs.append({"kernels": ks, "sched": gen_sched(rnd, quick, shape), "nchains": nch, "seed": rnd.randrange(1, 10 ** 6)})
    specs.append(scripted_spec(rnd, quick, 0))
    if not quick:
        sp = scripted_spec(rnd, quick, 1)
        for i, ksp in enumerate(sp["kernels"]):
            with_reassignment(rnd, ksp, [1, 2, 3] if i % 2 else [i % 4])     # the target stays: the tables are made for it
        specs.append(sp)
    for sp in specs:
        cases += run_engine(sp)
        common.log(f"[C11] engine with {len(sp['kernels'])} kernels, schedule {sp['sched']} done at {time.time() - t_0:.1f}s")

    # ---- evidence -------------------------------------------------------------------------------
    nontrivial = set()
    for c in cases:
        if c["kind"] == "direct":
            ctx.hist(f"direct.len={len(c['accs'])}")
            ctx.hist(f"direct.acc_mode={c['mode']}")
            ctx.hist("direct.init_on_used_state" if c["garbage"] else "direct.init_on_fresh_state")
            if len(c["accs"]) >= 2 and c["obs"][-1][1] == 0.0:
                ctx.hist("direct.error_sum_exactly_0_at_finalize_after_steps")
            ctx.hist(f"direct.state_class={c['cls']}")
            nontrivial.add(("d", tuple(c["consts"]), c["s0"], tuple(c["accs"])))
        elif c["kind"] == "single":
            ctx.hist("single.time_in_epoch=" + ("0" if c["tie"] == 0 else "1-9" if c["tie"] < 10 else "10-99" if c["tie"] < 100 else ">=100"))
            ctx.hist("single.twin_equal_acceptance" if c["a"] == c["a2"] else "single.twin_higher_acceptance")
            if c.get("overflow"):
                ctx.hist("single.twin_across_float64_overflow_of_exp")
            nontrivial.add(("s", tuple(c["consts"]), tuple(c["prev"]), c["a"], c["tie"]))
        else:
            ctx.hist(f"engine.kernel={c['kernel']}" + (".scripted_acceptance" if c.get("scripted") else ""))
            for j in c.get("reassigned") or []:
                ctx.hist(f"engine.{DA_ATTRS[j]}_reassigned_after_construction.{c['kernel']}")
            if not c.get("reassigned"):
                ctx.hist("engine.constructor_values_used")
            for (t, idxs) in epochs_of(c):
                if t in (1, 2) and tunes(c) and len(idxs) >= 2 and c["states"][idxs[-1]][1] == 0.0:
                    ctx.hist("engine.adaptation_epochs_ending_with_error_sum_exactly_0")
            for (t, idxs) in epochs_of(c):
                ctx.hist(f"engine.transitions.{ETY[t]}", len(idxs))
            ctx.hist("engine.dtypes=" + ",".join(c["dtypes"]))
            for (t, idxs) in epochs_of(c):
                if t in (1, 2):
                    ctx.hist(f"engine.adaptive_transitions_with_error_code.{c['kernel']}", sum(1 for i in idxs if c["errs"][i - 1] != 0))
            nontrivial.add(("e", c["kernel"], tuple(c["consts"]), tuple(map(tuple, c["sched"])), tuple(c["accs"])))
    ncalls = sum(len(c["accs"]) + 2 if c["kind"] == "direct" else 2 if c["kind"] == "single" else len(c["accs"]) for c in cases)
    ctx.count(ncalls, len(nontrivial))
    ctx.cov["rule"] = ("evaluations = da_init/da_step/da_finalize calls and engine transitions compared with the model; "
                       "distinct = distinct (constants, initial step size / previous state, acceptance sequence[, kernel, schedule]) tuples")
    ctx.cov["margin"] = margins(cases)
    for c in corpus[:1] + [c for c in cases if c["kind"] == "single"][:1] + [c for c in cases if c["kind"] == "engine"][:1]:
        ctx.sample({k: (v if not isinstance(v, list) or len(v) < 9 else v[:8] + ["..."]) for k, v in c.items() if k != "spec"})
    ctx.assume += [
        "C11_monotone: 0 < gamma and 0 < t0 + t (both hold for every kernel's defaults; refuted without: C11_monotone_needs_gamma_pos)",
        "C11_matches_nesterov / C11_finalize: at least one adaptive transition in the epoch (the empty epoch is C11_empty_epoch)",
        "C11_matches_hoffman_gelman: 0 <= t0, gamma <> 0",
        "frozen clauses: the acceptance probability, the inverse mass matrix produced by mm.py and the step-size adjustment of _tune_slow are inputs of the model",
    ]
    ctx.tested_not_proved += [
        "float32 / float64 arithmetic of XLA is compared with the real-valued model within 2^-13 (engine) / 2^-30 (direct, x64) relative tolerance",
        "bit-identity of stored kernel states in burn-in / posterior epochs (and for MHKernel without tuning) is observed on the sampled runs; the theorem is about the model's transition",
        "jit / vmap / scan of the engine are taken with their mathematical meaning",
    ]
    ctx.extra_tb = ["oracles: acceptance probabilities (mh_step / blackjax), inverse mass matrices (mm.py) and the adjustment factor are per-case inputs",
                    "Interval tactic (verified interval arithmetic) for the R-lemmas"]
    return cases


def margins(cases):
    """largest observed |code - float64 recurrence| / tolerance over all one-step comparisons (evidence)"""
    worst = {"direct": 0.0, "engine": 0.0}
    for c in cases:
        if nonfinite(c):
            continue
        try:
            steps = one_steps(c)
        except (ValueError, ZeroDivisionError, OverflowError):
            continue
        for (got, want, tol, kind) in steps:
            for i, (g, w) in enumerate(zip(got, want)):
                if g == w or math.isinf(w) or math.isinf(g):
                    continue
                try:
                    lim = float(tol) * (float(step_scale(w)) if i == 0 else 1 + abs(w))
                except OverflowError:      # evidence only: a value near the float64 limit has no finite margin
                    continue
                if lim > 0:
                    worst[kind] = max(worst[kind], abs(g - w) / lim)
    return {k: round(v, 6) for k, v in worst.items()}


def one_steps(c):
    """(observed, float64 one-step prediction from the observed predecessor, tol, stream)"""
    out = []
    if c["kind"] == "direct":
        o = c["obs"]
        for i, a in enumerate(c["accs"]):
            out.append((o[i + 1], py_step(c["consts"], o[i], a, i), TOL64, "direct"))
    elif c["kind"] == "single":
        out.append((c["obs"], py_step(c["consts"], c["prev"], c["a"], c["tie"]), TOL64, "direct"))
        out.append((c["obs2"], py_step(c["consts"], c["prev"], c["a2"], c["tie"]), TOL64, "direct"))
    else:
        st = c["states"]
        prev_ety, last = 0, 0
        for (t, idxs) in epochs_of(c):
            adaptive = t in (1, 2) and tunes(c)
            for j, i in enumerate(idxs):
                if j == 0:
                    # end_epoch / tune / start_epoch applied to the last state stored in the previous epoch
                    s = st[last][0] if prev_ety == 0 else math.exp(st[last][2])
                    if prev_ety == 2 and has_mm(c):
                        s *= adj_of(c, last, i)
                    entry = [s, 0.0, math.log(s), math.log(10 * s)]
                    out.append((st[i], py_step(c["consts"], entry, c["accs"][i - 1], 0) if adaptive else entry, TOL32, "engine"))
                elif adaptive:
                    out.append((st[i], py_step(c["consts"], st[i - 1], c["accs"][i - 1], j), TOL32, "engine"))
            if idxs:
                last, prev_ety = idxs[-1], t
    return out


# ------------------------------------------------------------------------------------------------
# direct oracle
# ------------------------------------------------------------------------------------------------
def oracle(c):
    try:
        return _oracle(c)
    except (ValueError, ZeroDivisionError, OverflowError) as ex:
        return f"oracle could not be evaluated: {ex!r}"


def _oracle(c):
    bad = nonfinite(c)
    if bad:
        return bad + _context(c)
    if c["kind"] == "direct":
        o = c["obs"]
        s0 = c["s0"]
        r = cmp4(o[0], [s0, 0.0, math.log(s0), math.log(10 * s0)], 1e-9, "da_init")
        if r:
            return r
        if o[0][0] != s0 or o[0][1] != 0.0:
            return f"da_init must keep the step size and zero the error sum exactly, got {o[0][:2]}"
        st = Stan(c["consts"], s0)
        for i, a in enumerate(c["accs"]):
            r = cmp4(o[i + 1], st.learn(a), 1e-8, f"da_step #{i + 1} (acceptance {a})")
            if r:
                return r
        last = o[-2]
        want = [math.exp(last[2]), last[1], last[2], last[3]]
        r = cmp4(o[-1], want, 1e-9, "da_finalize")
        if r:
            return r
        if o[-1][1:] != last[1:]:
            return "da_finalize changed more than the step size"
        r = cmp4(o[-1][:1], [st.complete()], 1e-8, "step size after the epoch (exp of the averaged log step size)")
        if r:
            return r
    elif c["kind"] == "single":
        for a, o in ((c["a"], c["obs"]), (c["a2"], c["obs2"])):
            if o[0] == math.inf and py_step(c["consts"], c["prev"], a, c["tie"])[0] != math.inf:
                return f"da_step (acceptance {a}): step size overflowed to inf although dual averaging gives a finite value" + _context(c)
        if c["a2"] >= c["a"] and not c["obs2"][0] >= c["obs"][0]:
            return (f"higher acceptance probability {c['a2']} gives a SMALLER step size {c['obs2'][0]!r} than "
                    f"{c['a']} does ({c['obs'][0]!r})")
        if c["obs"][3] != c["prev"][3]:
            return "da_step changed mu"
    else:
        r = oracle_engine(c)
        if r:
            return r + _context(c)
    # the same one-step comparisons the Coq lemmas make, in float64
    for (got, want, tol, _) in one_steps(c):
        r = cmp4(got, want, float(tol), "one update")
        if r:
            return r + _context(c)
    return None


def _context(c):
    if c["kind"] == "engine":
        re_ = ""
        if c.get("reassigned"):
            re_ = (f"; constructed with {c['ctor_consts']}, then " + ", ".join(DA_ATTRS[j] for j in c["reassigned"])
                   + " reassigned to the current values")
        return f" [{c['kernel']} chain {c['chain']}, current (target, gamma, kappa, t0) = {c['consts']}{re_}, schedule {c['sched']}]"
    return f" [constants {c['consts']}]"


def oracle_engine(c):
    st = c["states"]
    k, consts = c["kernel"], c["consts"]
    s = c["s0"]
    r = cmp4(st[0], [s, 0.0, math.log(s), math.log(10 * s)], 1e-5, "init_state")
    if r:
        return r
    prev_ety = 0
    for (t, idxs) in epochs_of(c):
        adaptive = t in (1, 2) and tunes(c)
        da = Stan(consts, s)
        entry = [s, 0.0, math.log(s), math.log(10 * s)]
        for j, i in enumerate(idxs):
            a = c["accs"][i - 1]
            where = f"{k} chain {c['chain']} {ETY[t]} epoch, transition {j + 1} (stored state #{i}, acceptance {a})"
            if adaptive:
                r = cmp4(st[i], da.learn(a), 1e-3, where)
                if r:
                    return r
                if c["imm"] is not None and j > 0 and c["imm"][i] != c["imm"][i - 1]:
                    return where + ": inverse mass matrix changed inside an epoch"
            else:
                if j == 0:
                    r = cmp4(st[i], entry, 1e-3, where + " [tuning state entering the epoch]")
                    if r:
                        return r
                else:
                    if st[i] != st[i - 1]:
                        return (where + f": tuning state changed between transitions outside adaptation: "
                                        f"{st[i - 1]} -> {st[i]}")
                    if c["imm"] is not None and c["imm"][i] != c["imm"][i - 1]:
                        return where + ": inverse mass matrix changed between transitions outside adaptation"
        s = da.complete()
        if t == 2 and has_mm(c) and idxs:
            nxt = idxs[-1] + 1
            if nxt < len(st):
                s *= adj_of(c, idxs[-1], nxt)
        prev_ety = t
    return None


def klass(c):
    return None


# ------------------------------------------------------------------------------------------------
# emission
# ------------------------------------------------------------------------------------------------
def lemmas_of(ci, c):
    """[(name, statement)] for one case"""
    out = []
    if nonfinite(c):
        return out          # no literal exists; the oracle reports the case
    if c["kind"] == "direct":
        o = c["obs"]
        cc = dclit(c["consts"])
        g = c["garbage"] or [0.0, 0.0, 0.0]
        t = tols(o[0], TOL64)
        out.append((f"c{ci}_init", f"init_ok {dalit([c['s0']] + g)} {dalit(o[0])} {rlit(t[2])} {rlit(t[3])}"))
        for i, a in enumerate(c["accs"]):
            t = tols(o[i + 1], TOL64)
            out.append((f"c{ci}_step{i}", f"step_ok {cc} {dalit(o[i])} {rlit(a)} {natlit(i)} {dalit(o[i + 1])} "
                                          f"{rlit(t[0])} {rlit(t[1])} {rlit(t[2])}"))
        t = tols(o[-1], TOL64)
        out.append((f"c{ci}_fin", f"fin_ok {dalit(o[-2])} {dalit(o[-1])} {rlit(t[0])}"))
        out.append((f"c{ci}_scratch", f"scratch_ok {cc} {rlit(c['s0'])} {lst(rlit(a) for a in c['accs'])} {dalit(o[-1])} "
                                      f"{rlit(t[0])} {rlit(t[1])} {rlit(t[3])}"))
    elif c["kind"] == "single":
        cc = dclit(c["consts"])
        for nm, a, o in (("a", c["a"], c["obs"]), ("b", c["a2"], c["obs2"])):
            t = tols(o, TOL64)
            if o[0] == math.inf:
                import sys
                out.append((f"c{ci}_one{nm}", f"over_ok {cc} {dalit(c['prev'])} {rlit(a)} {natlit(c['tie'])} {dalit([0.0] + o[1:])} "
                                              f"{rlit(Fraction(sys.float_info.max))} {rlit(t[1])} {rlit(t[2])}"))
                continue
            out.append((f"c{ci}_one{nm}", f"step_ok {cc} {dalit(c['prev'])} {rlit(a)} {natlit(c['tie'])} {dalit(o)} "
                                          f"{rlit(t[0])} {rlit(t[1])} {rlit(t[2])}"))
    else:
        st, cc, kk = c["states"], dclit(c["consts"]), KERNELS[c["kernel"]]
        bits = (lambda i: [f32bits(v) for v in c["imm"][i]]) if c["imm"] is not None else (lambda i: [])
        prev_ety, last = 0, 0
        for (t, idxs) in epochs_of(c):
            for j, i in enumerate(idxs):
                tl = tols(st[i], TOL32)
                a = c["accs"][i - 1]
                if j == 0:
                    hist = "None"
                    if prev_ety == 2 and has_mm(c):
                        hist = f"(Some ({rlit(adj_of(c, last, i))}, {lst(zlit(b) + '%Z' for b in bits(i))}))"
                    out.append((f"c{ci}_e{i}_first",
                                f"first_agrees {kk} {cc} {ETY[t]} {ETY[prev_ety]} {hist} {kslit(st[last], bits(last))} {rlit(a)} "
                                f"{kslit(st[i], bits(i))} " + " ".join(rlit(x) for x in tl)))
                else:
                    out.append((f"c{ci}_e{i}_trans",
                                f"trans_agrees {kk} {cc} {ETY[t]} {kslit(st[i - 1], bits(i - 1))} {rlit(a)} {natlit(j)} "
                                f"{kslit(st[i], bits(i))} {rlit(tl[0])} {rlit(tl[1])} {rlit(tl[2])}"))
            if idxs:
                last, prev_ety = idxs[-1], t
    return out


def weight(c):
    if c["kind"] == "direct":
        return 3 * len(c["accs"]) + 10 + len(c["accs"]) ** 2 // 6
    if c["kind"] == "single":
        return 6 + (c["tie"] // 20)
    return 3 * len(c["accs"]) + 4


def emit(ctx, cases):
    shards, cur, curw = [], [], 0
    budget = 200
    groups = []
    for i, c in enumerate(cases):
        w = weight(c)
        if cur and curw + w > budget:
            groups.append(cur)
            cur, curw = [], 0
        cur.append(i)
        curw += w
    if cur:
        groups.append(cur)
    for idxs in groups:
        body = []
        for i in idxs:
            for (nm, stmt) in lemmas_of(i, cases[i]):
                body.append(f"Lemma {nm} : {stmt}.\nProof. da_close. Qed.\n")
        shards.append((ctx.new_shard(HEADER + "\n" + "\n".join(body)), idxs))
    source_tie(ctx)
    return shards


# ------------------------------------------------------------------------------------------------
# second tie: the current source translated to Gallina and proved equal to the model (c11_tie.py)
# ------------------------------------------------------------------------------------------------
def source_tie(ctx):
    """Runs after the Coq build (emit is only called when it succeeded).  A broken source tie alone is no
    alarm: it is recorded in coverage.source_tie; run() adds it to ctx.broken only when the behavioural
    correspondence or the oracle report a violation as well."""
    try:
        tie = c11_tie.run(ctx, common.REPO)
    except Exception as ex:      # optional evidence; never let it abort the check
        tie = {"translated": [], "lemmas_ok": False, "lemmas": [], "not_tied": {"all": repr(ex)},
               "detail": f"SOURCE TIE BROKEN: c11_tie aborted: {type(ex).__name__}: {ex}"}
    ctx.cov["source_tie"] = tie
    for sec in tie.get("not_tied", {}):
        ctx.hist("T.source_tie_broken." + sec)
    ctx.hist("T.source_tie_lemmas", len(tie.get("lemmas", [])))
    ctx.extra_tb = getattr(ctx, "extra_tb", []) + [
        "source tie (advisory): tools/py2gallina_c11.py (fail-closed Python-ast -> Gallina translator; every number is a real number, "
        "float literals are the decimal fractions written, jnp.log/exp/sqrt are ln/exp/sqrt, ** is Rpower, in-place field updates are "
        "shadowing lets, lax.cond is if) and the statements of the lemmas in harness/lv/c11_tie.py; result of this run in coverage.source_tie"]


def run(ctx):
    orig_finish = ctx.finish

    def finish(*a, **k):
        tie = ctx.cov.get("source_tie")
        if tie is None:
            ctx.cov["source_tie"] = {"translated": [], "lemmas_ok": False, "detail": "not attempted: the Coq build failed"}
        elif not tie.get("lemmas_ok") and ctx.violations:
            # the behavioural part / the oracle disagree too: name the broken source tie in the replay files
            for sec, why in tie.get("not_tied", {}).items():
                if not why.startswith("needs "):
                    ctx.broken.append(f"source tie [{sec}]: {why}"[:400])
        return orig_finish(*a, **k)
    ctx.finish = finish
    return common.run_standard(ctx, sys.modules[__name__])


def diagnose(ctx, path, idxs, cases):
    txt = open(path).read()
    txt = re.sub(r"Lemma (\w+) : (.*?)\.\nProof\. da_close\. Qed\.",
                 lambda m: (f"Goal {m.group(2)}.\nProof. tryif (solve [da_close]) then idtac else idtac \"DISAGREE {m.group(1)}\". Abort."),
                 txt, flags=re.S)
    ok, out = ctx.coq_eval(txt)
    names = re.findall(r"DISAGREE (\w+)", out)
    common.log("disagreeing lemmas:", names[:20])
    bad = sorted({int(re.match(r"c(\d+)_", n).group(1)) for n in names})
    for n in names[:8]:
        ctx.broken.append(f"correspondence lemma {n}")
    return bad


# ------------------------------------------------------------------------------------------------
# search / replay
# ------------------------------------------------------------------------------------------------
def strip(c):
    return {k: v for k, v in c.items()}


def search(ctx, disagreeing):
    out = []
    for c in disagreeing:
        r = oracle(c)
        if r:
            out.append({"why": r, **strip(c)})
    if out:
        return out
    # widen: fresh direct sequences / single steps judged by the oracle
    rnd = random.Random(ctx.seed + 1)
    for i in range(400):
        c = gen_direct(rnd, rnd.choice([1, 2, 3, 6, 12, 20]), rnd.choice(["random", "extreme", "zeros", "ones"]), None, i) \
            if i % 2 else gen_single(rnd, rnd.choice([0, 1, 2, 5, 17, 80, 400]), i)
        (run_direct if c["kind"] == "direct" else run_single)(c)
        r = oracle(c)
        if r:
            out.append({"why": r, **strip(c)})
            if len(out) >= 2:
                break
    return out


def replay(rp) -> int:
    c = rp["replay"].get("case")
    if not c or "kind" not in c:
        print("replay file names no concrete input (broken lemma only):", rp["replay"].get("broken"))
        return 0
    if c["kind"] == "direct":
        new = run_direct(dict(c))
    elif c["kind"] == "single":
        new = run_single(dict(c))
    else:
        spec = c["spec"]
        spec["sched"] = [tuple(x) for x in spec["sched"]]
        new = [x for x in run_engine(spec) if x["kidx"] == int(c["kidx"]) and x["chain"] == int(c["chain"])][0]
    r = oracle(new)
    show = {k: v for k, v in new.items() if k not in ("states", "imm", "obs", "spec")}
    print("input:", show)
    if new["kind"] == "engine":
        print("stored (step_size, error_sum, log_avg_step_size, mu) per transition:")
        for i, s in enumerate(new["states"]):
            print("  ", i, s, "" if i == 0 else f"acc={new['accs'][i - 1]}")
    else:
        print("observed states:", new.get("obs"), new.get("obs2", ""))
    if r:
        print("REPLAY FAILS:", r)
        return 1
    print("replay passes on the current tree")
    return 0
